#!/usr/bin/env python3
"""Regenerates MANIFEST.json from the rule modules present under sa/rules/."""
import importlib, json, os, sys
sys.path.insert(0, os.path.dirname(os.path.abspath(__file__)))
ALL = ['C%02d' % i for i in range(1, 21)]
NA = {
 'C03': 'A round-trip equality between two value computations over all instants: a relation between results, not a shape; no sound static argument in reach.',
 'C05': 'Exact inverse arithmetic over int64 with overflow avoidance, and agreement of the order with the difference: relations between results. The structural clauses in reach (one overload per tag; the lexicographic comparison) are carried under C04 or exercised by every test of the suite.',
 'C07': 'format-then-parse identity over instants x formats x zones: value semantics of two 300-line string routines plus libc.',
}
checks, na = [], []
for pid in ALL:
    try:
        m = importlib.import_module('sa.rules.' + pid.lower())
    except ImportError:
        m = None
    if m is None or getattr(m, 'DISABLED', False) or not hasattr(m, 'LEVEL'):
        na.append(dict(property_id=pid, reason=NA.get(pid, 'check not built yet in this round (see DESIGN.md section 3 for the planned rules)')))
        continue
    checks.append(dict(
        property_id=pid,
        quick_cmd='python3 sa/check.py %s --tier quick' % pid,
        thorough_cmd='python3 sa/check.py %s --tier thorough' % pid,
        evidence_file='evidence/%s.json' % pid,
        replay_cmd_template='python3 sa/check.py --replay {path}',
        engine='sa',
        level_claimed=dict(category='other', text=m.LEVEL, design_ref='DESIGN.md section 3, ' + pid),
        level_note=m.LEVEL_NOTE,
        technique=m.TECHNIQUE))
man = dict(
    version=1,
    setup_cmd='python3 sa/selftest.py --setup',
    hooks=dict(guard='GOOGLE_CCTZ_VERIF', enable='none: all rules analyse unmodified sources (no hooks in /repo)',
               baseline_off_cmd='cmake --build /repo/_build && ctest --test-dir /repo/_build -j8 --timeout 900',
               source_commits=[], add_only=True),
    engines=[dict(name='sa', path='sa/', serves_properties=[c['property_id'] for c in checks],
                  kind_free_text='custom static analysis (Python) over clang-14 JSON ASTs of every library unit: call graph, structured CFG with dominators, must-hold branch facts, RAII lock regions, shared-state inventory, constant-table relations, interval abstract interpretation, definite assignment')],
    checks=checks,
    not_applicable=na,
    notes='Technique family: static analysis only. Each check re-dumps the ASTs of /repo working tree on every run; exit 2 = analysis broken (anchor vanished), never a verdict. Known findings in known_findings.json.')
json.dump(man, open(os.path.join(os.path.dirname(os.path.abspath(__file__)), 'MANIFEST.json'), 'w'), indent=1)
print('checks:', [c['property_id'] for c in checks])
