// Replay of finding F3 (C16/C12): ParsePosixSpec accepts strings whose rule
// dates are missing and leaves dst_start.date unassigned.  Triage aid only.
#include <cstdio>
#include <cstring>
#include <new>
#include "time_zone_posix.h"
int main() {
  const char* specs[] = {"EST5EDT4", "EST5EDT,M3,M11.1.0", "EST5EDT,M3.2,M11.1.0", "EST5EDT,M3.2.0",
                         "EST5EDT,M3.2.0,M11.1.0"};
  int bad = 0;
  for (const char* s : specs) {
    int fmts[2];
    bool oks[2];
    for (int fill = 0; fill < 2; ++fill) {
      alignas(cctz::PosixTimeZone) unsigned char raw[sizeof(cctz::PosixTimeZone)];
      memset(raw, fill ? 0x7f : 0x00, sizeof raw);
      auto* res = reinterpret_cast<cctz::PosixTimeZone*>(raw);
      new (&res->std_abbr) std::string;
      new (&res->dst_abbr) std::string;
      oks[fill] = cctz::ParsePosixSpec(s, res);
      fmts[fill] = static_cast<int>(res->dst_start.date.fmt);
    }
    printf("%-28s accepted=%d/%d dst_start.date.fmt=%d/%d\n", s, oks[0], oks[1], fmts[0], fmts[1]);
    if (oks[0] && fmts[0] != fmts[1]) ++bad;
  }
  return bad ? 1 : 0;
}
