// Replay of finding F4 (C15): a NUL byte is accepted as the digit "10".
#include <cstdio>
#include <string>
#include "cctz/time_zone.h"
int main() {
  cctz::time_zone tz;
  bool ok = cctz::load_time_zone(std::string("Fixed/UTC+0\0:00:00", 18), &tz);
  auto al = tz.lookup(std::chrono::system_clock::from_time_t(0));
  printf("loaded=%d offset=%d abbr=%s\n", ok, al.offset, al.abbr);
  return ok ? 1 : 0;
}
