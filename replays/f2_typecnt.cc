// Replay of finding F2 (C12): TZif v1, typecnt=256, every type isdst: the
// default-type search uses an 8-bit index compared with hdr.typecnt.
#include <cstdio>
#include <cstring>
#include <string>
#include <vector>
#include "cctz/time_zone.h"
#include "cctz/zone_info_source.h"
static std::string g_data;
struct Src : cctz::ZoneInfoSource {
  size_t pos = 0;
  size_t Read(void* p, size_t n) override { n = std::min(n, g_data.size() - pos); memcpy(p, g_data.data() + pos, n); pos += n; return n; }
  int Skip(size_t n) override { n = std::min(n, g_data.size() - pos); pos += n; return 0; }
};
namespace cctz_extension {
std::unique_ptr<cctz::ZoneInfoSource> F(const std::string& name, const std::function<std::unique_ptr<cctz::ZoneInfoSource>(const std::string&)>& fb) {
  if (name.rfind("Mem/", 0) == 0) return std::unique_ptr<cctz::ZoneInfoSource>(new Src);
  return fb(name);
}
ZoneInfoSourceFactory zone_info_source_factory = F;
}
static void be32(std::string& s, unsigned v) { for (int i = 3; i >= 0; --i) s.push_back(char(v >> (8 * i))); }
int main(int argc, char** argv) {
  unsigned typecnt = argc > 1 ? atoi(argv[1]) : 256;
  std::string d = "TZif"; d.push_back('\0'); d.append(15, '\0');
  be32(d, 0); be32(d, 0); be32(d, 0); be32(d, 1); be32(d, typecnt); be32(d, 4);
  be32(d, 0);              // one transition at t=0
  d.push_back('\0');       // of type 0
  for (unsigned i = 0; i < typecnt; ++i) { be32(d, 3600); d.push_back(1); d.push_back(0); }
  d.append("DST", 4);
  g_data = d;
  cctz::time_zone tz;
  bool ok = cctz::load_time_zone("Mem/x", &tz);
  printf("typecnt=%u loaded=%d\n", typecnt, ok);
  return 0;
}
