#!/usr/bin/env python3
"""Dev harness: run every claimed check against behaviour-preserving refactorings.
   usage: rftest.py <dir-with-*/patch.diff> ... [--props=C13,C14] [-j N]
   Each patch is applied to a scratch copy of /repo's working tree (outside /repo and /verif);
   any non-zero exit is a false alarm of the machinery."""
import json, os, subprocess, sys, glob, shutil, tempfile
from concurrent.futures import ThreadPoolExecutor
V = os.path.dirname(os.path.dirname(os.path.abspath(__file__)))
man = json.load(open(os.path.join(V, 'MANIFEST.json')))
claimed = [c['property_id'] for c in man['checks']]
props = None
jobs = 6
dirs = []
for a in sys.argv[1:]:
    if a.startswith('--props'):
        props = a.split('=', 1)[1].split(',')
    elif a.startswith('-j'):
        jobs = int(a[2:])
    else:
        dirs.append(a)
patches = []
for d in dirs:
    if d.endswith('.diff'):
        patches.append(os.path.abspath(d))
    else:
        patches += sorted(glob.glob(os.path.join(os.path.abspath(d), '*', 'patch.diff'))) or sorted(glob.glob(os.path.join(os.path.abspath(d), 'patch.diff')))
scratch = tempfile.mkdtemp(prefix='rftest.')


def one(patch):
    name = '_'.join(patch.split('/')[-4:-1])
    root = os.path.join(scratch, name, 'repo')
    os.makedirs(root)
    for sub in ('include', 'src'):
        shutil.copytree(os.path.join('/repo', sub), os.path.join(root, sub))
    shutil.copy('/repo/CMakeLists.txt', root)
    r = subprocess.run(['patch', '-p1', '-s', '-d', root, '-i', patch], capture_output=True, text=True)
    if r.returncode != 0:
        return name, 'PATCH DOES NOT APPLY ' + (r.stdout + r.stderr)[:200], {}
    env = dict(os.environ, VERIF_REPO=root, VERIF_WORK=os.path.join(scratch, name, 'work'))
    row = {}
    for p in (props or claimed):
        o = subprocess.run(['python3', 'sa/check.py', p, '--scratch'], cwd=V, capture_output=True, text=True, env=env)
        if o.returncode != 0:
            lines = [l for l in (o.stdout + o.stderr).splitlines() if ': rule ' in l or 'BROKEN' in l.upper() or 'Error' in l]
            row[p] = (o.returncode, lines[:6])
    shutil.rmtree(os.path.join(scratch, name), ignore_errors=True)
    return name, None, row


try:
    with ThreadPoolExecutor(jobs) as ex:
        for name, err, row in ex.map(one, patches):
            if err:
                print('%-24s %s' % (name, err))
            elif not row:
                print('%-24s silent' % name)
            else:
                print('%-24s FALSE ALARM' % name)
                for p, (rc, lines) in row.items():
                    print('     %s rc=%d' % (p, rc))
                    for l in lines:
                        print('        ' + l[:300])
finally:
    shutil.rmtree(scratch, ignore_errors=True)
