#!/usr/bin/env python3
"""Run the registered checks against every kept seeded change:
   apply /verif/seeded/<id>/patch.diff to /repo, run the check(s), undo.
   usage: mutest.py [<seed-id> ...] [--props C13,C14]"""
import json, os, subprocess, sys, glob
V = os.path.dirname(os.path.dirname(os.path.abspath(__file__)))
man = json.load(open(os.path.join(V, 'MANIFEST.json')))
claimed = [c['property_id'] for c in man['checks']]
args = [a for a in sys.argv[1:] if not a.startswith('--')]
props = None
for a in sys.argv[1:]:
    if a.startswith('--props'):
        props = a.split('=', 1)[1].split(',')
seeds = sorted(os.path.basename(d) for d in glob.glob(os.path.join(V, 'seeded', '*')) if os.path.isdir(d))
if args:
    seeds = [s for s in seeds if s in args]
assert subprocess.run(['git', '-C', '/repo', 'status', '--porcelain', '--untracked-files=no'], capture_output=True, text=True).stdout.strip() == '', '/repo dirty'
res = {}
for s in seeds:
    patch = os.path.join(V, 'seeded', s, 'patch.diff')
    target = s[:3]
    r = subprocess.run(['git', '-C', '/repo', 'apply', patch], capture_output=True, text=True)
    if r.returncode != 0:
        print(s, 'PATCH DOES NOT APPLY', r.stderr.strip()[:200]); continue
    try:
        row = {}
        for p in (props or claimed):
            o = subprocess.run(['python3', 'sa/check.py', p], cwd=V, capture_output=True, text=True)
            rules = sorted(set(l.split('rule ')[1].split(':')[0] for l in o.stdout.splitlines() if ': rule ' in l))
            row[p] = (o.returncode, rules)
        res[s] = row
        det = [(p, rc, rules) for p, (rc, rules) in row.items() if rc != 0]
        print('%-6s target=%s  %s' % (s, target, 'DETECTED by ' + '; '.join('%s(rc=%d:%s)' % (p, rc, ','.join(rules)) for p, rc, rules in det) if det else 'missed'))
    finally:
        subprocess.run(['git', '-C', '/repo', 'checkout', '--', '.'])
json.dump(res, open(os.path.join(V, '.work', 'mutest.json'), 'w'), indent=1) if os.path.isdir(os.path.join(V, '.work')) else None
