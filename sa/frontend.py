"""Front end: clang JSON AST of every library unit of /repo, re-dumped on every run.

Nothing here runs cctz code.  clang++ is invoked with -fsyntax-only; the JSON
AST (type-checked, names resolved, implicit casts explicit, templates
instantiated) is the only input of every rule.
"""
import json
import os
import re
import shutil
import subprocess
import sys
from concurrent.futures import ThreadPoolExecutor

REPO = os.environ.get('VERIF_REPO', '/repo')
VERIF = os.path.dirname(os.path.dirname(os.path.abspath(__file__)))
WORK = os.environ.get('VERIF_WORK') or os.path.join(VERIF, '.work')
CLANG = shutil.which('clang++') or 'clang++'


class AnalysisBroken(Exception):
    """An anchor vanished / a unit could not be parsed: exit 2, never a verdict."""


# ----------------------------------------------------------------------------
# unit list


def library_units(repo=REPO):
    """Sources of add_library(cctz ...) cross-checked against src/*.cc."""
    cm = open(os.path.join(repo, 'CMakeLists.txt')).read()
    m = re.search(r'add_library\(cctz\s+(.*?)\)', cm, re.S)
    if not m:
        raise AnalysisBroken('CMakeLists.txt: add_library(cctz ...) not found')
    listed = [t for t in m.group(1).split() if t.endswith('.cc')]
    on_disk = sorted(
        'src/' + f for f in os.listdir(os.path.join(repo, 'src'))
        if f.endswith('.cc') and not f.endswith('_test.cc')
        and 'benchmark' not in f and f != 'time_tool.cc')
    if sorted(listed) != on_disk:
        raise AnalysisBroken(
            'unit list mismatch: CMake lists %s, src/ has %s' %
            (sorted(set(listed) - set(on_disk)), sorted(set(on_disk) - set(listed))))
    return [os.path.join(repo, u) for u in on_disk]


# ----------------------------------------------------------------------------
# dumping


def _dump_one(args):
    src, out, flags = args
    cmd = [CLANG] + flags + ['-fsyntax-only', '-Xclang', '-ast-dump=json',
                             '-Xclang', '-ast-dump-filter=cctz', src]
    with open(out, 'wb') as f:
        p = subprocess.run(cmd, stdout=f, stderr=subprocess.PIPE)
    if p.returncode != 0:
        raise AnalysisBroken('clang failed on %s:\n%s' % (src, p.stderr.decode()[-2000:]))
    return out


def base_flags(std='gnu++17', defs=(), repo=REPO):
    return (['-std=' + std, '-DNDEBUG', '-I' + os.path.join(repo, 'include'),
             '-I' + os.path.join(repo, 'src'), '-Wno-everything'] +
            ['-D' + d for d in defs])


def dump_units(sources, tag, std='gnu++17', defs=(), repo=REPO):
    # (one directory per process: checks of different properties may run side by side and share a tag)
    d = os.path.join(WORK, '%s.%d' % (tag, os.getpid()))
    shutil.rmtree(d, ignore_errors=True)
    os.makedirs(d)
    import atexit
    atexit.register(shutil.rmtree, d, True)
    flags = base_flags(std, defs, repo)
    jobs = []
    for s in sources:
        out = os.path.join(d, os.path.basename(s) + '.json')
        jobs.append((s, out, flags))
    with ThreadPoolExecutor(max_workers=16) as ex:
        outs = list(ex.map(_dump_one, jobs))
    return outs


# ----------------------------------------------------------------------------
# loading


def _raw_objects(path):
    s = open(path).read()
    dec = json.JSONDecoder()
    i, n = 0, len(s)
    objs = []
    while i < n:
        while i < n and s[i] in ' \n\r\t':
            i += 1
        if i >= n:
            break
        o, i = dec.raw_decode(s, i)
        objs.append(o)
    return objs


class Unit(object):
    """One translation unit: roots, id index, parents, positions, qualified names."""

    def __init__(self, path, src):
        self.path = path
        self.src = src
        self.name = os.path.basename(src)
        self.roots = _raw_objects(path)
        if not self.roots:
            raise AnalysisBroken('empty AST for ' + src)
        self.by_id = {}
        self._last_file = None
        self._last_line = None
        for r in self.roots:
            self._index(r, None)
        self._qualify()

    # -- positions: clang's JSON omits file/line when unchanged from the
    # previously printed location, so replay in print order.
    def _bare(self, loc):
        if not loc:
            return None
        if 'file' in loc:
            self._last_file = loc['file']
        if 'line' in loc:
            self._last_line = loc['line']
        if 'offset' not in loc:
            return None
        return (self._last_file, self._last_line, loc.get('col'))

    def _loc(self, loc):
        if not loc:
            return None
        if 'spellingLoc' in loc or 'expansionLoc' in loc:
            sp = ex = None
            for k in loc:  # print order
                if k == 'spellingLoc':
                    sp = self._bare(loc[k])
                elif k == 'expansionLoc':
                    ex = self._bare(loc[k])
            return ex or sp
        return self._bare(loc)

    def _index(self, o, parent):
        o['_p'] = parent
        o['_u'] = self
        pos = None
        if o.get('kind') == 'LambdaExpr' and isinstance(o.get('inner'), list) and len(o['inner']) >= 2:
            # clang dumps a lambda's body twice: inside the closure type's call operator and again as the last child of
            # the expression.  Keep the call operator's copy only, so that the body is visited once, as the function it is.
            last = o['inner'][-1]
            rec = o['inner'][0]
            if isinstance(last, dict) and last.get('kind') == 'CompoundStmt' and isinstance(rec, dict) and rec.get('kind') == 'CXXRecordDecl' and \
                    any(isinstance(m, dict) and m.get('kind') == 'CXXMethodDecl' and m.get('name') == 'operator()' and
                        any(isinstance(b, dict) and b.get('kind') == 'CompoundStmt' for b in m.get('inner', ()))
                        for m in rec.get('inner', ())):
                o['inner'] = o['inner'][:-1]
        for k in list(o.keys()):
            if k == 'loc':
                p = self._loc(o[k])
                pos = pos or p
            elif k == 'range':
                b = self._loc(o[k].get('begin'))
                e = self._loc(o[k].get('end'))
                if pos is None:
                    pos = b
                o['_end'] = e
            elif k == 'inner':
                if pos is not None:
                    o['_pos'] = pos
                for c in o[k]:
                    if isinstance(c, dict):
                        self._index(c, o)
        if pos is not None:
            o['_pos'] = pos
        elif parent is not None and '_pos' in parent:
            o['_pos'] = parent['_pos']
        i = o.get('id')
        if i is not None and 'kind' in o:
            self.by_id[i] = o

    def _qualify(self):
        CTX = ('NamespaceDecl', 'CXXRecordDecl', 'ClassTemplateSpecializationDecl',
               'EnumDecl', 'ClassTemplatePartialSpecializationDecl') + FUNC_KINDS
        memo = {}

        def own_name(o):
            k = o.get('kind')
            nm = o.get('name')
            if k == 'NamespaceDecl':
                return nm or '(anonymous)'
            if k == 'ClassTemplateSpecializationDecl':
                args = [qtype(c).replace('cctz::detail::', '') for c in o.get('inner', ())
                        if c.get('kind') == 'TemplateArgument']
                return '%s<%s>' % (nm, ','.join(args))
            if k in FUNC_KINDS:
                return (nm or '?') + '()'
            if k == 'CXXRecordDecl' and not nm:
                return '(lambda)' if o.get('_p', {}).get('kind') == 'LambdaExpr' else '(unnamed)'
            return nm or '?'

        def owner(o):
            pid = o.get('parentDeclContextId')
            if pid and pid in self.by_id:
                return self.by_id[pid]
            p = o.get('_p')
            while p is not None:
                if p.get('kind') in CTX:
                    return p
                p = p.get('_p')
            return None

        def qctx(o):
            i = id(o)
            if i in memo:
                return memo[i]
            memo[i] = ()  # cycle guard
            w = owner(o)
            r = () if w is None else qctx(w) + (own_name(w),)
            memo[i] = r
            return r
        for o in self.walk():
            k = o.get('kind', '')
            if k.endswith('Decl') and o.get('name') is not None:
                c = qctx(o)
                o['_ctx'] = c
                o['_qn'] = '::'.join(x for x in c + (o['name'],) if x != '(anonymous)')

    # -- type aliases declared in the cctz namespaces
    def aliases(self):
        if not hasattr(self, '_aliases'):
            m = {}
            for d in self.by_id.values():
                if d.get('kind') in ('TypeAliasDecl', 'TypedefDecl') and d.get('name'):
                    t = d.get('type') or {}
                    m[d['name']] = t.get('desugaredQualType') or t.get('qualType', '')
            self._aliases = m
        return self._aliases

    def expand_type(self, t):
        """Expand cctz-declared aliases inside a type string (best effort)."""
        al = self.aliases()
        for _ in range(4):
            changed = False
            for name, under in al.items():
                pat = r'(?<![\w:])((?:[\w]+::|\(anonymous namespace\)::)*)' + re.escape(name) + r'(?![\w<])'
                new = re.sub(pat, lambda mm: under, t)
                if new != t:
                    t = new
                    changed = True
            if not changed:
                break
        return t

    # -- queries
    def walk(self, o=None):
        stack = list(reversed(self.roots)) if o is None else [o]
        while stack:
            x = stack.pop()
            yield x
            inner = x.get('inner')
            if inner:
                for c in reversed(inner):
                    if isinstance(c, dict):
                        stack.append(c)

    def functions(self, with_body=True):
        for o in self.walk():
            if o.get('kind') in FUNC_KINDS:
                if not with_body or body_of(o) is not None:
                    yield o


FUNC_KINDS = ('FunctionDecl', 'CXXMethodDecl', 'CXXConstructorDecl',
              'CXXDestructorDecl', 'CXXConversionDecl')


def owner_fn(x):
    """The function (or lambda call operator) whose body directly contains the node x."""
    p_ = x.get('_p')
    while p_ is not None:
        if p_.get('kind') in FUNC_KINDS:
            return p_
        p_ = p_.get('_p')
    return None


def body_of(fn):
    for c in fn.get('inner', ()):  # noqa
        if c.get('kind') in ('CompoundStmt', 'CXXTryStmt'):
            return c
    return None


def params_of(fn):
    return [c for c in fn.get('inner', ()) if c.get('kind') == 'ParmVarDecl']


def qn(o):
    return o.get('_qn') or o.get('name') or '?'


def qtype(o):
    t = o.get('type') or {}
    return t.get('qualType', '')


def dtype(o):
    """Desugared type when clang prints one, else the written type."""
    t = o.get('type') or {}
    return t.get('desugaredQualType') or t.get('qualType', '')


def pos(o):
    p = o.get('_pos')
    if not p:
        return '?:?'
    f = p[0] or '?'
    if f.startswith(REPO + '/'):
        f = f[len(REPO) + 1:]
    return '%s:%s' % (f, p[1])


def file_of(o):
    p = o.get('_pos')
    return p[0] if p else None


def line_of(o):
    p = o.get('_pos')
    return p[1] if p else None


def in_repo(o):
    f = file_of(o)
    return bool(f) and f.startswith(REPO + '/')


def enclosing_function(o):
    p = o.get('_p')
    while p is not None:
        if p.get('kind') in FUNC_KINDS or p.get('kind') == 'LambdaExpr':
            return p
        p = p.get('_p')
    return None


def ancestors(o):
    p = o.get('_p')
    while p is not None:
        yield p
        p = p.get('_p')


def walk(o):
    stack = [o]
    while stack:
        x = stack.pop()
        yield x
        inner = x.get('inner')
        if inner:
            for c in reversed(inner):
                if isinstance(c, dict):
                    stack.append(c)


def strip(e):
    """Peel wrappers that do not change the value or identity of an expression."""
    while e is not None and e.get('kind') in (
            'ImplicitCastExpr', 'ParenExpr', 'ExprWithCleanups', 'MaterializeTemporaryExpr',
            'CXXBindTemporaryExpr', 'ConstantExpr', 'CXXFunctionalCastExpr',
            'CXXStaticCastExpr', 'CStyleCastExpr', 'FullExpr'):
        if e.get('kind') in ('CXXFunctionalCastExpr', 'CXXStaticCastExpr', 'CStyleCastExpr') \
                and e.get('castKind') not in ('NoOp', 'IntegralCast', 'LValueToRValue',
                                              'ConstructorConversion', None):
            break
        inner = [c for c in e.get('inner', ()) if isinstance(c, dict) and 'kind' in c]
        if not inner:
            break
        e = inner[-1] if e.get('kind') != 'CXXFunctionalCastExpr' else inner[0]
    return e


def strip_implicit(e):
    while e is not None and e.get('kind') in (
            'ImplicitCastExpr', 'ParenExpr', 'ExprWithCleanups', 'MaterializeTemporaryExpr',
            'CXXBindTemporaryExpr', 'ConstantExpr', 'FullExpr'):
        inner = [c for c in e.get('inner', ()) if isinstance(c, dict) and 'kind' in c]
        if not inner:
            break
        e = inner[0]
    return e


def kids(e):
    return [c for c in e.get('inner', ()) if isinstance(c, dict) and 'kind' in c]


# ----------------------------------------------------------------------------
# program = all units under one configuration


class Program(object):
    def __init__(self, tag='default', std='gnu++17', defs=(), repo=REPO, sources=None,
                 prefixes=None):
        self.tag = tag
        self.std = std
        self.repo = repo
        self.defs = tuple(defs)
        srcs = list(sources) if sources is not None else library_units(repo)
        self.prefixes = tuple(prefixes) if prefixes else (repo + '/',)
        outs = dump_units(srcs, tag, std, defs, repo)
        with ThreadPoolExecutor(max_workers=8) as ex:
            self.units = list(ex.map(lambda a: Unit(*a), zip(outs, srcs)))
        self.by_name = {u.name: u for u in self.units}
        self._fn_index = None

    def inside(self, o):
        f = file_of(o)
        return bool(f) and any(f.startswith(p) for p in self.prefixes)

    def unit(self, name):
        if name not in self.by_name:
            raise AnalysisBroken('unit %s not parsed' % name)
        return self.by_name[name]

    def functions(self):
        """(unit, fn) for every function definition located in /repo, de-duplicated
        across units by (qualified name, type, position)."""
        if self._fn_index is None:
            seen = {}
            for u in self.units:
                for f in u.functions():
                    if not self.inside(f):
                        continue
                    key = (qn(f), qtype(f), f.get('_pos'), _targs(f))
                    if key not in seen:
                        seen[key] = (u, f)
            self._fn_index = list(seen.values())
        return self._fn_index

    def find_functions(self, qualified, type_substr=None):
        r = [(u, f) for (u, f) in self.functions()
             if qn(f) == qualified and (type_substr is None or type_substr in qtype(f))]
        return r

    def one_function(self, qualified, type_substr=None):
        r = self.find_functions(qualified, type_substr)
        if len(r) != 1:
            raise AnalysisBroken('anchor function %s%s: %d definitions found' %
                                 (qualified, ' [' + type_substr + ']' if type_substr else '', len(r)))
        return r[0]


CONTROLS = os.path.join(VERIF, 'sa', 'controls')


def control_program(names, std='gnu++17'):
    """Positive controls: tiny sources on which a zero-expected rule must fire."""
    srcs = [os.path.join(CONTROLS, n) for n in names]
    for s in srcs:
        if not os.path.exists(s):
            raise AnalysisBroken('control source missing: ' + s)
    return Program(tag='controls-' + '-'.join(n.replace('.', '_') for n in names)[:60], std=std,
                   sources=srcs, prefixes=(CONTROLS + '/',))


def _targs(f):
    p = f.get('_p')
    if p is not None and p.get('kind') == 'FunctionTemplateDecl':
        return qtype(f)
    return ''


def cleanup():
    shutil.rmtree(WORK, ignore_errors=True)
