#!/usr/bin/env python3
"""Dev harness: whole-word renames of local variables on a scratch copy; every check must stay silent."""
import os, re, shutil, subprocess, sys, tempfile, json
V = os.path.dirname(os.path.dirname(os.path.abspath(__file__)))
REN = {
 'src/time_zone_format.cc': [('data', 'inp'), ('pending', 'pend'), ('cur', 'at'), ('percent', 'pct'), ('ep', 'endp'), ('bp', 'begp'),
                             ('neg', 'minus'), ('offset', 'off_secs'), ('subseconds', 'subs'), ('saw_percent_s', 'saw_s'), ('percent_s', 'epoch_s')],
 'src/time_zone_info.cc': [('tr', 'it'), ('hint', 'hnt'), ('timecnt', 'nt'), ('tt', 'ty'), ('bp', 'rp'), ('len', 'nbytes'), ('hdr', 'hd'),
                           ('tzh', 'th'), ('time_len', 'tlen'), ('seen_type_0', 'saw0'), ('limit', 'lim'), ('jan1_time', 'j1t'),
                           ('c4_shift', 'cycles'), ('shift', 'nshift'), ('tbuf', 'raw')],
 'src/time_zone_posix.cc': [('res', 'out'), ('op', 'start_p'), ('value', 'acc'), ('weekday', 'wkd'), ('week', 'wk'), ('month', 'mon')],
 'src/time_zone_fixed.cc': [('np', 'cp2'), ('secs', 'total'), ('hours', 'hh'), ('mins', 'mi'), ('ep', 'wp'), ('abbr', 'ab'), ('offset_seconds', 'os_'),
                            ('offset_minutes', 'om_'), ('offset_hours', 'oh_')],
 'src/time_zone_impl.cc': [('impl', 'slot'), ('itr', 'pos_'), ('new_impl', 'loaded'), ('utc_impl', 'utc0'), ('cleared', 'graveyard')],
 'src/time_zone_lookup.cc': [('zone', 'zn'), ('tz_env', 'tzv'), ('localtime_env', 'ltv'), ('name', 'nm0')],
}
props = [c['property_id'] for c in json.load(open(os.path.join(V, 'MANIFEST.json')))['checks']]
for a in sys.argv[1:]:
    if a.startswith('--props='):
        props = a.split('=', 1)[1].split(',')
scratch = tempfile.mkdtemp(prefix='rename.')
try:
    root = os.path.join(scratch, 'repo')
    os.makedirs(root)
    for sub in ('include', 'src'):
        shutil.copytree(os.path.join('/repo', sub), os.path.join(root, sub))
    shutil.copy('/repo/CMakeLists.txt', root)
    for fn, pairs in REN.items():
        fp = os.path.join(root, fn)
        s = open(fp).read()
        for (a, b) in pairs:
            # identifiers that are not member accesses (.x / ->x), not followed by '(' (calls) and not inside strings
            s2 = re.sub(r'(?<![\w.>"])%s(?![\w("])' % re.escape(a), b, s)
            cc_ok = True
            open(fp, 'w').write(s2)
            cc = subprocess.run(['clang++', '-std=gnu++17', '-fsyntax-only', '-I' + root + '/include', '-I' + root + '/src', fp], capture_output=True, text=True)
            if cc.returncode != 0:
                open(fp, 'w').write(s)          # this rename does not compile (name clash): skip it
                print('skip rename %s:%s' % (fn, a))
            else:
                s = s2
    env = dict(os.environ, VERIF_REPO=root, VERIF_WORK=os.path.join(scratch, 'work'))
    from concurrent.futures import ThreadPoolExecutor

    def one(p):
        o = subprocess.run(['python3', 'sa/check.py', p, '--scratch'], cwd=V, capture_output=True, text=True, env=env)
        return p, o.returncode, [l[:260] for l in (o.stdout + o.stderr).splitlines() if ': rule ' in l or 'BROKEN' in l][:5]
    with ThreadPoolExecutor(8) as ex:
        for p, rc, lines in ex.map(one, props):
            print(p, 'rc=%d' % rc)
            for l in lines:
                print('    ' + l)
finally:
    shutil.rmtree(scratch, ignore_errors=True)
