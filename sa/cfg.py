"""Structured CFG over clang's JSON AST (the library has no goto).

Node kinds:
  entry, exit           one each
  stmt                  a leaf evaluation (expression statement, declaration,
                        return value, ...).  ast = the statement / expression
  cond                  a branch on ast (an expression, or a VarDecl for
                        condition variables); successors labelled 'T' / 'F'
  switch                branch on ast; successors labelled ('case', valueExpr) or
                        'default'
  join / loop           structural no-ops (loop = loop head)
Short-circuit operators and ?: are edges: `a && b` is cond(a) -T-> cond(b).
"""
from .frontend import kids, strip_implicit, body_of, AnalysisBroken, pos


class Node(object):
    __slots__ = ('id', 'kind', 'ast', 'succs', 'preds', 'info')

    def __init__(self, i, kind, ast=None, info=None):
        self.id = i
        self.kind = kind
        self.ast = ast
        self.succs = []   # (node, label)
        self.preds = []   # (node, label)
        self.info = info

    def __repr__(self):
        return 'N%d:%s@%s' % (self.id, self.kind, pos(self.ast) if self.ast else '-')


class CFG(object):
    def __init__(self, fn, value_control=True):
        self.fn = fn
        self.value_control = value_control
        self.nodes = []
        self.entry = self._new('entry')
        self.exit = self._new('exit')
        self.returns = []          # stmt nodes of ReturnStmt
        self.ast_nodes = {}        # id(ast) -> [Node]
        self._break = []
        self._continue = []
        self._swstack = []
        b = body_of(fn)
        if b is None:
            raise AnalysisBroken('no body: %s' % fn.get('name'))
        cur = self.entry
        # constructor initialisers are evaluated first
        for c in fn.get('inner', ()):  # noqa
            if c.get('kind') == 'CXXCtorInitializer':
                cur = self._seq(cur, self._leaf(c))
        end = self._stmt(b, cur)
        if end is not None:
            self._edge(end, self.exit, None)
        self._prune()

    # -- construction helpers
    def _new(self, kind, ast=None, info=None):
        n = Node(len(self.nodes), kind, ast, info)
        self.nodes.append(n)
        if ast is not None:
            self.ast_nodes.setdefault(id(ast), []).append(n)
        return n

    def _edge(self, a, b, label):
        a.succs.append((b, label))
        b.preds.append((a, label))

    def _seq(self, cur, n):
        if cur is not None:
            self._edge(cur, n, None)
        return n

    def _leaf(self, ast):
        return self._new('stmt', ast)

    # -- expressions in value context: returns the last node (or None if cur None)
    def _has_control(self, e):
        stack = [e]
        while stack:
            x = stack.pop()
            k = x.get('kind')
            if k == 'LambdaExpr':
                continue
            if k in ('ConditionalOperator', 'BinaryConditionalOperator'):
                return True
            if k == 'BinaryOperator' and x.get('opcode') in ('&&', '||'):
                return True
            stack.extend(kids(x))
        return False

    def _value(self, e, cur, owner=None):
        """Evaluate expression e for its value/effects.  The statement node that
        owns e (owner or e itself) is emitted after the control-flow inside it."""
        if cur is None:
            return None
        top = owner if owner is not None else e
        if e is None or not self.value_control or not self._has_control(e):
            return self._seq(cur, self._leaf(top))
        # Evaluate the controlling sub-expressions first (in source order), then
        # the owning statement.  Facts learned on the edges hold for the operands
        # evaluated under them but are merged before the owner node.
        cur = self._value_ctl(e, cur)
        return self._seq(cur, self._leaf(top))

    def _value_ctl(self, e, cur):
        k = e.get('kind')
        if k == 'LambdaExpr':
            return cur
        if k == 'BinaryOperator' and e.get('opcode') in ('&&', '||'):
            t = self._new('join')
            f = self._new('join')
            self._cond(e, cur, t, f)
            j = self._new('join')
            self._edge(t, j, None)
            self._edge(f, j, None)
            return j
        if k == 'ConditionalOperator':
            c, a, b = kids(e)
            t = self._new('join')
            f = self._new('join')
            self._cond(c, cur, t, f)
            ta = self._value_part(a, t)
            fb = self._value_part(b, f)
            j = self._new('join')
            if ta is not None:
                self._edge(ta, j, None)
            if fb is not None:
                self._edge(fb, j, None)
            return j
        for c in kids(e):
            if self._has_control(c):
                cur = self._value_ctl(c, cur)
        return cur

    def _value_part(self, e, cur):
        """A conditionally evaluated operand: gets its own stmt node."""
        if self._has_control(e):
            cur = self._value_ctl(e, cur)
        return self._seq(cur, self._leaf(e))

    # -- expressions in branch context
    def _cond(self, e, cur, t, f):
        if cur is None:
            return
        x = strip_implicit(e)
        k = x.get('kind')
        if k == 'UnaryOperator' and x.get('opcode') == '!':
            return self._cond(kids(x)[0], cur, f, t)
        if k == 'BinaryOperator' and x.get('opcode') == '&&':
            a, b = kids(x)
            mid = self._new('join')
            self._cond(a, cur, mid, f)
            return self._cond(b, mid, t, f)
        if k == 'BinaryOperator' and x.get('opcode') == '||':
            a, b = kids(x)
            mid = self._new('join')
            self._cond(a, cur, t, mid)
            return self._cond(b, mid, t, f)
        if k == 'ConditionalOperator':
            c, a, b = kids(x)
            ta = self._new('join')
            fb = self._new('join')
            self._cond(c, cur, ta, fb)
            self._cond(a, ta, t, f)
            return self._cond(b, fb, t, f)
        if k == 'CXXBoolLiteralExpr':
            n = self._seq(cur, self._new('cond', x))
            self._edge(n, t if x.get('value') else f, 'T' if x.get('value') else 'F')
            return
        if self.value_control and self._has_control(x):
            cur = self._value_ctl(x, cur)
        n = self._seq(cur, self._new('cond', x))
        self._edge(n, t, 'T')
        self._edge(n, f, 'F')

    # -- statements: returns the fall-through node or None
    def _stmt(self, s, cur):
        if cur is None and s.get('kind') not in ('CaseStmt', 'DefaultStmt', 'CompoundStmt',
                                                  'LabelStmt'):
            return None
        k = s.get('kind')
        m = getattr(self, '_s_' + k, None)
        if m is not None:
            return m(s, cur)
        if k is None:
            return cur
        if k.endswith('Stmt') and k not in ('DeclStmt', 'NullStmt'):
            raise AnalysisBroken('unsupported statement %s at %s' % (k, pos(s)))
        # expression statement
        return self._value(s, cur)

    def _s_NullStmt(self, s, cur):
        return cur

    def _s_CompoundStmt(self, s, cur):
        for c in kids(s):
            cur = self._stmt(c, cur)
        return cur

    def _s_CXXTryStmt(self, s, cur):
        return self._stmt(kids(s)[0], cur)

    def _s_AttributedStmt(self, s, cur):
        for c in kids(s):
            if not c.get('kind', '').endswith('Attr'):
                cur = self._stmt(c, cur)
        return cur

    def _s_DeclStmt(self, s, cur):
        for d in kids(s):
            if d.get('kind') != 'VarDecl':
                continue
            init = [c for c in kids(d)]
            if init and self.value_control and self._has_control(init[-1]):
                cur = self._value(init[-1], cur, owner=d)
            else:
                cur = self._seq(cur, self._leaf(d))
        return cur

    def _s_ReturnStmt(self, s, cur):
        ks = kids(s)
        if ks and self.value_control and self._has_control(ks[0]):
            cur = self._value_ctl(ks[0], cur)
        n = self._seq(cur, self._leaf(s))
        self.returns.append(n)
        self._edge(n, self.exit, None)
        return None

    def _parts(self, s, names):
        """Split a statement's children by clang's fixed layout with {} holes."""
        inner = s.get('inner', [])
        out = []
        for c in inner:
            out.append(c if isinstance(c, dict) and 'kind' in c else None)
        return out

    def _s_IfStmt(self, s, cur):
        parts = self._parts(s, None)
        i = 0
        if s.get('hasInit'):
            cur = self._stmt(parts[i], cur)
            i += 1
        condvar = None
        if s.get('hasVar'):
            condvar = parts[i]
            cur = self._stmt(condvar, cur)
            i += 1
        cond = parts[i]
        then = parts[i + 1]
        els = parts[i + 2] if len(parts) > i + 2 else None
        t = self._new('join')
        f = self._new('join')
        self._cond(cond, cur, t, f)
        a = self._stmt(then, t)
        b = self._stmt(els, f) if els is not None else f
        if a is None and b is None:
            return None
        j = self._new('join')
        if a is not None:
            self._edge(a, j, None)
        if b is not None:
            self._edge(b, j, None)
        return j

    def _loop(self, s, cur, init, condvar, cond, inc, body, do=False):
        if init is not None:
            cur = self._stmt(init, cur)
        head = self._new('loop', s)
        brk = self._new('join')
        cont = self._new('join')
        self._break.append(brk)
        self._continue.append(cont)
        bodystart = self._new('join')
        if do:
            self._seq(cur, bodystart)
            b = self._stmt(body, bodystart)
            if b is not None:
                self._edge(b, cont, None)
            self._edge(cont, head, None)
            if cond is not None:
                self._cond(cond, head, bodystart, brk)
            else:
                self._edge(head, bodystart, None)
        else:
            self._seq(cur, head)
            c = head
            if condvar is not None:
                c = self._stmt(condvar, c)
            if cond is not None:
                self._cond(cond, c, bodystart, brk)
            else:
                self._edge(c, bodystart, None)
            b = self._stmt(body, bodystart) if body is not None else bodystart
            if b is not None:
                self._edge(b, cont, None)
            c2 = cont
            if inc is not None:
                c2 = self._value(inc, cont)
            self._edge(c2, head, None)
        self._break.pop()
        self._continue.pop()
        return brk if brk.preds else None

    def _s_ForStmt(self, s, cur):
        p = self._parts(s, None)
        init, condvar, cond, inc, body = p[0], p[1], p[2], p[3], p[4]
        return self._loop(s, cur, init, condvar, cond, inc, body)

    def _s_WhileStmt(self, s, cur):
        p = self._parts(s, None)
        if s.get('hasVar'):
            condvar, cond, body = p[0], p[1], p[2]
        else:
            condvar, cond, body = None, p[0], p[1]
        return self._loop(s, cur, None, condvar, cond, None, body)

    def _s_DoStmt(self, s, cur):
        p = self._parts(s, None)
        return self._loop(s, cur, None, None, p[1], None, p[0], do=True)

    def _s_CXXForRangeStmt(self, s, cur):
        p = self._parts(s, None)
        # [init, range, begin, end, cond, inc, loopvar, body]
        for c in p[:4]:
            if c is not None:
                cur = self._stmt(c, cur)
        head = self._new('loop', s)
        self._seq(cur, head)
        brk = self._new('join')
        cont = self._new('join')
        self._break.append(brk)
        self._continue.append(cont)
        n = self._seq(head, self._new('cond', p[4], info='range-for'))
        bodystart = self._new('join')
        self._edge(n, bodystart, 'T')
        self._edge(n, brk, 'F')
        c = self._stmt(p[6], bodystart)
        b = self._stmt(p[7], c)
        if b is not None:
            self._edge(b, cont, None)
        self._edge(cont, head, None)
        self._break.pop()
        self._continue.pop()
        return brk

    def _s_BreakStmt(self, s, cur):
        n = self._seq(cur, self._leaf(s))
        self._edge(n, self._break[-1], None)
        return None

    def _s_ContinueStmt(self, s, cur):
        n = self._seq(cur, self._leaf(s))
        self._edge(n, self._continue[-1], None)
        return None

    def _s_SwitchStmt(self, s, cur):
        p = self._parts(s, None)
        i = 0
        if s.get('hasInit'):
            cur = self._stmt(p[i], cur)
            i += 1
        if s.get('hasVar'):
            cur = self._stmt(p[i], cur)
            i += 1
        cond, body = p[i], p[i + 1]
        if self.value_control and self._has_control(cond):
            cur = self._value_ctl(cond, cur)
        sw = self._seq(cur, self._new('switch', cond, info={'default': False, 'stmt': s}))
        brk = self._new('join')
        self._break.append(brk)
        self._swstack.append(sw)
        end = self._stmt(body, None)
        self._swstack.pop()
        self._break.pop()
        if end is not None:
            self._edge(end, brk, None)
        if not sw.info['default']:
            self._edge(sw, brk, 'nomatch')
        return brk if brk.preds else None

    def _s_CaseStmt(self, s, cur):
        sw = self._swstack[-1]
        ks = kids(s)
        lab = self._new('join', s)
        self._edge(sw, lab, ('case', ks[0]))
        if cur is not None:
            self._edge(cur, lab, None)
        return self._stmt(ks[-1], lab) if len(ks) > 1 else lab

    def _s_DefaultStmt(self, s, cur):
        sw = self._swstack[-1]
        sw.info['default'] = True
        lab = self._new('join', s)
        self._edge(sw, lab, 'default')
        if cur is not None:
            self._edge(cur, lab, None)
        ks = kids(s)
        return self._stmt(ks[-1], lab) if ks else lab

    # -- cleanup: drop unreachable nodes
    def _prune(self):
        seen = set()
        stack = [self.entry]
        while stack:
            n = stack.pop()
            if n.id in seen:
                continue
            seen.add(n.id)
            for (m, _) in n.succs:
                stack.append(m)
        self.reachable = seen
        for n in self.nodes:
            n.preds = [(p, l) for (p, l) in n.preds if p.id in seen]
        self.live = [n for n in self.nodes if n.id in seen]

    # -- analyses
    def rpo(self):
        order, seen = [], set()

        def dfs(n):
            stack = [(n, iter(n.succs))]
            seen.add(n.id)
            while stack:
                node, it = stack[-1]
                adv = False
                for (m, _) in it:
                    if m.id not in seen:
                        seen.add(m.id)
                        stack.append((m, iter(m.succs)))
                        adv = True
                        break
                if not adv:
                    order.append(node)
                    stack.pop()
        dfs(self.entry)
        order.reverse()
        return order

    def dominators(self):
        """dom[n.id] = set of node ids dominating n (including n)."""
        order = self.rpo()
        allids = set(n.id for n in order)
        dom = {n.id: set(allids) for n in order}
        dom[self.entry.id] = {self.entry.id}
        changed = True
        while changed:
            changed = False
            for n in order:
                if n is self.entry:
                    continue
                ps = [dom[p.id] for (p, _) in n.preds if p.id in dom]
                new = set.intersection(*ps) if ps else set()
                new = new | {n.id}
                if new != dom[n.id]:
                    dom[n.id] = new
                    changed = True
        return dom

    def postdominators(self):
        """pdom[n.id] = set of node ids post-dominating n (w.r.t. exit)."""
        live = [n for n in self.live]
        # nodes that can reach exit
        can = set()
        stack = [self.exit]
        while stack:
            n = stack.pop()
            if n.id in can:
                continue
            can.add(n.id)
            for (p, _) in n.preds:
                stack.append(p)
        allids = set(can)
        pdom = {i: set(allids) for i in can}
        pdom[self.exit.id] = {self.exit.id}
        changed = True
        while changed:
            changed = False
            for n in reversed(self.rpo()):
                if n is self.exit or n.id not in can:
                    continue
                ss = [pdom[m.id] for (m, _) in n.succs if m.id in can]
                new = set.intersection(*ss) if ss else set()
                new = new | {n.id}
                if new != pdom[n.id]:
                    pdom[n.id] = new
                    changed = True
        return pdom

    def simple_paths(self, targets, cap=20000):
        """Node lists of every simple path entry -> a node in targets."""
        tg = set(n.id for n in targets)
        out = []

        def step(n, path, onpath):
            if len(out) > cap:
                return
            if n.id in tg:
                out.append(path + [n])
                return
            for (m, lab) in n.succs:
                if m.id not in onpath:
                    step(m, path + [n], onpath | {m.id})
        import sys
        old = sys.getrecursionlimit()
        sys.setrecursionlimit(max(old, 10000))
        try:
            step(self.entry, [], {self.entry.id})
        finally:
            sys.setrecursionlimit(old)
        if len(out) > cap:
            raise AnalysisBroken('path enumeration exceeded %d paths' % cap)
        return out

    def reachable_avoiding(self, targets, cut_nodes=(), cut_edges=()):
        """Is any node of `targets` reachable from entry without passing through a
        node of cut_nodes or an edge (node id, label) of cut_edges?  Paths that contradict
        the constant last assigned to a flag local (see flag_vars) are not followed."""
        return self.reach([self.entry], targets, cut_nodes, cut_edges)

    # -- flag locals: a local of integral type that is only ever given constants (`bool found = false; ... found = true;`)
    #    and whose address is never taken.  A search that carries the constant last assigned to each of them does not
    #    follow a branch on such a local against its value (single-exit code: `if (cached) return result;`).
    def flag_vars(self):
        if hasattr(self, '_flagvars'):
            return self._flagvars
        from .frontend import walk, dtype, qtype
        from .expr import Folder, peel, int_type
        fn = self.fn
        u = fn.get('_u')
        cand = {}
        bad = set()
        fo = Folder(u) if u is not None else None
        if fo is not None:
            for x in walk(fn):
                k = x.get('kind')
                if k == 'VarDecl' and x.get('storageClass') != 'static' and int_type((dtype(x) or qtype(x) or '').replace('const ', '')) \
                        and '&' not in (qtype(x) or '') and '*' not in (qtype(x) or ''):
                    ini = [c for c in kids(x) if not c.get('kind', '').endswith('Attr')]
                    if 'init' in x and ini:
                        v = fo.fold(ini[-1])
                        if v is None:
                            bad.add(x['id'])
                    cand[x['id']] = x
            for x in walk(fn):
                k = x.get('kind')
                if k in ('BinaryOperator', 'CompoundAssignOperator') and (x.get('opcode') == '=' or k == 'CompoundAssignOperator'):
                    l = peel(kids(x)[0])
                    i = (l.get('referencedDecl') or {}).get('id') if l is not None and l.get('kind') == 'DeclRefExpr' else None
                    if i in cand and (k == 'CompoundAssignOperator' or fo.fold(kids(x)[1]) is None):
                        bad.add(i)
                elif k == 'UnaryOperator' and x.get('opcode') in ('++', '--', '&'):
                    l = peel(kids(x)[0])
                    i = (l.get('referencedDecl') or {}).get('id') if l is not None and l.get('kind') == 'DeclRefExpr' else None
                    if i in cand:
                        bad.add(i)
                elif k == 'DeclRefExpr' and (x.get('referencedDecl') or {}).get('id') in cand:
                    # bound to a reference / captured: any use that is not a plain read or the target of an assignment
                    p = x.get('_p')
                    if p is not None and p.get('kind') in ('LambdaExpr',):
                        bad.add(x['referencedDecl']['id'])
                    if p is not None and p.get('kind') in ('CallExpr', 'CXXMemberCallExpr', 'CXXConstructExpr', 'CXXOperatorCallExpr', 'VarDecl',
                                                           'ReturnStmt', 'InitListExpr'):
                        bad.add(x['referencedDecl']['id'])      # (an lvalue handed on: may be bound to a reference)
                elif k == 'LambdaExpr':
                    for y in walk(x):
                        if y.get('kind') == 'DeclRefExpr' and (y.get('referencedDecl') or {}).get('id') in cand:
                            bad.add(y['referencedDecl']['id'])
        self._flagvars = set(cand) - bad
        self._flagfold = fo
        return self._flagvars

    def _flag_transfer(self, n, st):
        """State after node n (st: tuple of (var id, value) pairs, sorted)."""
        fv = self.flag_vars()
        if not fv or n.ast is None or n.kind not in ('stmt', 'cond'):
            return st
        from .frontend import walk
        from .expr import peel
        d = dict(st)
        ch = False
        for x in walk(n.ast):
            k = x.get('kind')
            if k == 'VarDecl' and x.get('id') in fv:
                ini = [c for c in kids(x) if not c.get('kind', '').endswith('Attr')]
                if 'init' in x and ini:
                    d[x['id']] = self._flagfold.fold(ini[-1])
                    ch = True
                elif x['id'] in d:
                    del d[x['id']]
                    ch = True
            elif k == 'BinaryOperator' and x.get('opcode') == '=':
                l = peel(kids(x)[0])
                i = (l.get('referencedDecl') or {}).get('id') if l is not None and l.get('kind') == 'DeclRefExpr' else None
                if i in fv:
                    d[i] = self._flagfold.fold(kids(x)[1])
                    ch = True
        return tuple(sorted(d.items())) if ch else st

    def _flag_truth(self, e, st):
        """Truth of condition e under the flag values st: True / False / None (unknown)."""
        from .expr import peel
        x = peel(e)
        if x is None:
            return None
        d = dict(st)
        k = x.get('kind')
        if k == 'DeclRefExpr':
            i = (x.get('referencedDecl') or {}).get('id')
            return (d[i] != 0) if i in d and d[i] is not None else None
        if k == 'UnaryOperator' and x.get('opcode') == '!':
            t = self._flag_truth(kids(x)[0], st)
            return None if t is None else (not t)
        if k == 'BinaryOperator' and x.get('opcode') in ('==', '!='):
            a, b = peel(kids(x)[0]), peel(kids(x)[1])
            for (v_, c_) in ((a, kids(x)[1]), (b, kids(x)[0])):
                if v_ is not None and v_.get('kind') == 'DeclRefExpr':
                    i = (v_.get('referencedDecl') or {}).get('id')
                    cv = self._flagfold.fold(c_) if getattr(self, '_flagfold', None) is not None else None
                    if i in d and d[i] is not None and cv is not None:
                        return (d[i] == cv) == (x.get('opcode') == '==')
        return None

    def explore(self, extra=None, cap=200000):
        """{node id: set of (flag state, extra state)} over all paths from entry consistent with the flag locals.
        extra(node, x) -> x' threads caller-defined information (hashable) along the paths.  None when the cap is hit."""
        fv = self.flag_vars()
        at = {}
        stack = [(self.entry, (), None)]
        steps = 0
        while stack:
            n, st, ex = stack.pop()
            key = (st, ex)
            if key in at.setdefault(n.id, set()):
                continue
            at[n.id].add(key)
            steps += 1
            if steps > cap:
                return None
            truth = None
            if fv and n.kind == 'cond' and n.ast is not None and st:
                truth = self._flag_truth(n.ast, st)
            st2 = self._flag_transfer(n, st) if fv else st
            ex2 = extra(n, ex) if extra is not None else ex
            for (m, l) in n.succs:
                if truth is not None and l in ('T', 'F') and (l == 'T') != truth:
                    continue
                stack.append((m, st2, ex2))
        return at

    def reach(self, starts, targets, cut_nodes=(), cut_edges=(), state=()):
        """Is a node of `targets` reachable from `starts` (nodes, entered with the flag state `state`) without passing a
        node of cut_nodes or an edge of cut_edges, along paths consistent with the flag locals?"""
        cut_nodes = set(n.id for n in cut_nodes)
        cut_edges = set(cut_edges)
        tg = set(n.id for n in targets)
        fv = self.flag_vars()
        seen = set()
        stack = [(n, tuple(state)) for n in starts]
        while stack:
            n, st = stack.pop()
            if (n.id, st) in seen or n.id in cut_nodes:
                continue
            seen.add((n.id, st))
            if n.id in tg:
                return True
            truth = None
            if fv and n.kind == 'cond' and n.ast is not None and st:
                truth = self._flag_truth(n.ast, st)
            st2 = self._flag_transfer(n, st) if fv else st
            for (m, l) in n.succs:
                lk = l if not isinstance(l, tuple) else 'case'
                if (n.id, lk) in cut_edges:
                    continue
                if truth is not None and l in ('T', 'F') and (l == 'T') != truth:
                    continue
                stack.append((m, st2))
        return False

    def nodes_for(self, ast):
        """CFG nodes whose ast is `ast` or contains it (innermost owner)."""
        r = self.ast_nodes.get(id(ast))
        if r:
            return [n for n in r if n.id in self.reachable]
        p = ast.get('_p')
        while p is not None:
            r = self.ast_nodes.get(id(p))
            if r:
                r = [n for n in r if n.id in self.reachable and n.kind in ('stmt', 'cond', 'switch')]
                if r:
                    return r
            p = p.get('_p')
        return []

    def forward(self, init, transfer, meet, edge_transfer=None):
        """Generic forward dataflow.  state[n.id] = state at node entry.
        transfer(node, state) -> state after the node;
        edge_transfer(node, label, state) -> state along that edge (or None=infeasible)."""
        order = self.rpo()
        state_in = {self.entry.id: init}
        out = {}
        work = list(order)
        inwork = set(n.id for n in work)
        idx = {n.id: i for i, n in enumerate(order)}
        import heapq
        heap = [(idx[n.id], n.id) for n in work]
        heapq.heapify(heap)
        byid = {n.id: n for n in order}
        while heap:
            _, nid = heapq.heappop(heap)
            if nid not in inwork:
                continue
            inwork.discard(nid)
            n = byid[nid]
            if n is not self.entry:
                ins = []
                for (p, l) in n.preds:
                    if p.id in out:
                        s = out[p.id]
                        if edge_transfer is not None:
                            s = edge_transfer(p, l, s)
                        if s is not None:
                            ins.append(s)
                if not ins:
                    continue
                st = meet(ins)
                state_in[nid] = st
            else:
                st = init
            o = transfer(n, st)
            if nid not in out or out[nid] != o:
                out[nid] = o
                for (m, _) in n.succs:
                    if m.id not in inwork and m.id in idx:
                        inwork.add(m.id)
                        heapq.heappush(heap, (idx[m.id], m.id))
        return state_in, out
