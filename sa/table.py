"""TABLE engine: constant arrays / named constants by resolved declaration, folded."""
import re
from .frontend import kids, walk, qn, qtype, dtype, pos, AnalysisBroken
from .expr import Folder, peel


def _flatten(init, folder):
    """Nested InitListExpr -> nested python lists of ints (None when not constant)."""
    x = peel(init)
    if x is None:
        return None
    if x.get('kind') == 'InitListExpr':
        out = [_flatten(c, folder) for c in kids(x)]
        # trailing zero-fill is explicit in clang's semantic form (array_filler) - handled by caller
        return out
    if x.get('kind') == 'StringLiteral':
        v = x.get('value', '""')
        try:
            s = bytes(v[1:-1], 'utf-8').decode('unicode_escape')
        except Exception:
            s = v[1:-1]
        return [ord(c) for c in s] + [0]
    return folder.fold(x)


def enum_names(init):
    """Parallel structure with enumerator names (for enum-typed tables)."""
    x = peel(init)
    if x is None:
        return None
    if x.get('kind') == 'InitListExpr':
        return [enum_names(c) for c in kids(x)]
    if x.get('kind') == 'DeclRefExpr':
        return (x.get('referencedDecl') or {}).get('name')
    return None


def array_extent(d):
    m = re.findall(r'\[(\d+)\]', dtype(d) or qtype(d))
    return [int(v) for v in m]


def const_arrays_in(unit, fn):
    out = []
    for x in walk(fn):
        if x.get('kind') == 'VarDecl' and re.search(r'\[\d+\]', dtype(x) or qtype(x)) and 'init' in x:
            out.append(x)
    return out


def table_of(unit, d):
    ini = [c for c in kids(d) if not c.get('kind', '').endswith('Attr')]
    if not ini or 'init' not in d:
        raise AnalysisBroken('table %s has no initialiser' % qn(d))
    f = Folder(unit)
    vals = _flatten(ini[-1], f)
    ext = array_extent(d)
    if isinstance(vals, list) and ext and len(vals) < ext[0] and all(isinstance(v, int) for v in vals):
        vals = vals + [0] * (ext[0] - len(vals))
    return vals, enum_names(ini[-1]), ext


def find_var(program, qualified):
    r = []
    for u in program.units:
        for d in u.walk():
            if d.get('kind') == 'VarDecl' and qn(d) == qualified and program.inside(d) and 'init' in d:
                r.append((u, d))
    # de-duplicate by position
    seen, out = set(), []
    for (u, d) in r:
        if d.get('_pos') not in seen:
            seen.add(d.get('_pos'))
            out.append((u, d))
    return out


def one_var(program, qualified):
    r = find_var(program, qualified)
    if len(r) != 1:
        raise AnalysisBroken('anchor constant %s: %d definitions' % (qualified, len(r)))
    return r[0]


def enum_decl(program, qualified):
    for u in program.units:
        for d in u.walk():
            if d.get('kind') == 'EnumDecl' and qn(d) == qualified:
                names = [c.get('name') for c in kids(d) if c.get('kind') == 'EnumConstantDecl']
                f = Folder(u)
                vals = [f.enum_value(c.get('id')) for c in kids(d) if c.get('kind') == 'EnumConstantDecl']
                return u, d, names, vals
    raise AnalysisBroken('enum %s not found' % qualified)
