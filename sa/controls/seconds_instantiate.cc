// Witness unit for the rules about sub-second time points (C18).
// split_seconds / join_seconds are function templates of include/cctz/time_zone.h; the library
// units instantiate them only for the durations they happen to use.  This unit is only
// type-checked (-fsyntax-only) and makes clang instantiate them for a spread of duration
// types: finer than a second, whole seconds of a narrower representation, coarser than a second.
#include <chrono>
#include <cstdint>
#include <ratio>
#include <string>

#include "cctz/time_zone.h"

namespace verif_witness {

template <typename D>
bool use(const cctz::time_point<D>& tp, const cctz::time_point<cctz::seconds>& sec,
         const cctz::detail::femtoseconds& fs) {
  auto p = cctz::detail::split_seconds(tp);
  cctz::time_point<D> out;
  bool ok = cctz::detail::join_seconds(sec, fs, &out);
  return ok && p.first == sec;
}

bool witness(const cctz::time_point<cctz::seconds>& sec, const cctz::detail::femtoseconds& fs) {
  bool r = true;
  r &= use(cctz::time_point<std::chrono::nanoseconds>(), sec, fs);
  r &= use(cctz::time_point<std::chrono::microseconds>(), sec, fs);
  r &= use(cctz::time_point<std::chrono::milliseconds>(), sec, fs);
  r &= use(cctz::time_point<std::chrono::duration<std::int64_t, std::ratio<1, 3>>>(), sec, fs);
  r &= use(cctz::time_point<std::chrono::duration<std::int32_t>>(), sec, fs);
  r &= use(cctz::time_point<std::chrono::duration<std::int16_t>>(), sec, fs);
  r &= use(cctz::time_point<std::chrono::minutes>(), sec, fs);
  r &= use(cctz::time_point<std::chrono::hours>(), sec, fs);
  r &= use(cctz::time_point<std::chrono::duration<std::int32_t, std::ratio<86400>>>(), sec, fs);
  r &= use(cctz::time_point<cctz::seconds>(), sec, fs);
  return r;
}

// the templated entry points, for one duration finer and one coarser than a second
template <typename D>
bool entry(const cctz::time_point<D>& tp, const cctz::time_zone& tz, const std::string& fmt) {
  cctz::time_zone::absolute_lookup al = tz.lookup(tp);
  cctz::civil_second cs = cctz::convert(tp, tz);
  std::string s = cctz::format(fmt, tp, tz);
  cctz::time_point<D> out;
  bool ok = cctz::parse(fmt, s, tz, &out);
  cctz::time_zone::civil_transition trans;
  ok &= tz.next_transition(tp, &trans);
  ok &= tz.prev_transition(tp, &trans);
  return ok && al.cs == cs;
}

bool entries(const cctz::time_zone& tz, const std::string& fmt) {
  return entry(cctz::time_point<std::chrono::milliseconds>(), tz, fmt) &&
         entry(cctz::time_point<std::chrono::minutes>(), tz, fmt) &&
         entry(cctz::time_point<std::chrono::duration<std::int32_t>>(), tz, fmt);
}

}  // namespace verif_witness
