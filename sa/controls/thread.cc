// Positive control for rule C20-thread / C13-libc: this unit is only parsed
// (never compiled into anything, never run).  The rules MUST fire here.
#include <ctime>
#include <future>
#include <thread>

namespace cctz {
namespace control {

int g_counter = 0;

void spawn_thread() {
  std::thread t([] { ++g_counter; });
  t.join();
}

int spawn_async() {
  auto f = std::async(std::launch::async, [] { return 1; });
  return f.get();
}

int non_reentrant_libc(const std::time_t* t) {
  std::tm* tm = std::localtime(t);
  return tm->tm_hour;
}

}  // namespace control
}  // namespace cctz
