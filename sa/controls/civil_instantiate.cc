// Witness unit for rules about the civil_time<T> class template (C04, C17).
// It is only type-checked (-fsyntax-only): clang instantiates class-template
// members lazily, so the library units contain bodies only for the members they
// happen to use.  Explicit instantiation plus one never-called function that
// names every friend operator makes clang resolve align(T{}, .), step(T{}, .),
// difference(T{}, .) to concrete overloads for each of the six tags.
#include "cctz/civil_time.h"

namespace cctz {
namespace detail {
template class civil_time<second_tag>;
template class civil_time<minute_tag>;
template class civil_time<hour_tag>;
template class civil_time<day_tag>;
template class civil_time<month_tag>;
template class civil_time<year_tag>;
}  // namespace detail

namespace verif_witness {

template <typename CT>
long long use(CT a, long long n) {
  CT b = a + n;
  CT c = n + a;
  CT d = a - n;
  long long e = a - b;
  return e + (c < d) + (c == d) + (c <= d) + (c >= d) + (c > d) + (c != d);
}

long long witness(long long n) {
  long long r = 0;
  r += use(civil_second(n), n);
  r += use(civil_minute(n), n);
  r += use(civil_hour(n), n);
  r += use(civil_day(n), n);
  r += use(civil_month(n), n);
  r += use(civil_year(n), n);
  // every cross-alignment conversion, both directions
  civil_second s(n);
  civil_minute mi(s);
  civil_hour h(mi);
  civil_day d(h);
  civil_month mo(d);
  civil_year y(mo);
  civil_second s2 = y;
  civil_minute mi2 = y;
  civil_hour h2 = y;
  civil_day d2 = y;
  civil_month mo2 = y;
  (void)s2; (void)mi2; (void)h2; (void)d2; (void)mo2;
  return r;
}

}  // namespace verif_witness
}  // namespace cctz
