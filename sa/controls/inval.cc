// Positive control for rule C12-inval: parsed only, never run.  The rule MUST fire here.
#include <vector>

namespace cctz {
namespace control {

struct Item { long t; unsigned char k; };

long use_after_reserve(std::vector<Item>& v) {
  const Item& last(v.back());
  v.reserve(v.size() + 802);   // may reallocate
  return last.t;               // dangling
}

long fine(std::vector<Item>& v) {
  v.reserve(v.size() + 802);
  const Item& last(v.back());
  return last.t;
}

}  // namespace control
}  // namespace cctz
