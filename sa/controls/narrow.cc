// Positive control for rule C12-narrow: parsed only, never run.  The rule MUST fire here.
#include <cstddef>
#include <cstdint>
#include <vector>

namespace cctz {
namespace control {

std::size_t first_non_dst(const std::vector<bool>& is_dst, std::size_t typecnt) {
  std::uint_fast8_t index = 0;  // 8 bits on this ABI
  while (index != typecnt && is_dst[index]) ++index;
  return index;
}

}  // namespace control
}  // namespace cctz
