"""STATE engine: inventory of everything that outlives a call.

entries(ctx) lists every static-storage variable and every `mutable` data member
declared in /repo with its class (by type and initialiser, not by name) and all
references to it, each with the static mutexes held at the reference."""
import re
from .frontend import kids, walk, qn, qtype, dtype, pos, in_repo
from .effects import static_vars, classify_static, var_refs, is_static_storage, _is_const_object
from .lock import LockRegions, static_mutex_keys, entry_held
from .callgraph import fname


def _pointee(t):
    t = t.strip()
    if t.endswith('*const') or t.endswith('* const'):
        t = re.sub(r'\*\s*const$', '', t).strip()
        return t
    if t.endswith('*'):
        return t[:-1].strip()
    return None


def is_fnptr(unit, t):
    t = unit.expand_type(t)
    return bool(re.search(r'\(\*\)\s*\(', t)) or bool(re.search(r'\(\*\w*\)\(', t))


def entries(ctx):
    P, G = ctx.P, ctx.G
    svars = static_vars(P)                         # (qn,pos) -> decl
    smv, smf = static_mutex_keys(P)

    def is_smk(mk):
        if mk in smf:
            return True
        m = re.match(r'^(\w+)#(0x[0-9a-f]+)$', mk)
        return bool(m and m.group(2) in smv)
    eh = entry_held(G, is_smk)
    ent = {}
    for key, d in svars.items():
        ent[key] = dict(decl=d, qn=key[0], pos=pos(d), refs=[], type=qtype(d),
                        local=(d.get('_p') or {}).get('kind') == 'DeclStmt')
    for fk, (u, f) in G.defs.items():
        lr = None
        for (i, name, node, w) in var_refs(f):
            d = u.by_id.get(i)
            if d is None or not is_static_storage(d) or not P.inside(d):
                continue
            key = (qn(d), d.get('_pos'))
            if key not in ent:
                continue
            if lr is None:
                lr = LockRegions(u, f)
            held = sorted(set(mk for (mk, g) in lr.held_at(node) if is_smk(mk)) | eh.get(fk, frozenset()))
            if not w:
                # an array (or object) of static storage that decays / has its address taken as a pointer to non-const can
                # be written through that pointer: the reference counts as a write of the object
                par = node.get('_p') or {}
                if par.get('kind') == 'ImplicitCastExpr' and par.get('castKind') == 'ArrayToPointerDecay' and \
                        not re.match(r'^const\b', (qtype(par) or '').strip()):
                    w = 'direct'
                elif par.get('kind') == 'UnaryOperator' and par.get('opcode') == '&' and \
                        not re.match(r'^const\b', (qtype(par) or '').strip()) and not re.search(r'\b(mutex|atomic<|once_flag)', qtype(par) or ''):
                    w = 'direct'
            ent[key]['refs'].append(dict(fn=fk, node=node, write=w, held=held))
    out = []
    for key, e in ent.items():
        d = e['decl']
        u = d['_u']
        t = u.expand_type(dtype(d) or qtype(d))
        cls = classify_static(d)
        direct_w = [r for r in e['refs'] if r['write'] == 'direct']
        any_w = [r for r in e['refs'] if r['write']]
        pt = _pointee(u.expand_type(qtype(d)))
        why = ''
        if d.get('tls'):
            kind = 'thread-local'       # no sharing between threads; still carries history within one
        elif cls == 'immutable' and pt is None:
            kind = 'immutable'
        elif cls in ('atomic', 'mutex'):
            kind = cls
        else:
            pointee_safe = pt is None or _is_const_object(pt) or bool(
                re.search(r'\b(mutex|atomic<)', pt)) or is_fnptr(u, qtype(d))
            if not direct_w and pointee_safe and (e['local'] or cls == 'immutable'):
                kind = 'init-once'          # C++11 magic static / const pointer, pointee never mutated
            elif not any_w and is_fnptr(u, qtype(d)):
                kind = 'link-constant'      # never written by the library
            else:
                unguarded = [r for r in e['refs'] if not r['held']]
                common = None
                for r in e['refs']:
                    common = set(r['held']) if common is None else common & set(r['held'])
                if e['refs'] and not unguarded and common:
                    kind = 'lock-guarded'
                    why = sorted(common)[0]
                else:
                    kind = 'unclassified'
                    why = 'references outside any static mutex: ' + ', '.join(
                        '%s at %s' % (fname(r['fn']), pos(r['node'])) for r in unguarded[:4]) \
                        if unguarded else 'no common mutex'
        e.update(kind=kind, why=why, cls=cls, pointee=pt)
        out.append(e)
    # mutable members
    seen = set()
    for u in P.units:
        for d in u.walk():
            if d.get('kind') == 'FieldDecl' and d.get('mutable') and P.inside(d):
                k = (qn(d), d.get('_pos'))
                if k in seen:
                    continue
                seen.add(k)
                t = dtype(d) or qtype(d)
                out.append(dict(decl=d, qn=qn(d), pos=pos(d), refs=[], type=qtype(d), local=False,
                                kind='atomic-member' if re.search(r'\batomic<', t) else 'mutable-member',
                                why='', cls='member', pointee=None))
    out.sort(key=lambda e: (e['pos'], e['qn']))
    return out
