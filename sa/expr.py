"""Expression utilities over the JSON AST: canonical keys, constant folding,
callee resolution, writes/kills.  All identity is by resolved declaration id
(within a unit) or qualified name + type (across units), never by text."""
import re
from .frontend import kids, strip_implicit, qn, qtype, dtype, FUNC_KINDS, walk

CAST_KINDS = ('ImplicitCastExpr', 'ParenExpr', 'ExprWithCleanups', 'MaterializeTemporaryExpr',
              'CXXBindTemporaryExpr', 'ConstantExpr', 'FullExpr')
EXPL_CASTS = ('CXXStaticCastExpr', 'CStyleCastExpr', 'CXXFunctionalCastExpr',
              'CXXConstCastExpr', 'CXXReinterpretCastExpr')


def peel(e, explicit=True):
    """Strip implicit wrappers and (optionally) explicit value-preserving casts."""
    while e is not None:
        k = e.get('kind')
        if k == 'SubstNonTypeTemplateParmExpr':
            ks = kids(e)
            if not ks:
                return e
            e = ks[-1]              # the argument substituted for the template parameter
            continue
        if k in CAST_KINDS:
            ks = kids(e)
            if not ks:
                return e
            e = ks[0]
            continue
        if explicit and k in EXPL_CASTS and e.get('castKind') in (
                'NoOp', 'IntegralCast', 'LValueToRValue', 'IntegralToBoolean', None):
            ks = kids(e)
            if not ks:
                return e
            e = ks[-1]
            continue
        return e
    return e


# ----------------------------------------------------------------------------
# integer types (LP64)

_INT_TYPES = {
    'bool': (1, False), 'char': (8, True), 'signed char': (8, True), 'unsigned char': (8, False),
    'short': (16, True), 'unsigned short': (16, False), 'int': (32, True), 'unsigned int': (32, False),
    'long': (64, True), 'unsigned long': (64, False), 'long long': (64, True),
    'unsigned long long': (64, False), '__int128': (128, True), 'unsigned __int128': (128, False),
}


def int_type(t):
    """(bits, signed) of a desugared integer type string, or None."""
    if not t:
        return None
    t = t.replace('const ', '').replace('volatile ', '').replace(' const', '').strip()
    t = t.rstrip('&').strip()
    return _INT_TYPES.get(t)


def expr_int_type(e):
    return int_type(dtype(e))


def type_range(t):
    it = int_type(t) if isinstance(t, str) else t
    if it is None:
        return None
    bits, signed = it
    if bits == 1:
        return (0, 1)
    if signed:
        return (-(1 << (bits - 1)), (1 << (bits - 1)) - 1)
    return (0, (1 << bits) - 1)


# ----------------------------------------------------------------------------
# constant folding


def cdiv(a, b):
    q = abs(a) // abs(b)
    return q if (a < 0) == (b < 0) else -q


def cmod(a, b):
    return a - cdiv(a, b) * b


def wrap(v, it):
    if it is None:
        return v
    bits, signed = it
    if bits == 1:
        return 1 if v else 0
    v &= (1 << bits) - 1
    if signed and v >= (1 << (bits - 1)):
        v -= 1 << bits
    return v


def top_level_const(t):
    """Is a variable of this (written) type itself const?  `const T* p` is a mutable pointer to const."""
    t = (t or '').strip()
    if '*' in t and not t.endswith('&'):
        return bool(re.search(r'\*\s*const$', t))
    return t.startswith('const ') or t.endswith(' const') or bool(re.search(r'\bconst\s*&$', t)) or ' const ' in t and '*' not in t


class Folder(object):
    """Folds integer constant expressions; resolves const variables with constant
    initialisers through the unit's declaration index."""

    def __init__(self, unit):
        self.unit = unit
        self._memo = {}

    def var_init(self, d):
        ks = [c for c in kids(d) if not c.get('kind', '').endswith('Attr')]
        return ks[-1] if ks and 'init' in d else None

    def fold(self, e, depth=0):
        if e is None or depth > 40:
            return None
        k = e.get('kind')
        if k in CAST_KINDS:
            ks = kids(e)
            if not ks:
                return None
            v = self.fold(ks[0], depth + 1)
            if v is not None and k == 'ImplicitCastExpr' and e.get('castKind') in (
                    'IntegralCast', 'IntegralToBoolean'):
                return wrap(v, expr_int_type(e)) if e.get('castKind') == 'IntegralCast' else int(v != 0)
            return v
        if k in EXPL_CASTS:
            ks = kids(e)
            v = self.fold(ks[-1], depth + 1) if ks else None
            if v is not None and expr_int_type(e):
                return wrap(v, expr_int_type(e))
            return v
        if k == 'IntegerLiteral':
            return int(e['value'])
        if k == 'CharacterLiteral':
            return int(e['value'])
        if k == 'CXXBoolLiteralExpr':
            return 1 if e.get('value') else 0
        if k == 'CXXNullPtrLiteralExpr' or k == 'GNUNullExpr':
            return 0
        if k == 'UnaryExprOrTypeTraitExpr' and e.get('name') == 'sizeof':
            return self.sizeof(e)
        if k == 'UnaryOperator':
            v = self.fold(kids(e)[0], depth + 1)
            if v is None:
                return None
            op = e.get('opcode')
            if op == '-':
                return wrap(-v, expr_int_type(e))
            if op == '+':
                return v
            if op == '~':
                return wrap(~v, expr_int_type(e))
            if op == '!':
                return int(not v)
            return None
        if k == 'BinaryOperator':
            op = e.get('opcode')
            if op in ('=', ',') or op.endswith('=') and op not in ('==', '!=', '<=', '>='):
                return None
            a = self.fold(kids(e)[0], depth + 1)
            b = self.fold(kids(e)[1], depth + 1)
            if a is None or b is None:
                return None
            try:
                r = {
                    '+': lambda: a + b, '-': lambda: a - b, '*': lambda: a * b,
                    '/': lambda: cdiv(a, b), '%': lambda: cmod(a, b),
                    '<<': lambda: a << b, '>>': lambda: a >> b,
                    '&': lambda: a & b, '|': lambda: a | b, '^': lambda: a ^ b,
                    '<': lambda: int(a < b), '>': lambda: int(a > b),
                    '<=': lambda: int(a <= b), '>=': lambda: int(a >= b),
                    '==': lambda: int(a == b), '!=': lambda: int(a != b),
                    '&&': lambda: int(bool(a) and bool(b)), '||': lambda: int(bool(a) or bool(b)),
                }[op]()
            except (KeyError, ZeroDivisionError, ValueError):
                return None
            it = expr_int_type(e)
            return wrap(r, it) if it and op in ('+', '-', '*', '<<') else r
        if k == 'ConditionalOperator':
            c = self.fold(kids(e)[0], depth + 1)
            if c is None:
                return None
            return self.fold(kids(e)[1 if c else 2], depth + 1)
        if k == 'DeclRefExpr':
            rd = e.get('referencedDecl', {})
            if rd.get('kind') == 'EnumConstantDecl':
                return self.enum_value(rd.get('id'))
            if rd.get('kind') == 'VarDecl':
                d = self.unit.by_id.get(rd.get('id'))
                if d is None:
                    return None
                t = qtype(d)
                if not (top_level_const(t) or d.get('constexpr')):
                    return None
                key = ('v', d['id'])
                if key in self._memo:
                    return self._memo[key]
                self._memo[key] = None
                v = self.fold(self.var_init(d), depth + 1)
                self._memo[key] = v
                return v
            return None
        if k == 'CallExpr' or k == 'CXXMemberCallExpr':
            # std::numeric_limits<T>::max()/min()
            c = callee(e)
            if c and c[0] == 'fn' and c[1].get('name') in ('max', 'min', 'lowest') and not call_args(e):
                m = re.search(r'numeric_limits<([^>]*)>', qn_ref(c[1]) + ' ' + _callee_text(e))
                r = None
                if m:
                    r = type_range(_desugar_std_int(m.group(1)))
                elif c[1].get('kind') == 'CXXMethodDecl' and not c[1].get('_qn') and expr_int_type(e) and \
                        re.match(r'^[\w: ]+\(\)\s*noexcept$', qtype(c[1]) or ''):
                    # zero-argument static member max()/min() of a std:: class returning an
                    # integer type T: std::numeric_limits<T>
                    r = type_range(expr_int_type(e))
                if r:
                    return r[1] if c[1]['name'] == 'max' else r[0]
            return None
        if k == 'CXXConstructExpr' or k == 'InitListExpr':
            ks = kids(e)
            if len(ks) == 1:
                return self.fold(ks[0], depth + 1)
            return None
        return None

    def enum_value(self, did):
        d = self.unit.by_id.get(did)
        if d is None:
            return None
        en = d.get('_p')
        val = -1
        for c in kids(en):
            if c.get('kind') != 'EnumConstantDecl':
                continue
            ks = kids(c)
            if ks:
                v = self.fold(ks[0])
                val = v if v is not None else val + 1
            else:
                val += 1
            if c.get('id') == did:
                return val
        return None

    def sizeof(self, e):
        ks = kids(e)
        if ks:
            t = dtype(ks[0]) or qtype(ks[0])
            x = peel(ks[0])
            if x.get('kind') == 'MemberExpr' or x.get('kind') == 'DeclRefExpr':
                t = dtype(x) or t
        else:
            t = (e.get('argType') or {}).get('desugaredQualType') or (e.get('argType') or {}).get('qualType', '')
        return self.sizeof_type(t)

    def sizeof_type(self, t):
        t = t.replace('const ', '').strip()
        m = re.match(r'^(.*?)\s*\[(\d+)\]((?:\[\d+\])*)$', t)
        if m:
            inner = self.sizeof_type(m.group(1) + m.group(3))
            return None if inner is None else inner * int(m.group(2))
        it = int_type(t)
        if it:
            return max(1, it[0] // 8)
        if t.endswith('*'):
            return 8
        # struct of char arrays (tzhead): sum of members if all are char arrays
        rec = self.record(t)
        if rec is not None:
            tot = 0
            for f in kids(rec):
                if f.get('kind') == 'FieldDecl':
                    s = self.sizeof_type(dtype(f))
                    if s is None:
                        return None
                    if not re.match(r'^(const )?char\s*(\[\d+\])+$', dtype(f)):
                        return None  # padding unknown
                    tot += s
            return tot
        return None

    def record(self, t):
        t = t.replace('struct ', '').replace('class ', '').strip()
        for d in self.unit.by_id.values():
            if d.get('kind') == 'CXXRecordDecl' and d.get('completeDefinition') and \
                    (qn(d) == t or d.get('name') == t or qn(d).endswith('::' + t)):
                return d
        return None


def _desugar_std_int(t):
    t = t.strip()
    m = {
        'int': 'int', 'long': 'long', 'unsigned long': 'unsigned long',
        'std::int_fast64_t': 'long', 'int_fast64_t': 'long', 'std::int_least64_t': 'long',
        'std::int64_t': 'long', 'cctz::year_t': 'long', 'year_t': 'long', 'cctz::diff_t': 'long',
        'diff_t': 'long', 'long long': 'long long', 'std::size_t': 'unsigned long',
        'std::int_fast32_t': 'long', 'std::int_least32_t': 'int', 'std::time_t': 'long',
        'char': 'char', 'unsigned char': 'unsigned char', 'short': 'short',
        'unsigned int': 'unsigned int',
    }
    return m.get(t, t)


def _callee_text(e):
    ks = kids(e)
    if not ks:
        return ''
    x = peel(ks[0])
    return qtype(x) + ' ' + str((x.get('referencedDecl') or {}).get('name'))


def qn_ref(d):
    return d.get('_qn') or d.get('name') or ''


# ----------------------------------------------------------------------------
# callee resolution


def callee(e):
    """('fn', declref-dict-or-decl) | ('method', name, objexpr, memberdecl_id) |
    ('ctor', classtype, ctortype) | ('indirect', expr) | None"""
    k = e.get('kind')
    if k == 'CXXConstructExpr' or k == 'CXXTemporaryObjectExpr':
        return ('ctor', dtype(e) or qtype(e), (e.get('ctorType') or {}).get('qualType', ''))
    if k in ('CallExpr', 'CXXOperatorCallExpr', 'CXXMemberCallExpr', 'UserDefinedLiteral'):
        ks = kids(e)
        if not ks:
            return None
        c = peel(ks[0], explicit=False)
        if c.get('kind') == 'DeclRefExpr':
            rd = c.get('referencedDecl', {})
            if rd.get('kind') in FUNC_KINDS:
                d = e['_u'].by_id.get(rd.get('id'), rd)
                return ('fn', d)
            return ('indirect', c)
        if c.get('kind') == 'MemberExpr':
            obj = kids(c)[0] if kids(c) else None
            return ('method', c.get('name'), obj, c.get('referencedMemberDecl'))
        if c.get('kind') == 'UnresolvedLookupExpr':
            return ('unresolved', c.get('name'))
        return ('indirect', c)
    return None


def call_args(e):
    k = e.get('kind')
    ks = kids(e)
    if k in ('CXXConstructExpr', 'CXXTemporaryObjectExpr'):
        return [a for a in ks if a.get('kind') != 'CXXDefaultArgExpr']
    if k == 'CXXOperatorCallExpr':
        return [a for a in ks[1:] if a.get('kind') != 'CXXDefaultArgExpr']
    if k in ('CallExpr', 'CXXMemberCallExpr'):
        return [a for a in ks[1:] if a.get('kind') != 'CXXDefaultArgExpr']
    return []


def callee_name(e):
    c = callee(e)
    if not c:
        return None
    if c[0] == 'fn':
        return qn_ref(c[1])
    if c[0] == 'method':
        return c[1]
    if c[0] == 'ctor':
        return c[1]
    return None


# ----------------------------------------------------------------------------
# canonical expression keys


class Keys(object):
    """Canonical, alpha-stable rendering of side-effect-free expressions.
    Variables are rendered as name#id (id = declaration id in this unit) so two
    different variables with one name never collide."""

    def __init__(self, unit, folder=None, subst=None):
        self.unit = unit
        self.folder = folder or Folder(unit)
        self.subst = subst or {}     # decl id -> key (alias substitution)

    def _elem_nf(self, e, deref=False):
        """Element access through a write-once pointer local into a container (begin[i], *(end - 1),
        p->f): keyed as the direct subscript container[i] it denotes."""
        env = getattr(self, 'ptrenv', None)
        if not env or getattr(self, '_in_nf', False):
            return None
        x = peel(e)
        if not any(y.get('kind') == 'DeclRefExpr' and (y.get('referencedDecl') or {}).get('id') in env for y in walk(x)):
            return None
        if any(y.get('kind') == 'UnaryOperator' and y.get('opcode') in ('++', '--') for y in walk(x)):
            return None
        from .ptrnorm import PtrNorm
        self._in_nf = True
        try:
            r = PtrNorm(self, env).norm(x)
        finally:
            self._in_nf = False
        if r is None:
            return None
        if deref and r[0] == 'ptr':
            r = ('elem', r[1], r[2])
        if r[0] != 'elem':
            return None
        lin = r[2]
        syms = sorted(k_ for k_ in lin if k_ != '')
        c = lin.get('', 0)
        if not syms:
            idx = 'n:%d' % c
        elif len(syms) == 1 and lin[syms[0]] == 1:
            idx = syms[0] if c == 0 else '(%s %s n:%d)' % (syms[0], '+' if c > 0 else '-', abs(c))
        else:
            return None
        return '%s[%s]' % (r[1], idx)

    def key(self, e):
        e = peel(e)
        if e is None:
            return '?'
        v = self.folder.fold(e)
        if v is not None and e.get('kind') not in ('CXXNullPtrLiteralExpr', 'GNUNullExpr'):
            t = dtype(e)
            if not t.endswith('*'):
                return 'n:%d' % v
        k = e.get('kind')
        if k in ('CXXNullPtrLiteralExpr', 'GNUNullExpr'):
            return 'null'
        if k == 'DeclRefExpr':
            rd = e.get('referencedDecl', {})
            i = rd.get('id')
            if i in self.subst:
                return self.subst[i]
            if rd.get('kind') in FUNC_KINDS:
                d = self.unit.by_id.get(i, rd)
                return 'f:' + qn_ref(d)
            return '%s#%s' % (rd.get('name'), i)
        if k == 'CXXThisExpr':
            return 'this'
        if k == 'MemberExpr':
            ks = kids(e)
            if ks and e.get('isArrow') and getattr(self, 'ptrenv', None):
                nf = self._elem_nf(ks[0], deref=True)
                if nf is not None:
                    return '%s.%s' % (nf, e.get('name'))
            b = self.key(ks[0]) if ks else 'this'
            return '%s.%s' % (b, e.get('name'))
        if k == 'ArraySubscriptExpr':
            a, b = kids(e)
            nf = self._elem_nf(e)
            if nf is not None:
                return nf
            return '%s[%s]' % (self.key(a), self.key(b))
        if k == 'UnaryOperator':
            op = e.get('opcode')
            if op == '*':
                nf = self._elem_nf(e)
                if nf is not None:
                    return nf
            x = self.key(kids(e)[0])
            if op == '*':
                if x.startswith('&(') and x.endswith(')'):
                    return x[2:-1]
                return '*(%s)' % x
            if op == '&':
                return '&(%s)' % x
            if op in ('++', '--'):
                return '%s%s' % (op, x) if not e.get('isPostfix') else '%s%s' % (x, op)
            return '%s(%s)' % (op, x)
        if k == 'BinaryOperator':
            a, b = kids(e)
            return '(%s %s %s)' % (self.key(a), e.get('opcode'), self.key(b))
        if k == 'ConditionalOperator':
            c, a, b = kids(e)
            return '(%s ? %s : %s)' % (self.key(c), self.key(a), self.key(b))
        if k == 'CXXOperatorCallExpr':
            c = callee(e)
            args = call_args(e)
            nm = c[1].get('name') if c and c[0] == 'fn' else '?'
            if nm in ('operator[]', 'operator*') and getattr(self, 'ptrenv', None):
                nf = self._elem_nf(e)          # element reached through an iterator / pointer local
                if nf is not None:
                    return nf
            if nm == 'operator[]' and len(args) == 2:
                return '%s[%s]' % (self.key(args[0]), self.key(args[1]))
            if nm == 'operator->' and len(args) == 1:
                if getattr(self, 'ptrenv', None):
                    nf = self._elem_nf(args[0], deref=True)
                    if nf is not None:
                        return nf
                return self.key(args[0])       # smart pointer: p->x keyed as p.x
            if nm == 'operator*' and len(args) == 1:
                return '*(%s)' % self.key(args[0])
            if nm and nm.startswith('operator') and len(args) == 2:
                return '(%s %s %s)' % (self.key(args[0]), nm[8:], self.key(args[1]))
            if nm and nm.startswith('operator') and len(args) == 1:
                return '%s(%s)' % (nm[8:], self.key(args[0]))
            return '%s(%s)' % (nm, ','.join(self.key(a) for a in args))
        if k == 'CXXMemberCallExpr':
            c = callee(e)
            if c and c[0] == 'method':
                obj = self.key(c[2]) if c[2] is not None else 'this'
                if c[1] and c[1].startswith('operator '):
                    return obj          # conversion operator: same value
                if c[1] in ('front', 'back') and not call_args(e) and c[2] is not None and \
                        re.search(r'\b(vector|array|deque|basic_string)<', (dtype(c[2]) or '') + (qtype(c[2]) or '')):
                    # the first / last element of a sequence container, keyed as the subscript it denotes
                    return '%s[n:0]' % obj if c[1] == 'front' else '%s[(%s.size() - n:1)]' % (obj, obj)
                return '%s.%s(%s)' % (obj, c[1], ','.join(self.key(a) for a in call_args(e)))
        if k == 'CallExpr':
            c = callee(e)
            if c and c[0] == 'fn':
                return '%s(%s)' % (qn_ref(c[1]), ','.join(self.key(a) for a in call_args(e)))
            if c and c[0] == 'indirect':
                return '(*%s)(%s)' % (self.key(c[1]), ','.join(self.key(a) for a in call_args(e)))
        if k in ('CXXConstructExpr', 'CXXTemporaryObjectExpr', 'InitListExpr'):
            ks = [a for a in kids(e) if a.get('kind') != 'CXXDefaultArgExpr']
            if len(ks) == 1 and k != 'InitListExpr':
                return self.key(ks[0])
            return '%s{%s}' % (qtype(e), ','.join(self.key(a) for a in ks))
        if k == 'StringLiteral':
            return 's:' + e.get('value', '')
        if k in EXPL_CASTS:
            ks = kids(e)
            return 'cast<%s>(%s)' % (qtype(e), self.key(ks[-1]) if ks else '?')
        if k == 'CXXNewExpr':
            return 'new(%s)' % ','.join(self.key(a) for a in kids(e))
        if k == 'LambdaExpr':
            return 'lambda@%s' % (e.get('_pos'),)
        if k == 'CXXDefaultArgExpr':
            return 'default'
        if k == 'UnaryExprOrTypeTraitExpr':
            return 'sizeof(%s)' % (self.key(kids(e)[0]) if kids(e) else (e.get('argType') or {}).get('qualType'))
        if k == 'CXXScalarValueInitExpr' or k == 'ImplicitValueInitExpr':
            return 'n:0'
        return '%s?' % k


# ----------------------------------------------------------------------------
# writes


def written_lvalues(e):
    """Sub-expressions of e that are (potentially) modified when e is evaluated:
    assignment targets, ++/--, arguments whose address is taken or that bind to a
    non-const reference, and objects of non-const member calls."""
    out = []
    for x in walk(e):
        k = x.get('kind')
        if k == 'LambdaExpr':
            continue
        if k == 'BinaryOperator':
            op = x.get('opcode')
            if op == '=' or (op.endswith('=') and op not in ('==', '!=', '<=', '>=')):
                out.append(kids(x)[0])
        elif k == 'CompoundAssignOperator':
            out.append(kids(x)[0])
        elif k == 'UnaryOperator' and x.get('opcode') in ('++', '--'):
            out.append(kids(x)[0])
        elif k == 'UnaryOperator' and x.get('opcode') == '&':
            out.append(kids(x)[0])
        elif k in ('CallExpr', 'CXXMemberCallExpr', 'CXXOperatorCallExpr', 'CXXConstructExpr'):
            c = callee(x)
            ptypes = _param_types(x, c)
            args = call_args(x)
            if k == 'CXXOperatorCallExpr' and c and c[0] == 'fn' and \
                    c[1].get('kind') == 'CXXMethodDecl':
                # first arg is the object
                if args and not _is_const_method(qtype(c[1])):
                    out.append(args[0])
                args = args[1:]
            for a, pt in zip(args, ptypes):
                if pt.endswith('&') and not pt.endswith('&&') and not pt.startswith('const ') \
                        and ' const &' not in pt and 'const ' not in pt.split('<')[0]:
                    out.append(a)
            if k == 'CXXMemberCallExpr' and c and c[0] == 'method' and c[2] is not None:
                me = peel(kids(x)[0], explicit=False)
                if not _is_const_method(_member_fn_type(x, me)):
                    out.append(c[2])
    return out


def _is_const_method(t):
    t = re.sub(r'\s*noexcept(\(.*\))?\s*$', '', t or '')
    t = re.sub(r'\s*->.*$', '', t)
    return bool(re.search(r'\)\s*const\s*(&{0,2})$', t))


def _member_fn_type(call, me):
    # the bound member type is opaque; recover from the declaration when indexed
    d = call['_u'].by_id.get(me.get('referencedMemberDecl'))
    if d is not None:
        return qtype(d)
    # std:: members: decide by the object's constness and a known-const list
    obj = kids(me)[0] if kids(me) else None
    if obj is not None and (qtype(obj).startswith('const ') or dtype(obj).startswith('const ')):
        return '() const'
    if me.get('name') in CONST_STD_METHODS or (me.get('name') or '').startswith('operator '):
        return '() const'
    return '()'


CONST_STD_METHODS = {
    'size', 'empty', 'length', 'c_str', 'data', 'get', 'count', 'find', 'end', 'begin', 'cend',
    'cbegin', 'back', 'front', 'compare', 'substr', 'load', 'capacity', 'at', 'time_since_epoch',
    'is_open', 'fail', 'eof', 'str',
}


def _param_types(call, c):
    if c is None:
        return []
    if c[0] == 'fn':
        t = qtype(c[1])
    elif c[0] == 'ctor':
        t = c[2]
    elif c[0] == 'method':
        d = call['_u'].by_id.get(c[3])
        t = qtype(d) if d is not None else ''
    else:
        return []
    return split_params(t)


def split_params(fn_type):
    """'bool (const std::string &, cctz::time_zone *) const' -> [param types]"""
    i = fn_type.find('(')
    if i < 0:
        return []
    depth = 0
    j = i
    for j in range(i, len(fn_type)):
        ch = fn_type[j]
        if ch in '(<[':
            depth += 1
        elif ch in ')>]':
            depth -= 1
            if depth == 0:
                break
    inner = fn_type[i + 1:j]
    out, depth, cur = [], 0, ''
    for ch in inner:
        if ch in '(<[':
            depth += 1
        elif ch in ')>]':
            depth -= 1
        if ch == ',' and depth == 0:
            out.append(cur.strip())
            cur = ''
        else:
            cur += ch
    if cur.strip():
        out.append(cur.strip())
    return out
