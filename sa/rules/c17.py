"""C17 — weekday / yearday / next-prev weekday: constant-table clauses."""
from ..frontend import kids, walk, qn, qtype, dtype, pos, AnalysisBroken
from ..expr import callee, call_args, peel, Keys, Folder
from ..table import const_arrays_in, table_of, one_var, enum_decl
from .tables import (GREG, month_tables, weekday_tables, switch_map, check_month_tables,
                     check_weekday_switches, loop_search_shape)

EXPLANATION = (
    'Constant-table relations decided from the folded initialisers in the AST; no table is compared '
    'with a frozen copy of itself - the reference is another table of the library or the Gregorian '
    'rule (month lengths, 365/366). C17-cycle: the weekday enumeration has seven consecutive values; '
    'get_weekday\'s result table and the next/prev search tables have period 7, start with a '
    'permutation of all enumerators and advance by the enumeration\'s successor (forward) or '
    'predecessor (backward). C17-window: the two-level find-first loops of next_/prev_weekday have '
    'the counted shape i=0.., j=i+1.., and every window of seven consecutive entries they can scan '
    'contains every enumerator and lies inside the array, so both loops terminate in bounds with '
    'j-i in [1,7]; the weekday index expression of get_weekday stays inside its table (interval '
    'analysis). C17-months: get_yearday\'s month offsets are the prefix sums of the month lengths, '
    'get_weekday\'s month constants are congruent to them mod 7 (with the March-based year shift), '
    'days_per_month are their successive differences. '
    'C17-wday: the weekday<->tm_wday switches are exhaustive, Sunday=0..Saturday=6, mutually '
    'inverse. C17-leap: get_weekday\'s three leap-day corrections enter as + y/4 - y/100 + y/400 of one and the same '
    'value y, the year counted from March (year - (month < 3)). Does not decide the rest of the congruence arithmetic of '
    'get_weekday.')
LEVEL = ('Exhaustive check of every entry of every calendar table against independent tables and the Gregorian '
         'rule, plus loop-shape/window argument; finite and complete for the table clauses.')
LEVEL_NOTE = ('Trusts clang 14 AST/constant folding in sa/expr.py; the arithmetic of get_weekday (year mod 400, '
              '/4 -/100 +/400 terms) is value semantics and not decided.')
TECHNIQUE = 'constant-table relation checking + switch exhaustiveness + abstract executions on weekday partitions + term-structure check of the leap corrections'


def _moves_ok(moves, op, want):
    """The day arithmetic applied to the argument adds up to `want` days in direction `op`, and no intermediate day lies
    outside the span between the argument and the result (an excursion beyond it overflows the year at the end of the
    range although the result is representable)."""
    from ..absint import Int
    if not moves:
        return False
    pos_ = 0
    sign = 1 if op == 'operator+' else -1
    for (m, v) in moves:
        c = v.const() if isinstance(v, Int) else None
        if c is None or m not in ('operator+', 'operator-'):
            return False
        pos_ += c if m == 'operator+' else -c
        if not (0 <= sign * pos_ <= want):
            return False
    return sign * pos_ == want


def _check_leap_terms(ctx):
    """C17-leap: the three leap-day corrections of get_weekday (+ y/4 - y/100 + y/400) are taken of one and the same
    value, the year counted from March (year - (month < 3)): the congruence needs the leap day of a year to be counted
    from March of that year on, in all three terms alike."""
    import re
    k_ = ctx.G.one('cctz::detail::get_weekday')
    u, f = ctx.G.defs[k_]
    F = ctx.facts(f)
    fold = Folder(u)
    terms = {}
    for x in walk(f):
        if x.get('kind') == 'BinaryOperator' and x.get('opcode') == '/':
            c = fold.fold(kids(x)[1])
            if c in (4, 100, 400) and fold.fold(kids(x)[0]) is None:
                terms.setdefault(c, []).append(x)
    if sorted(terms) != [4, 100, 400] or any(len(v) != 1 for v in terms.values()):
        ctx.unknown('C17-leap', 'leap-day corrections of get_weekday', f,
                    'get_weekday does not have exactly one division of the year by each of 4, 100 and 400 (found %s): another way of '
                    'counting leap days is not interpreted' % sorted((c, len(v)) for c, v in terms.items()), construct='leap:terms')
        return
    # sign of each term in the sum it belongs to
    signs = {}
    for c, (x,) in terms.items():
        sg = 1
        y = x
        ok = True
        while True:
            p_ = y.get('_p')
            if p_ is None:
                ok = False
                break
            k = p_.get('kind')
            if k in ('ParenExpr', 'ImplicitCastExpr'):
                y = p_
                continue
            if k == 'BinaryOperator' and p_.get('opcode') in ('+', '-'):
                if p_.get('opcode') == '-' and kids(p_)[1] is y:
                    sg = -sg
                y = p_
                continue
            if k == 'UnaryOperator' and p_.get('opcode') in ('-', '+'):
                if p_['opcode'] == '-':
                    sg = -sg
                y = p_
                continue
            if k == 'CompoundAssignOperator' and p_.get('opcode') in ('+=', '-=') and kids(p_)[1] is y:
                if p_['opcode'] == '-=':
                    sg = -sg
                break
            if k in ('VarDecl', 'ReturnStmt') or (k == 'BinaryOperator' and p_.get('opcode') == '=' and kids(p_)[1] is y):
                break
            ok = False
            break
        signs[c] = sg if ok else None
    if None in signs.values():
        ctx.unknown('C17-leap', 'leap-day corrections of get_weekday', f, 'a correction term is not part of a plain sum', construct='leap:signs')
        return
    ctx.check(signs == {4: 1, 100: -1, 400: 1}, 'C17-leap', 'corrections enter as + y/4 - y/100 + y/400', terms[100][0],
              'the leap-day corrections enter with signs %s: the Gregorian rule adds a day every 4th year, removes it every 100th and '
              'adds it back every 400th' % ', '.join('%s/%d' % ('+' if signs[c] > 0 else '-', c) for c in (4, 100, 400)), construct='leap:signs')
    dk = {c: F.ident_key(kids(terms[c][0])[0]) for c in terms}
    same = len(set(dk.values())) == 1
    ctx.check(same, 'C17-leap', 'the three corrections are taken of one value', terms[100][0],
              'the corrections are taken of different values (%s): in January and February of a year the three terms no longer '
              'step together, so the weekday is off by one in years where they differ (century years not divisible by 400)'
              % ', '.join('/%d of %s' % (c, dk[c]) for c in (4, 100, 400)), construct='leap:same', detail=dk[4])
    if same:
        # that value is the year counted from March
        x0 = peel(kids(terms[4][0])[0])
        expr = F.resolve_key(dk[4])
        def_nodes = [x0]
        if x0.get('kind') == 'DeclRefExpr':
            d = u.by_id.get((x0.get('referencedDecl') or {}).get('id'))
            if d is not None and d.get('kind') == 'VarDecl' and kids(d):
                # the definitions of that local: its initialiser and the assignments that do not contain the terms
                def_nodes = [kids(d)[-1]]
                for y in walk(f):
                    if y.get('kind') in ('BinaryOperator', 'CompoundAssignOperator') and y.get('opcode', '').endswith('=') and \
                            y.get('opcode') not in ('==', '!=', '<=', '>=') and \
                            (peel(kids(y)[0]).get('referencedDecl') or {}).get('id') == d['id'] and \
                            not any(t_ is z for c in terms for t_ in [terms[c][0]] for z in walk(y)):
                        def_nodes.append(y)
                expr = ' ; '.join(F.keys.key(n_) for n_ in def_nodes)

        def is_month(e_, depth=0):
            e_ = peel(e_)
            if e_.get('kind') == 'CXXMemberCallExpr' and callee(e_) and callee(e_)[1] == 'month':
                return True
            if e_.get('kind') == 'DeclRefExpr' and depth < 3:
                d_ = u.by_id.get((e_.get('referencedDecl') or {}).get('id'))
                return d_ is not None and d_.get('kind') == 'VarDecl' and bool(kids(d_)) and is_month(kids(d_)[-1], depth + 1)
            return False

        def is_jan_feb(e_):
            e_ = peel(e_)
            if e_.get('kind') == 'BinaryOperator' and e_.get('opcode') in ('<', '<='):
                return is_month(kids(e_)[0]) and fold.fold(kids(e_)[1]) == (3 if e_['opcode'] == '<' else 2)
            if e_.get('kind') == 'BinaryOperator' and e_.get('opcode') in ('>', '>='):
                return is_month(kids(e_)[1]) and fold.fold(kids(e_)[0]) == (3 if e_['opcode'] == '>' else 2)
            if e_.get('kind') == 'ConditionalOperator':
                c_, a_, b_ = kids(e_)
                return is_jan_feb(c_) and fold.fold(a_) == 1 and fold.fold(b_) == 0
            return False
        march = any(y.get('kind') == 'BinaryOperator' and y.get('opcode') == '-' and is_jan_feb(kids(y)[1])
                    for n_ in def_nodes for y in walk(n_)) or \
            any(y.get('kind') == 'CompoundAssignOperator' and y.get('opcode') == '-=' and is_jan_feb(kids(y)[1]) for y in def_nodes)
        ctx.check3(True if march else None, 'C17-leap', 'that value is the year counted from March (year - (month < 3))', terms[4][0],
                   '', construct='leap:march', detail=expr[:200],
                   unknown_why='the value the corrections are taken of (%s) is not recognisably year - (month < 3)' % expr[:160])
    ctx.minimum('C17-leap', 3)


def _excursion(moves, op):
    from ..absint import Int
    pos_ = 0
    sign = 1 if op == 'operator+' else -1
    for (m, v) in moves:
        c = v.const() if isinstance(v, Int) else None
        if c is None or m not in ('operator+', 'operator-'):
            return False
        pos_ += c if m == 'operator+' else -c
        if not (0 <= sign * pos_ <= 7):
            return True
    return False


def run(ctx):
    T = weekday_tables(ctx)
    names, vals = T['enum_names'], T['enum_vals']
    n = len(names)
    ctx.check(n == 7 and vals == list(range(7)), 'C17-cycle', 'weekday enumeration: 7 consecutive values', T['enum_decl'],
              'the weekday enumeration does not have seven consecutive values 0..6', construct='enum-weekday',
              detail=' '.join(names))
    if n != 7:
        return
    n_cycle_min = 1
    for key, step in (('by_mon_off', 1), ('forw', 1), ('back', -1)):
        if T[key] is None:
            continue
        d, tv = T[key]
        n_cycle_min += 1 + (len(tv) - 1) + max(0, len(tv) - 7)
        ok_perm = sorted(tv[:7]) == list(range(7))
        ctx.check(ok_perm, 'C17-cycle', '%s: first seven entries are a permutation of the weekdays' % d['name'], d,
                  'the first seven entries of %s do not cover every weekday' % d['name'], construct='perm:%s' % key,
                  detail=str(tv[:7]))
        for i in range(len(tv) - 1):
            ctx.check(tv[i + 1] == (tv[i] + step) % 7, 'C17-cycle',
                      '%s[%d] -> [%d] advances by one weekday (%+d)' % (d['name'], i, i + 1, step), d,
                      '%s[%d]=%s is not the %s of [%d]=%s: the walk over this table skips or repeats a weekday'
                      % (d['name'], i + 1, names[tv[i + 1]], 'successor' if step == 1 else 'predecessor', i, names[tv[i]]),
                      construct='step:%s[%d]' % (key, i + 1), detail='%s -> %s' % (names[tv[i]], names[tv[i + 1]]))
        for i in range(len(tv) - 7):
            ctx.check(tv[i + 7] == tv[i], 'C17-cycle', '%s[%d] == [%d] (period 7)' % (d['name'], i + 7, i), d,
                      'period-7 broken', construct='period:%s[%d]' % (key, i + 7))
    ctx.minimum('C17-cycle', min(60, n_cycle_min))

    # ---- C17-window: for each (weekday of cd, target weekday) the search is followed by abstract interpretation
    # with the table contents known: it terminates, every table subscript is in bounds, and the argument is moved by
    # the number of days to the first later (earlier) day with the target weekday.
    from ..absint import AI, Observer, St, Int, I
    from ..frontend import params_of, ancestors

    class _W(Observer):
        wants_uninlined = True

        def __init__(self, fn):
            self.fn = fn
            self.moves = []
            self._seen_moves = set()
            self.subs = []

        def call(self, ai, site, fkey, args, st):
            if any(a is self.fn for a in ancestors(site)) and fkey[0].split('::')[-1] in ('operator+', 'operator-') and \
                    len(args) == 2 and args[1][0] == 'val':
                # (several abstract states may reach one site: the same step recorded again is the same step)
                rec = (fkey[0].split('::')[-1], args[1][1])
                key_ = (id(site), str(args[1][1]))
                if key_ not in self._seen_moves:
                    self._seen_moves.add(key_)
                    self.moves.append(rec)

        def subscript(self, ai, e, ext, idx, st):
            self.subs.append((e, ext, idx))        # in the function itself or in a helper followed from it
    for key, fname_ in (('forw', 'cctz::detail::next_weekday'), ('back', 'cctz::detail::prev_weekday')):
        k_ = ctx.G.one(fname_)
        u, f = ctx.G.defs[k_]
        ps = params_of(f)
        # the abstract runs fix get_weekday(.) to the weekday of the argument: exact only when it is applied to the
        # unmodified argument in the function itself
        gk = ctx.G.one('cctz::detail::get_weekday')
        direct = True
        for x in walk(f):
            if x.get('kind') in ('CallExpr', 'CXXOperatorCallExpr', 'CXXMemberCallExpr') and callee(x) and callee(x)[0] == 'fn':
                tg = ctx.G.resolve_decl(callee(x)[1])
                nm_ = (callee(x)[1].get('name') or '')
                if gk in tg:
                    a0 = peel(call_args(x)[0], explicit=False) if call_args(x) else {}
                    while a0.get('kind') in ('CXXConstructExpr', 'MaterializeTemporaryExpr', 'CXXBindTemporaryExpr') and \
                            len([c_ for c_ in kids(a0) if c_.get('kind') != 'CXXDefaultArgExpr']) == 1:
                        a0 = peel([c_ for c_ in kids(a0) if c_.get('kind') != 'CXXDefaultArgExpr'][0], explicit=False)
                    if not (a0.get('kind') == 'DeclRefExpr' and (a0.get('referencedDecl') or {}).get('id') == ps[0]['id']):
                        direct = False
                elif not nm_.startswith('operator') and any(gk in ctx.G.reachable([t_]) | {t_} for t_ in tg if t_ in ctx.G.defs):
                    direct = False
            if x.get('kind') in ('BinaryOperator', 'CompoundAssignOperator', 'CXXOperatorCallExpr', 'UnaryOperator'):
                from ..expr import written_lvalues
                for lv in written_lvalues(x):
                    l0 = peel(lv, explicit=False)
                    if l0.get('kind') == 'DeclRefExpr' and (l0.get('referencedDecl') or {}).get('id') == ps[0]['id']:
                        direct = False
        for b in range(7):
            bad = []
            undecided = []
            n_sub = 0
            for w in range(7):
                o = _W(f)
                ai = AI(ctx.G, o, assume_returns={'cctz::detail::get_weekday': I(b)}, unroll=lambda f_: True, unroll_cap=40,
                        inline=lambda k__: k__[0].split('::')[-1] not in ('operator+', 'operator-', 'operator+=', 'operator-=',
                                                                             'operator++', 'operator--', 'civil_time'))
                st = St()
                st.refs[ps[0]['id']] = ('CD',)
                st.mem[(ps[1]['id'],)] = I(w)
                res = ai.analyse(k_, st)
                want = ((w - b - 1) % 7 + 1) if key == 'forw' else ((b - w - 1) % 7 + 1)
                op = 'operator+' if key == 'forw' else 'operator-'
                n_sub += len(o.subs)
                if not res:
                    bad.append('%s->%s: the search does not come to an end' % (names[b], names[w]))
                elif not direct:
                    if _excursion(o.moves, op):
                        bad.append('%s->%s: moves by %s: an intermediate day lies outside the week %s the argument (its year '
                                   'overflows at the end of the range although the result is representable)' % (
                                       names[b], names[w], ', '.join('%s%s' % (m[0][-1], m[1]) for m in o.moves), 'after' if key == 'forw' else 'before'))
                    else:
                        undecided.append('%s->%s' % (names[b], names[w]))
                elif not _moves_ok(o.moves, op, want):
                    bad.append('%s->%s: moves by %s, the calendar says %s%d' % (
                        names[b], names[w], ', '.join('%s%s' % (m[0][-1], m[1]) for m in o.moves) or 'nothing', op[-1], want))
                for (e, ext, idx) in o.subs:
                    if not (idx.lo >= 0 and idx.hi < ext):
                        bad.append('%s->%s: subscript %s of a table of extent %d' % (names[b], names[w], idx, ext))
            ctx.check3(None if (undecided and not bad) else (not bad and (n_sub >= 7 or T[key] is None)), 'C17-window',
                       '%s from a %s: every target weekday is reached by the right number of days, '
                       'all table subscripts in bounds' % (fname_.split('::')[-1], names[b]), f,
                       'the table search is wrong for: %s' % '; '.join(bad[:4]), construct='window:%s[%d]' % (key, b),
                       detail='%d subscripts followed' % n_sub,
                       unknown_why='the weekday is taken of something other than the unmodified argument (in a helper or after moving '
                                   'it): the abstract runs, which fix get_weekday to the weekday of the argument, do not apply')
    ctx.minimum('C17-window', 14)

    # ---- C17-range / C17-yearday by abstract interpretation on specification-chosen partitions
    from ..absint import AI, Observer, St, Int, vjoin
    from ..frontend import params_of
    from ..expr import Folder

    class _O(Observer):
        def __init__(self):
            self.narrow = []
            self.subs = {}

        def narrowing(self, ai, e, val, it, explicit, st):
            if explicit:
                self.narrow.append((e, val, it))

        def subscript(self, ai, e, ext, idx, st):
            c = self.subs.get(id(e))
            self.subs[id(e)] = (e, ext, idx if c is None else c[2].join(idx))

        def overflow(self, ai, e, val, it, st):
            self.ovf = getattr(self, 'ovf', [])
            self.ovf.append((e, val, it))
    G = ctx.G

    def run_cs(fname_, month, day):
        k_ = G.one(fname_)
        u_, f_ = G.defs[k_]
        o = _O()
        assume = {'cctz::detail::civil_time<second_tag>::month': month, 'cctz::detail::civil_time<second_tag>::day': day,
                  'cctz::detail::civil_time<day_tag>::month': month, 'cctz::detail::civil_time<day_tag>::day': day}
        ai = AI(G, o, assume_returns=assume)
        st = St()
        st.refs[params_of(f_)[0]['id']] = ('CS',)
        res = ai.analyse(k_, st)
        out = None
        for (v, s_) in res or ():
            if isinstance(v, Int):
                out = v if out is None else out.join(v)
        return out, o, f_
    out, o, fw = run_cs('cctz::detail::get_weekday', Int(1, 12), Int(1, 31))
    ctx.check(not o.narrow, 'C17-range', 'get_weekday: no value-changing narrowing cast for any 64-bit year', o.narrow[0][0] if o.narrow else fw,
              'the year is narrowed (to %s) before it is reduced: years beyond that type get the weekday of a different '
              'year of the 400-year cycle' % (o.narrow[0][2],) if o.narrow else '', construct='range:weekday:narrow')
    for (e, ext, idx) in o.subs.values():
        ctx.check(idx.lo >= 0 and idx.hi < ext, 'C17-range', 'get_weekday table subscript %s within [0,%d)' % (idx, ext), e,
                  'a weekday table of extent %d is subscripted with %s for some date' % (ext, idx), construct='range:weekday:sub:%d' % ext,
                  detail=str(idx))
    ctx.check(len(o.subs) >= 2, 'C17-range', 'both get_weekday tables are subscripted', fw, 'found %d' % len(o.subs), construct='range:weekday:count')
    ovf = [x for x in getattr(o, 'ovf', []) if any(a is fw for a in ancestors(x[0]))]
    ctx.check(not ovf, 'C17-range', 'get_weekday: no signed overflow for any 64-bit year', ovf[0][0] if ovf else fw,
              'an intermediate of get_weekday leaves its type for some year (%s does not fit %s): the weekday of the years at the '
              'ends of the range is undefined' % ((ovf[0][1], ovf[0][2]) if ovf else ('', '')), construct='range:weekday:ovf')
    from .tables import GREG
    prefix = [sum(GREG[:m - 1]) for m in range(1, 13)]
    for m in range(1, 13):
        ln = GREG[m - 1] + (1 if m == 2 else 0)
        got, o2, fy = run_cs('cctz::detail::get_yearday', Int(m, m), Int(1, ln))
        lo = prefix[m - 1] + 1
        hi = prefix[m - 1] + ln + (1 if m > 2 else 0)
        ctx.check(isinstance(got, Int) and (got.lo, got.hi) == (lo, hi), 'C17-yearday',
                  'get_yearday over month %d (days 1..%d, any year) ranges over %d..%d' % (m, ln, lo, hi), fy,
                  'the ordinals of month %d range over %s; the calendar gives [%d,%d] (a leap day shifts only the months after '
                  'February)' % (m, got, lo, hi), construct='yearday:%d' % m, detail=str(got))
    ctx.minimum('C17-range', 4)
    _check_leap_terms(ctx)
    ctx.minimum('C17-yearday', 12)

    # ---- C17-months
    check_month_tables(ctx, 'C17-months', civil=True, tz=False)
    ctx.minimum('C17-months', 45)

    # ---- C17-wday
    check_weekday_switches(ctx, 'C17-wday', ('cctz::detail::ToTmWday', 'cctz::detail::FromTmWday'))
    ctx.minimum('C17-wday', 14)
