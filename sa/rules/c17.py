"""C17 — weekday / yearday / next-prev weekday: constant-table clauses."""
from ..frontend import kids, walk, qn, qtype, dtype, pos, AnalysisBroken
from ..expr import callee, call_args, peel, Keys, Folder
from ..table import const_arrays_in, table_of, one_var, enum_decl
from .tables import (GREG, month_tables, weekday_tables, switch_map, check_month_tables,
                     check_weekday_switches, loop_search_shape)

EXPLANATION = (
    'Constant-table relations decided from the folded initialisers in the AST; no table is compared '
    'with a frozen copy of itself - the reference is another table of the library or the Gregorian '
    'rule (month lengths, 365/366). C17-cycle: the weekday enumeration has seven consecutive values; '
    'get_weekday\'s result table and the next/prev search tables have period 7, start with a '
    'permutation of all enumerators and advance by the enumeration\'s successor (forward) or '
    'predecessor (backward). C17-window: the two-level find-first loops of next_/prev_weekday have '
    'the counted shape i=0.., j=i+1.., and every window of seven consecutive entries they can scan '
    'contains every enumerator and lies inside the array, so both loops terminate in bounds with '
    'j-i in [1,7]; the weekday index expression of get_weekday stays inside its table (interval '
    'analysis). C17-months: get_yearday\'s month offsets are the prefix sums of the month lengths, '
    'get_weekday\'s month constants are congruent to them mod 7 (with the March-based year shift), '
    'days_per_month are their successive differences. '
    'C17-wday: the weekday<->tm_wday switches are exhaustive, Sunday=0..Saturday=6, mutually '
    'inverse. Does not decide the congruence arithmetic of get_weekday itself.')
LEVEL = ('Exhaustive check of every entry of every calendar table against independent tables and the Gregorian '
         'rule, plus loop-shape/window argument; finite and complete for the table clauses.')
LEVEL_NOTE = ('Trusts clang 14 AST/constant folding in sa/expr.py; the arithmetic of get_weekday (year mod 400, '
              '/4 -/100 +/400 terms) is value semantics and not decided.')
TECHNIQUE = 'constant-table relation checking + switch exhaustiveness + loop-shape/window analysis over clang AST'


def run(ctx):
    T = weekday_tables(ctx)
    names, vals = T['enum_names'], T['enum_vals']
    n = len(names)
    ctx.check(n == 7 and vals == list(range(7)), 'C17-cycle', 'weekday enumeration: 7 consecutive values', T['enum_decl'],
              'the weekday enumeration does not have seven consecutive values 0..6', construct='enum-weekday',
              detail=' '.join(names))
    if n != 7:
        return
    for key, step in (('by_mon_off', 1), ('forw', 1), ('back', -1)):
        d, tv = T[key]
        ok_perm = sorted(tv[:7]) == list(range(7))
        ctx.check(ok_perm, 'C17-cycle', '%s: first seven entries are a permutation of the weekdays' % d['name'], d,
                  'the first seven entries of %s do not cover every weekday' % d['name'], construct='perm:%s' % key,
                  detail=str(tv[:7]))
        for i in range(len(tv) - 1):
            ctx.check(tv[i + 1] == (tv[i] + step) % 7, 'C17-cycle',
                      '%s[%d] -> [%d] advances by one weekday (%+d)' % (d['name'], i, i + 1, step), d,
                      '%s[%d]=%s is not the %s of [%d]=%s: the walk over this table skips or repeats a weekday'
                      % (d['name'], i + 1, names[tv[i + 1]], 'successor' if step == 1 else 'predecessor', i, names[tv[i]]),
                      construct='step:%s[%d]' % (key, i + 1), detail='%s -> %s' % (names[tv[i]], names[tv[i + 1]]))
        for i in range(len(tv) - 7):
            ctx.check(tv[i + 7] == tv[i], 'C17-cycle', '%s[%d] == [%d] (period 7)' % (d['name'], i + 7, i), d,
                      'period-7 broken', construct='period:%s[%d]' % (key, i + 7))
    ctx.minimum('C17-cycle', 60)

    # ---- C17-window: for each (weekday of cd, target weekday) the search is followed by abstract interpretation
    # with the table contents known: it terminates, every table subscript is in bounds, and the argument is moved by
    # the number of days to the first later (earlier) day with the target weekday.
    from ..absint import AI, Observer, St, Int, I
    from ..frontend import params_of, ancestors

    class _W(Observer):
        wants_uninlined = True

        def __init__(self, fn):
            self.fn = fn
            self.moves = []
            self.subs = []

        def call(self, ai, site, fkey, args, st):
            if any(a is self.fn for a in ancestors(site)) and fkey[0].split('::')[-1] in ('operator+', 'operator-') and \
                    len(args) == 2 and args[1][0] == 'val':
                self.moves.append((fkey[0].split('::')[-1], args[1][1]))

        def subscript(self, ai, e, ext, idx, st):
            self.subs.append((e, ext, idx))        # in the function itself or in a helper followed from it
    for key, fname_ in (('forw', 'cctz::detail::next_weekday'), ('back', 'cctz::detail::prev_weekday')):
        d, tv = T[key]
        k_ = ctx.G.one(fname_)
        u, f = ctx.G.defs[k_]
        ps = params_of(f)
        for b in range(7):
            bad = []
            n_sub = 0
            for w in range(7):
                o = _W(f)
                ai = AI(ctx.G, o, assume_returns={'cctz::detail::get_weekday': I(b)}, unroll=lambda f_: True, unroll_cap=40,
                        inline=lambda k__: k__[0].split('::')[-1] not in ('operator+', 'operator-', 'operator+=', 'operator-=',
                                                                             'operator++', 'operator--', 'civil_time'))
                st = St()
                st.refs[ps[0]['id']] = ('CD',)
                st.mem[(ps[1]['id'],)] = I(w)
                res = ai.analyse(k_, st)
                want = ((w - b - 1) % 7 + 1) if key == 'forw' else ((b - w - 1) % 7 + 1)
                op = 'operator+' if key == 'forw' else 'operator-'
                n_sub += len(o.subs)
                if not res:
                    bad.append('%s->%s: the search does not come to an end' % (names[b], names[w]))
                elif [m for m in o.moves if not (m[0] == op and isinstance(m[1], Int) and m[1].const() == want)] or not o.moves:
                    bad.append('%s->%s: moves by %s, the calendar says %s%d' % (
                        names[b], names[w], ', '.join('%s%s' % (m[0][-1], m[1]) for m in o.moves) or 'nothing', op[-1], want))
                for (e, ext, idx) in o.subs:
                    if not (idx.lo >= 0 and idx.hi < ext):
                        bad.append('%s->%s: subscript %s of a table of extent %d' % (names[b], names[w], idx, ext))
            ctx.check(not bad and n_sub >= 7, 'C17-window', '%s from a %s: every target weekday is reached by the right number of days, '
                      'all table subscripts in bounds' % (fname_.split('::')[-1], names[b]), f,
                      'the table search is wrong for: %s' % '; '.join(bad[:4]), construct='window:%s[%d]' % (key, b),
                      detail='%d subscripts followed' % n_sub)
    ctx.minimum('C17-window', 14)

    # ---- C17-range / C17-yearday by abstract interpretation on specification-chosen partitions
    from ..absint import AI, Observer, St, Int, vjoin
    from ..frontend import params_of
    from ..expr import Folder

    class _O(Observer):
        def __init__(self):
            self.narrow = []
            self.subs = {}

        def narrowing(self, ai, e, val, it, explicit, st):
            if explicit:
                self.narrow.append((e, val, it))

        def subscript(self, ai, e, ext, idx, st):
            c = self.subs.get(id(e))
            self.subs[id(e)] = (e, ext, idx if c is None else c[2].join(idx))

        def overflow(self, ai, e, val, it, st):
            self.ovf = getattr(self, 'ovf', [])
            self.ovf.append((e, val, it))
    G = ctx.G

    def run_cs(fname_, month, day):
        k_ = G.one(fname_)
        u_, f_ = G.defs[k_]
        o = _O()
        assume = {'cctz::detail::civil_time<second_tag>::month': month, 'cctz::detail::civil_time<second_tag>::day': day,
                  'cctz::detail::civil_time<day_tag>::month': month, 'cctz::detail::civil_time<day_tag>::day': day}
        ai = AI(G, o, assume_returns=assume)
        st = St()
        st.refs[params_of(f_)[0]['id']] = ('CS',)
        res = ai.analyse(k_, st)
        out = None
        for (v, s_) in res or ():
            if isinstance(v, Int):
                out = v if out is None else out.join(v)
        return out, o, f_
    out, o, fw = run_cs('cctz::detail::get_weekday', Int(1, 12), Int(1, 31))
    ctx.check(not o.narrow, 'C17-range', 'get_weekday: no value-changing narrowing cast for any 64-bit year', o.narrow[0][0] if o.narrow else fw,
              'the year is narrowed (to %s) before it is reduced: years beyond that type get the weekday of a different '
              'year of the 400-year cycle' % (o.narrow[0][2],) if o.narrow else '', construct='range:weekday:narrow')
    for (e, ext, idx) in o.subs.values():
        ctx.check(idx.lo >= 0 and idx.hi < ext, 'C17-range', 'get_weekday table subscript %s within [0,%d)' % (idx, ext), e,
                  'a weekday table of extent %d is subscripted with %s for some date' % (ext, idx), construct='range:weekday:sub:%d' % ext,
                  detail=str(idx))
    ctx.check(len(o.subs) >= 2, 'C17-range', 'both get_weekday tables are subscripted', fw, 'found %d' % len(o.subs), construct='range:weekday:count')
    ovf = [x for x in getattr(o, 'ovf', []) if any(a is fw for a in ancestors(x[0]))]
    ctx.check(not ovf, 'C17-range', 'get_weekday: no signed overflow for any 64-bit year', ovf[0][0] if ovf else fw,
              'an intermediate of get_weekday leaves its type for some year (%s does not fit %s): the weekday of the years at the '
              'ends of the range is undefined' % ((ovf[0][1], ovf[0][2]) if ovf else ('', '')), construct='range:weekday:ovf')
    from .tables import GREG
    prefix = [sum(GREG[:m - 1]) for m in range(1, 13)]
    for m in range(1, 13):
        ln = GREG[m - 1] + (1 if m == 2 else 0)
        got, o2, fy = run_cs('cctz::detail::get_yearday', Int(m, m), Int(1, ln))
        lo = prefix[m - 1] + 1
        hi = prefix[m - 1] + ln + (1 if m > 2 else 0)
        ctx.check(isinstance(got, Int) and (got.lo, got.hi) == (lo, hi), 'C17-yearday',
                  'get_yearday over month %d (days 1..%d, any year) ranges over %d..%d' % (m, ln, lo, hi), fy,
                  'the ordinals of month %d range over %s; the calendar gives [%d,%d] (a leap day shifts only the months after '
                  'February)' % (m, got, lo, hi), construct='yearday:%d' % m, detail=str(got))
    ctx.minimum('C17-range', 4)
    ctx.minimum('C17-yearday', 12)

    # ---- C17-months
    check_month_tables(ctx, 'C17-months', civil=True, tz=False)
    ctx.minimum('C17-months', 45)

    # ---- C17-wday
    check_weekday_switches(ctx, 'C17-wday', ('cctz::detail::ToTmWday', 'cctz::detail::FromTmWday'))
    ctx.minimum('C17-wday', 14)
