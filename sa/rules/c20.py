"""C20 — custom zone_info_source_factory: once per name, serially, on the caller's
thread, not at all for UTC / fixed-offset names.  (DESIGN.md section 3, C20)"""
import re
from ..frontend import kids, walk, qn, qtype, dtype, pos, ancestors, AnalysisBroken, control_program
from ..expr import callee, call_args, peel, Keys, written_lvalues
from ..callgraph import fname, CallGraph
from ..lock import LockRegions, static_mutex_keys, is_internal, entry_held
from ..effects import is_static_storage, thread_effects, var_refs

FACTORY = 'cctz_extension::zone_info_source_factory'
EXPLANATION = (
    'Static analysis of where the single call of cctz_extension::zone_info_source_factory sits: '
    'every call chain from a call-graph root to it is enumerated over the resolved whole-library '
    'call graph; on each chain a must-hold branch fact shows the fixed-offset test failed before '
    'the call (C20-fixed), an RAII lock region of a static-storage mutex must cover a call site of '
    'the chain (C20-serial), and inside one continuous hold of that mutex a lookup of the name '
    'cache must dominate, and an insertion post-dominate, the site (C20-once); from the function that '
    'owns the cache down to the factory every site hands on its own name parameter unchanged, and the '
    'factory receives the very string the fixed-offset test refused (C20-name: the cache is keyed by '
    'the requested name, so a name altered on the way reaches the factory twice or untested); no library function '
    'names a thread-creating facility (C20-thread).  Decides the placement clauses for every '
    'schedule; does not decide what a user factory does.')
LEVEL = ('Structural proof of the placement clauses of the factory contract for all schedules and all names: '
         'which chains reach the factory, under which lock, behind which tests. '
         'Strongest level a static argument reaches here; the contract is about where one call sits.')
LEVEL_NOTE = ('Trusts clang 14 AST and the sa/ library; RAII guards only (raw lock/unlock is reported); '
              'finding F1 (load outside the lock) is a recorded known finding.')
TECHNIQUE = 'call-graph reachability + RAII lock-region + dominator/post-dominator analysis + name-identity along the chain, over clang AST'


def factory_refs(ctx):
    """Every DeclRefExpr naming the factory variable, in any library function."""
    out = []
    for k, (u, f) in ctx.G.defs.items():
        for x in walk(f):
            if x.get('kind') == 'DeclRefExpr':
                rd = x.get('referencedDecl') or {}
                if rd.get('name') == 'zone_info_source_factory' and rd.get('kind') == 'VarDecl':
                    d = u.by_id.get(rd.get('id'))
                    if d is None or qn(d) == FACTORY:
                        out.append((k, u, f, x))
    return out


def is_cache_map(d):
    t = d['_u'].expand_type(dtype(d) or qtype(d))
    return bool(re.search(r'\b(unordered_map|map)<\s*(std::)?(__cxx11::)?(basic_string<char|string)', t))


def _direct_cache_refs(u, f):
    out = []
    # a local that cannot be re-seated (a reference, or a const pointer) bound to the map itself names the map
    alias = {}
    for x in walk(f):
        if x.get('kind') == 'VarDecl' and kids(x) and 'init' in x and x.get('storageClass') != 'static':
            t = (qtype(x) or '').rstrip()
            if not (t.endswith('&') or t.endswith('*const') or t.endswith('* const')):
                continue
            i_ = peel(kids(x)[-1])
            if i_ is not None and i_.get('kind') == 'UnaryOperator' and i_.get('opcode') == '*' and t.endswith('&'):
                i_ = peel(kids(i_)[0])
            if i_ is not None and i_.get('kind') == 'DeclRefExpr':
                d_ = u.by_id.get((i_.get('referencedDecl') or {}).get('id'))
                if d_ is not None and d_.get('kind') == 'VarDecl' and is_static_storage(d_) and is_cache_map(d_):
                    alias[x['id']] = d_
    for (i, name, node, w) in var_refs(f):
        d = u.by_id.get(i)
        if d is not None and is_static_storage(d) and is_cache_map(d):
            out.append((d, node))
        elif i in alias:
            out.append((alias[i], node))
    return out


def cache_helpers(G):
    """Internal-linkage functions that touch the name cache on behalf of their callers (and do not
    themselves reach the factory): fkey -> dict(map=decl, kinds=set of accesses made inside,
    returns_cache=does a return value derive from the cache)."""
    if hasattr(G, '_cache_helpers'):
        return G._cache_helpers
    H = {}
    G._cache_helpers = H
    changed = True
    while changed:
        changed = False
        for k, (u, f) in G.defs.items():
            if k in H or not is_internal(f):
                continue
            direct = _direct_cache_refs(u, f)
            via = [(t, site) for (kind, t, site) in G.edges.get(k, ()) if kind == 'direct' and t in H]
            if not direct and not via:
                continue
            if any(e[0] == 'indirect' and e[1] == FACTORY for r in G.reachable([k]) for e in G.edges.get(r, ())):
                continue
            kinds = set()
            for (d, node) in direct:
                acc = map_access(node)
                kinds.add(acc[0] if acc else 'other')
            for (t, site) in via:
                acc = map_access(site, G)
                kinds.add(acc[0] if acc else 'other')
            ids = set(d['id'] for (d, _) in direct)
            derived = set()
            for x in walk(f):
                if x.get('kind') == 'VarDecl' and 'init' in x and mentions_cache(G, u, kids(x)[-1], ids | derived):
                    derived.add(x['id'])
            # a local (or a member of a local pair / struct) assigned from the cache holds what the cache holds
            for x in walk(f):
                if x.get('kind') == 'BinaryOperator' and x.get('opcode') == '=' and mentions_cache(G, u, kids(x)[1], ids | derived):
                    root = peel(kids(x)[0])
                    while root is not None and root.get('kind') == 'MemberExpr' and kids(root):
                        root = peel(kids(root)[0])
                    if root is not None and root.get('kind') == 'DeclRefExpr' and (root.get('referencedDecl') or {}).get('kind') == 'VarDecl':
                        derived.add(root['referencedDecl'].get('id'))
            rets = [kids(x)[0] for x in walk(f) if x.get('kind') == 'ReturnStmt' and kids(x)]
            # pointer parameters through which only cache-derived values are handed back
            from ..frontend import params_of as _po
            out_cache = set()
            for pi_, p_ in enumerate(_po(f)):
                ws = [y for y in walk(f) if y.get('kind') == 'BinaryOperator' and y.get('opcode') == '=' and
                      peel(kids(y)[0]).get('kind') == 'UnaryOperator' and peel(kids(y)[0]).get('opcode') == '*' and
                      (peel(kids(peel(kids(y)[0]))[0]).get('referencedDecl') or {}).get('id') == p_['id']]
                if ws and all(mentions_cache(G, u, kids(y)[1], ids | derived) for y in ws):
                    out_cache.add(pi_)
            H[k] = dict(map=(direct[0][0] if direct else H[via[0][0]]['map']), kinds=kinds,
                        returns_cache=any(mentions_cache(G, u, r, ids | derived) for r in rets), out_cache=out_cache)
            changed = True
    return H


def call_targets(G, x):
    """Keys of the library functions a call expression resolves to (free functions and member functions alike)."""
    if G is None or x.get('kind') not in ('CallExpr', 'CXXMemberCallExpr', 'CXXOperatorCallExpr'):
        return ()
    c = callee(x)
    if not c:
        return ()
    if c[0] == 'fn' and c[1].get('_qn'):
        return tuple(G.resolve_decl(c[1]))
    if c[0] == 'method':
        d = x['_u'].by_id.get(c[3]) if c[3] else None
        return tuple(G.resolve_decl(d)) if d is not None and d.get('_qn') else ()
    return ()


def mentions_cache(G, u, e, ids):
    """Does expression e name the cache map, a local derived from it (ids), or call a helper
    whose result derives from the cache?"""
    H = cache_helpers(G) if G is not None else {}
    for x in walk(e):
        if x.get('kind') == 'DeclRefExpr' and (x.get('referencedDecl') or {}).get('id') in ids:
            return True
        if H and x.get('kind') in ('CallExpr', 'CXXMemberCallExpr'):
            for t in call_targets(G, x):
                if t in H and H[t]['returns_cache']:
                    return True
    return False


def cache_refs(u, f, G=None):
    """AST nodes in f that reference a static-storage string-keyed map: direct references and,
    when the call graph is given, call sites of internal helpers that access it."""
    out = _direct_cache_refs(u, f)
    if G is not None:
        H = cache_helpers(G)
        from ..callgraph import fkey
        for (kind, t, site) in G.edges.get(fkey(f), ()):
            if kind == 'direct' and t in H and not any(site is n for (_, n) in out):
                out.append((H[t]['map'], site))
    return out


def map_access(node, G=None):
    """Classify the innermost call that uses map reference `node` (a reference to the map, or the
    call site of a cache helper): ('read'|'write'|'erase', call ast) or None (null test, allocation, ...)."""
    for a in ancestors(node):
        k = a.get('kind')
        if k == 'CXXMemberCallExpr':
            c = callee(a)
            if c and c[0] == 'method':
                if c[1] in ('find', 'count', 'at', 'contains', 'equal_range'):
                    return ('read', a)
                if c[1] in ('emplace', 'insert', 'try_emplace', 'insert_or_assign'):
                    return ('write', a)
                if c[1] in ('erase', 'clear', 'extract'):
                    return ('erase', a)
            break
        if k == 'CXXOperatorCallExpr':
            c = callee(a)
            if c and c[0] == 'fn' and c[1].get('name') == 'operator[]':
                return ('write', a)     # operator[] inserts when absent
            break
        if k in ('BinaryOperator', 'DeclStmt', 'CompoundStmt', 'IfStmt', 'ReturnStmt'):
            break
    if G is not None and node.get('kind') in ('CallExpr', 'CXXMemberCallExpr'):
        H = cache_helpers(G)
        for t in call_targets(G, node):
            if t in H:
                for kind in ('erase', 'write', 'read'):
                    if kind in H[t]['kinds']:
                        return (kind, node)
    return None


def _is_string(t):
    t = (t or '').replace('const ', '').replace('&', '').strip()
    return t in ('std::string', 'string') or t.startswith('std::basic_string<char') or t.startswith('basic_string<char')


def _plain_name(u, f, e, depth=0):
    """'param' when e denotes a string parameter of f as it was passed in (directly, through a const local / reference
    copy of it, or through a member the constructor initialises from it); 'derived' when it is computed from strings
    (a call, a concatenation); None when not recognised."""
    x = peel(e, explicit=False)
    while x.get('kind') in ('MaterializeTemporaryExpr', 'CXXBindTemporaryExpr', 'ExprWithCleanups') and kids(x):
        x = peel(kids(x)[0], explicit=False)
    if x.get('kind') == 'CXXConstructExpr' and len(call_args(x)) == 1 and _is_string(dtype(x) or qtype(x)) and \
            _is_string(dtype(call_args(x)[0]) or qtype(call_args(x)[0])):
        return _plain_name(u, f, call_args(x)[0], depth)       # a copy
    if x.get('kind') == 'DeclRefExpr':
        rd = x.get('referencedDecl') or {}
        if rd.get('kind') == 'ParmVarDecl':
            written = any(y.get('kind') in ('CXXOperatorCallExpr', 'CXXMemberCallExpr', 'BinaryOperator') and
                          any((peel(l_, explicit=False).get('referencedDecl') or {}).get('id') == rd.get('id') for l_ in written_lvalues(y))
                          for y in walk(f))
            return None if written else 'param'
        d = u.by_id.get(rd.get('id'))
        if d is not None and d.get('kind') == 'VarDecl' and kids(d) and 'const' in (qtype(d) or '') and depth < 3:
            return _plain_name(u, f, kids(d)[-1], depth + 1)
        return None
    if x.get('kind') == 'MemberExpr' and kids(x) and peel(kids(x)[0], explicit=False).get('kind') == 'CXXThisExpr' and \
            f.get('kind') == 'CXXConstructorDecl' and depth < 3:
        for ci in f.get('inner') or []:
            if ci.get('kind') == 'CXXCtorInitializer' and (ci.get('anyInit') or {}).get('name') == x.get('name') and kids(ci):
                return _plain_name(u, f, kids(ci)[0], depth + 1)
        return None
    if x.get('kind') in ('CXXMemberCallExpr', 'CXXOperatorCallExpr', 'CallExpr'):
        return 'derived'
    return None


def _check_name_chain(ctx, G, steps, root, chain_txt, path, seen):
    started = False
    for i, (k, site) in enumerate(steps):
        u, f = G.defs[k]
        if not started and not cache_refs(u, f, G):
            continue
        started = True
        last = i == len(steps) - 1
        sid = (k, id(site))
        if sid in seen:
            continue
        seen.add(sid)
        # one load runs the factory once: no site between the cache and the factory sits in a loop
        loop_ = next((a for a in ancestors(site) if a.get('kind') in ('ForStmt', 'WhileStmt', 'DoStmt', 'CXXForRangeStmt')), None)
        if loop_ is not None and any(a is f for a in ancestors(loop_)):
            lam_ = next((a for a in ancestors(site) if a.get('kind') == 'LambdaExpr'), None)
            if lam_ is None or any(a is lam_ for a in ancestors(loop_)):
                ctx.bad('C20-once', '%s reaches the factory once per load' % fname(k), site,
                        'the step towards the factory (%s) sits inside a loop (%s): a single first load of a name can call the '
                        'factory more than once for it' % ('the factory call' if last else _site_callee(site), pos(loop_)),
                        construct='loop:%s' % fname(k), path=path)
            else:
                ctx.ok('C20-once', '%s reaches the factory once per load' % fname(k), site, 'not in a loop')
        else:
            ctx.ok('C20-once', '%s reaches the factory once per load' % fname(k), site, 'not in a loop')
        args = call_args(site)
        if site.get('kind') == 'CXXNewExpr':
            ce = [y for y in walk(site) if y.get('kind') == 'CXXConstructExpr']
            args = call_args(ce[0]) if ce else []
        names = [a for a in args if _is_string(dtype(a) or qtype(a))]
        if last:
            names = names[:1] if names else (args[:1])
        if not names:
            ctx.unknown('C20-name', 'name handed on by %s' % fname(k), site, 'no string argument at this site of the chain',
                        construct='name:%s' % fname(k))
            continue
        for a in names:
            v = _plain_name(u, f, a)
            what = 'the factory' if last else _site_callee(site)
            ctx.check3(None if v is None else v == 'param', 'C20-name', '%s hands its own name argument on to %s' % (fname(k), what), site,
                       '%s is given a string computed from the requested name (%s) instead of the name itself: the cache is keyed by '
                       'the requested name, so two requests that differ only in what is cut off reach the factory with one and the same '
                       'name, and names the fixed-offset test would have kept away from the factory reach it'
                       % (what, Keys(u).key(a)), construct='name:%s->%s' % (fname(k), what), path=path,
                       unknown_why='the argument %s is not recognisably the name parameter' % Keys(u).key(a))
        if last:
            # the tested string is the one handed over
            F = ctx.facts(f)
            tested = set()
            for (op, a_, b_) in (F.facts_at_ast(site) or ()):
                for side in (a_, b_):
                    m = re.match(r'^cctz::FixedOffsetFromName\((.*?),', side)
                    if m and op == '==' and 'n:0' in (a_, b_):
                        tested.add(m.group(1))
            if tested:
                ak = F.ident_key(names[0])
                ctx.check(ak in tested, 'C20-name', 'the factory in %s is given the string the fixed-offset test refused' % fname(k), site,
                          'the fixed-offset test was applied to %s but the factory is called with %s' % (sorted(tested), ak),
                          construct='name:tested:%s' % fname(k), path=path)


def run(ctx):
    G = ctx.G
    refs = factory_refs(ctx)
    if not refs:
        raise AnalysisBroken('C20: no reference to %s found in the library' % FACTORY)

    # ---- C20-sole: every reference is the callee of a call; chains are enumerated
    call_sites = []
    for (k, u, f, x) in refs:
        is_call = False
        for a in ancestors(x):
            if a.get('kind') == 'CallExpr':
                c = callee(a)
                if c and c[0] == 'indirect' and c[1] is x:
                    is_call = True
                    call_sites.append((k, u, f, a))
                break
            if a.get('kind') not in ('ImplicitCastExpr', 'ParenExpr'):
                break
        ctx.check(is_call, 'C20-sole', 'reference in %s' % fname(k), x,
                  'the factory pointer is read without being called here (it may escape and be '
                  'invoked outside the loader protocol)', construct='ref:%s' % fname(k),
                  detail='callee of a direct call')
    ctx.minimum('C20-sole', 1)

    roots = G.roots()
    chains = G.paths_to(roots, lambda k, e: e[0] == 'indirect' and e[1] == FACTORY)
    if not chains:
        raise AnalysisBroken('C20: no call chain reaches the factory call')
    ctx.stats['chains'] = len(chains)

    smutex_vars, smutex_fns = static_mutex_keys(ctx.P)

    def is_static_mutex_key(mk):
        if mk in smutex_fns:
            return True
        m = re.match(r'^(\w+)#(0x[0-9a-f]+)$', mk)
        return bool(m and m.group(2) in smutex_vars)

    seen_name_sites = set()
    for (steps, edge) in chains:
        chain_txt = ' -> '.join(fname(k) for (k, s) in steps)
        root = fname(steps[0][0])
        path = [dict(function=fname(k), site=pos(s)) for (k, s) in steps]

        # ---- C20-fixed: some site of the chain is reached only when the fixed-offset
        # test on the name has failed.
        fixed_ok = False
        for (k, site) in steps:
            u, f = G.defs[k]
            Ff_ = ctx.facts(f)
            fs = Ff_.facts_at_ast(site)
            for (op, a, b) in (fs or ()):
                a, b = Ff_.resolve_key(a), Ff_.resolve_key(b)      # (the result may have been named first)
                if op == '==' and b == 'n:0' and a.startswith('cctz::FixedOffsetFromName(') or \
                        op == '==' and a == 'n:0' and b.startswith('cctz::FixedOffsetFromName('):
                    fixed_ok = True
        ctx.check(fixed_ok, 'C20-fixed', 'chain from %s' % root, steps[-1][1],
                  'the factory call is reachable without the fixed-offset name test having failed: '
                  'UTC / Fixed/UTC names would consult the user factory',
                  construct='fixed:%s' % chain_txt, path=path,
                  detail='FixedOffsetFromName(name,..)==false holds on every path to a site of the chain')

        # ---- C20-name: from the function that owns the cache down to the factory, the name is handed on unchanged,
        # and the factory is given the very string the fixed-offset test was applied to
        _check_name_chain(ctx, G, steps, root, chain_txt, path, seen_name_sites)

        # ---- C20-serial: a static-storage mutex is held at some site of the chain
        held = []
        for (k, site) in steps:
            u, f = G.defs[k]
            lr = LockRegions(u, f)
            for (mk, g) in lr.held_at(site):
                if is_static_mutex_key(mk):
                    held.append((k, site, mk, g, lr))
        unlocked = [(k, s) for (k, s) in steps]
        first_unlocked = None
        # the site that should be covered: the earliest site of the chain inside the
        # function that owns the cache; report the site whose callee is not covered
        for (k, site) in steps:
            u, f = G.defs[k]
            if cache_refs(u, f, G):
                first_unlocked = (k, site)
                break
        rep = first_unlocked or steps[-1]
        callee_txt = _site_callee(rep[1])
        ctx.check(bool(held), 'C20-serial', 'chain from %s' % root, rep[1],
                  'no static-storage mutex is held at any call site of the chain %s: two threads '
                  'can be inside the user factory at the same time' % chain_txt,
                  construct='unlocked:%s->%s' % (fname(rep[0]), callee_txt), path=path,
                  detail='held: %s' % ', '.join(sorted(set(h[2] for h in held))))

        # ---- C20-once: lookup dominates / insert post-dominates inside one hold
        once_ok = False
        why = 'no function on the chain owns a name cache'
        for (k, site) in steps:
            u, f = G.defs[k]
            crefs = cache_refs(u, f, G)
            if not crefs:
                continue
            lr = LockRegions(u, f)
            g = ctx.cfg(f)
            dom = g.dominators()
            pdom = g.postdominators()
            snodes = g.nodes_for(site)
            if not snodes:
                why = 'call site not in CFG'
                continue
            why = ('in %s the load is not bracketed, inside one continuous hold of a static mutex, '
                   'by a cache lookup before it and a cache insertion after it: a second first-load '
                   'of the same name runs the factory again' % fname(k))
            for (mk, guard) in lr.held_at(site):
                if not is_static_mutex_key(mk):
                    continue
                reads, writes = [], []
                for (d, node) in crefs:
                    acc = map_access(node, G)
                    if acc is None:
                        continue
                    if not any(gg is guard for (_, gg) in lr.held_at(acc[1])) or not lr.same_epoch(site, acc[1], guard):
                        continue
                    (reads if acc[0] == 'read' else writes if acc[0] == 'write' else []).append(acc[1])
                r_ok = any(all(any(rn.id in dom[sn.id] for rn in g.nodes_for(r)) for sn in snodes)
                           for r in reads + writes)
                w_ok = any(all(sn.id in pdom and any(wn.id in pdom[sn.id] for wn in g.nodes_for(w))
                               for sn in snodes) for w in writes)
                if r_ok and w_ok:
                    once_ok = True
            # weaker protocol clause that holds with or without the continuous hold:
            # a locked cache lookup dominates the load and a locked cache insertion
            # post-dominates it (every load outcome is recorded; sequential repeat
            # loads never reach the factory).
            reads, writes = [], []
            for (d, node) in crefs:
                acc = map_access(node, G)
                if acc is None or not any(is_static_mutex_key(mk) for (mk, _) in lr.held_at(acc[1])):
                    continue
                (reads if acc[0] == 'read' else writes if acc[0] == 'write' else []).append(acc[1])
            # every path to the load passes a locked lookup, or an edge on which the
            # cache is known not to exist yet (map pointer == null)
            F = ctx.facts(f)
            mapkeys = set('%s#%s' % (d.get('name'), d.get('id')) for (d, _) in crefs)
            mapkeys |= set('%s#%s' % ((n_.get('referencedDecl') or {}).get('name'), (n_.get('referencedDecl') or {}).get('id'))
                           for (d, n_) in crefs if n_.get('kind') == 'DeclRefExpr')      # (locals bound to the map)
            cut_edges = []
            for n in g.live:
                if n.kind == 'cond':
                    for lab in ('T', 'F'):
                        for (op, a, b) in F.cond_facts(n.ast, lab == 'T'):
                            if op == '==' and ((a == 'null' and b in mapkeys) or (b == 'null' and a in mapkeys)):
                                cut_edges.append((n.id, lab))
            cut_nodes = [rn for r in reads + writes for rn in g.nodes_for(r)]
            r_ok = bool(reads + writes) and not g.reachable_avoiding(snodes, cut_nodes, cut_edges)
            w_ok = any(all(sn.id in pdom and any(wn.id in pdom[sn.id] for wn in g.nodes_for(w))
                           for sn in snodes) for w in writes)
            ctx.check(r_ok and w_ok, 'C20-record', 'chain from %s' % root, site,
                      'in %s the load is not preceded on every path by a locked cache lookup and '
                      'followed on every path by a locked cache insertion: an outcome is not '
                      'recorded, so a repeat load of that name runs the factory again' % fname(k),
                      construct='unrecorded:%s->%s' % (fname(k), _site_callee(site)), path=path,
                      detail='locked lookup dominates (%s), locked insertion post-dominates (%s)' % (r_ok, w_ok))
            break
        ctx.check(once_ok, 'C20-once', 'chain from %s' % root, rep[1], why,
                  construct='unbracketed:%s->%s' % (fname(rep[0]), callee_txt), path=path,
                  detail='lookup dominates and insertion post-dominates the load within one hold')
    ctx.minimum('C20-fixed', 1)
    ctx.minimum('C20-name', 3)
    # the fixed-offset test itself must accept every name the library generates for an offset
    from .c15 import check_bounds
    check_bounds(ctx, 'C20-fixed', exact=False)
    ctx.minimum('C20-serial', 1)
    ctx.minimum('C20-once', 2)
    ctx.minimum('C20-record', 1)

    # ---- the cache that records outcomes is one object for the whole process
    seen_maps = {}
    for k, (u, f) in G.defs.items():
        for (d, node) in _direct_cache_refs(u, f):
            seen_maps[d['id']] = d
    for d in seen_maps.values():
        ctx.check(not d.get('tls'), 'C20-once', 'name cache %s is shared by all threads' % qn(d), d,
                  'the name cache has thread storage duration: each thread keeps its own record of loaded names, so the '
                  'factory runs once per name per thread, not once per process', construct='cache-tls:%s' % qn(d),
                  detail='static storage duration, not thread_local')
    if not seen_maps:
        raise AnalysisBroken('C20-once: no name cache found')

    # ---- who may erase from the cache: only the documented test-only function
    for k, (u, f) in G.defs.items():
        for (d, node) in _direct_cache_refs(u, f):
            acc = map_access(node)
            if acc and acc[0] == 'erase':
                ctx.check(qn(f) == 'cctz::time_zone::Impl::ClearTimeZoneMapTestOnly', 'C20-once',
                          'cache erasure in %s' % fname(k), acc[1],
                          'entries are removed from the name cache outside ClearTimeZoneMapTestOnly: '
                          'a later load of the name would run the factory again',
                          construct='erase:%s' % fname(k),
                          detail='named exemption: private header, benchmark only, documented as forcing reloads')

    # ---- C20-thread
    n = 0
    for k, (u, f) in G.defs.items():
        effs = thread_effects(G, k, f)
        n += 1
        for (what, x) in effs:
            ctx.bad('C20-thread', '%s in %s' % (what, fname(k)), x,
                    'the library names a thread-creating facility; the factory is no longer '
                    'guaranteed to run on the thread that called load_time_zone',
                    construct='thread:%s:%s' % (fname(k), what))
    ctx.ok('C20-thread', 'no thread-creating facility named in %d library functions' % n, None,
           'deny-list: std::thread/jthread/async/packaged_task/future/promise, pthread_create, thrd_create')
    # positive control
    cp = control_program(['thread.cc'], std=ctx.P.std)
    cg = CallGraph(cp)
    fired = sum(len(thread_effects(cg, k, f)) for k, (u, f) in cg.defs.items())
    if fired < 2:
        raise AnalysisBroken('C20-thread positive control did not fire (%d)' % fired)
    ctx.ok('C20-thread', 'positive control controls/thread.cc fires (%d reports)' % fired, None, 'control')


def _site_callee(site):
    c = callee(site) if site.get('kind') in ('CallExpr', 'CXXMemberCallExpr', 'CXXConstructExpr',
                                              'CXXOperatorCallExpr', 'CXXTemporaryObjectExpr') else None
    if c is None:
        return site.get('kind', '?')
    if c[0] == 'fn':
        return qn(c[1])
    if c[0] == 'method':
        return c[1]
    if c[0] == 'ctor':
        return 'ctor ' + c[1]
    if c[0] == 'indirect':
        return '(indirect)'
    return '?'
