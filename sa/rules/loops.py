"""LOOP engine: every loop must match a terminating idiom; no induction variable may be
narrower than the bound it is compared with."""
import re
from ..frontend import kids, walk, qn, qtype, dtype, pos, ancestors, AnalysisBroken, control_program, params_of
from ..expr import callee, call_args, peel, Keys, Folder, int_type, type_range, written_lvalues
from ..callgraph import fname, CallGraph
from ..absint import AI, St, Int

LOOPS = ('ForStmt', 'WhileStmt', 'DoStmt', 'CXXForRangeStmt')


def _parts(s):
    return [c if isinstance(c, dict) and 'kind' in c else None for c in s.get('inner', [])]


def loop_parts(s):
    k = s.get('kind')
    p = _parts(s)
    if k == 'ForStmt':
        return dict(init=p[0], condvar=p[1], cond=p[2], inc=p[3], body=p[4])
    if k == 'WhileStmt':
        if s.get('hasVar'):
            return dict(init=None, condvar=p[0], cond=p[1], inc=None, body=p[2])
        return dict(init=None, condvar=None, cond=p[0], inc=None, body=p[1])
    if k == 'DoStmt':
        return dict(init=None, condvar=None, cond=p[1], inc=None, body=p[0])
    return dict(init=None, condvar=None, cond=None, inc=None, body=p[-1], range=p)


def _conjuncts(e):
    x = peel(e) if e is not None else None
    if x is None:
        return []
    if x.get('kind') == 'BinaryOperator' and x.get('opcode') == '&&':
        return _conjuncts(kids(x)[0]) + _conjuncts(kids(x)[1])
    return [x]


def _writes_in(node, keys):
    out = []
    if node is None:
        return out
    for x in walk(node):
        if x.get('kind') == 'LambdaExpr':
            continue
        if x.get('kind') in ('BinaryOperator', 'CompoundAssignOperator', 'UnaryOperator'):
            op = x.get('opcode', '')
            if op == '=' or (op.endswith('=') and op not in ('==', '!=', '<=', '>=')) or op in ('++', '--'):
                out.append((keys.key(kids(x)[0]), x))
        elif x.get('kind') in ('CallExpr', 'CXXMemberCallExpr', 'CXXOperatorCallExpr'):
            for lv in written_lvalues(x):
                if not any(a is not x and a.get('kind') in ('CallExpr', 'CXXMemberCallExpr', 'CXXOperatorCallExpr')
                           and any(d is lv for d in walk(a)) for a in walk(x) if a is not x):
                    out.append((keys.key(lv), x))
    return out


def counted_bound(u, s, keys):
    """For `for (T i = 0; i != N; ++i)` (or <) with i and N untouched in the body: N's AST."""
    if s.get('kind') != 'ForStmt':
        return None
    lp = loop_parts(s)
    c = peel(lp['cond']) if lp['cond'] is not None else None
    if c is None or c.get('kind') != 'BinaryOperator' or c.get('opcode') not in ('!=', '<'):
        return None
    a, b = kids(c)
    inc = peel(lp['inc']) if lp['inc'] is not None else None
    if inc is None or inc.get('kind') != 'UnaryOperator' or inc.get('opcode') != '++':
        return None
    ik = keys.key(kids(inc)[0])
    if keys.key(a) != ik:
        return None
    ws = _writes_in(lp['body'], keys)
    bk = keys.key(b)
    for (wk, x) in ws:
        if wk == ik or (wk and wk != '?' and _mentions(bk, wk)):
            return None
    # starts at 0
    init = lp['init']
    ok0 = False
    if init is not None:
        for x in walk(init):
            if x.get('kind') == 'VarDecl' and '%s#%s' % (x.get('name'), x.get('id')) == ik and kids(x) and keys.key(kids(x)[-1]) == 'n:0':
                ok0 = True
    return b if ok0 else None


RESIZING = {'reserve', 'resize', 'push_back', 'emplace', 'emplace_back', 'insert', 'assign', 'clear', 'shrink_to_fit',
            'append', 'erase', 'pop_back', 'swap'}


def _harmless_container_use(bound_key, written_key, node):
    """`c[i]`, `c.back()` ... inside a non-const method count as writes of c for the generic
    kill rule, but they cannot change c.size()."""
    if not bound_key.endswith('.size()') or bound_key[:-len('.size()')] != written_key:
        return False
    if node.get('kind') == 'CXXMemberCallExpr':
        c = callee(node)
        return bool(c and c[0] == 'method' and c[1] not in RESIZING)
    if node.get('kind') == 'CXXOperatorCallExpr':
        c = callee(node)
        return bool(c and c[0] == 'fn' and c[1].get('name') in ('operator[]',))
    return False


def _mentions(txt, k):
    i = txt.find(k)
    while i >= 0:
        j = i + len(k)
        before = txt[i - 1] if i > 0 else ' '
        after = txt[j] if j < len(txt) else ' '
        if not (before.isalnum() or before in '_#') and not (after.isalnum() or after in '_#'):
            return True
        i = txt.find(k, i + 1)
    return False


def _member_untouched_by_calls(ctx, u, f, loop, member, keys):
    """No call made from the loop can write the data member `member` of *this: the loop calls no non-const member
    function on this, and the lambdas it calls neither write the member nor call such functions."""
    from ..expr import _member_fn_type, _is_const_method
    mk = keys.key(member)
    seen = set()

    def scan(root, depth=0):
        for y in walk(root):
            if y.get('kind') == 'CXXMemberCallExpr' and callee(y) and callee(y)[0] == 'method' and callee(y)[2] is not None and \
                    peel(callee(y)[2], explicit=False).get('kind') == 'CXXThisExpr':
                if not _is_const_method(_member_fn_type(y, peel(kids(y)[0], explicit=False))):
                    return False
            if y.get('kind') == 'CXXOperatorCallExpr' and callee(y) and callee(y)[0] == 'fn' and callee(y)[1].get('name') == 'operator()' \
                    and depth < 2:
                for t in ctx.G.resolve_decl(callee(y)[1]):
                    if t in ctx.G.defs and id(ctx.G.defs[t][1]) not in seen:
                        lf = ctx.G.defs[t][1]
                        seen.add(id(lf))
                        from ..expr import Keys as _K
                        lk = _K(ctx.G.defs[t][0])
                        for z in walk(lf):
                            if z.get('kind') in ('BinaryOperator', 'CompoundAssignOperator', 'UnaryOperator'):
                                for lv in written_lvalues(z):
                                    if lk.key(lv) == mk:
                                        return False
                        if not scan(lf, depth + 1):
                            return False
        return True
    return scan(loop)


def classify(ctx, u, f, s, keys, fold):
    """Returns (idiom, detail, narrow) or (None, why, narrow)."""
    lp = loop_parts(s)
    body = lp['body']
    ws_body = _writes_in(body, keys)
    ws_inc = _writes_in(lp['inc'], keys) if lp.get('inc') is not None else []
    ws_cond = _writes_in(lp['cond'], keys) if lp.get('cond') is not None else []
    ws = ws_body + ws_inc + ws_cond
    narrow = None
    if s.get('kind') == 'CXXForRangeStmt':
        rng = lp['range']
        rdecl = rng[1] if len(rng) > 1 else None
        rk = None
        if rdecl is not None:
            for x in walk(rdecl):
                if x.get('kind') == 'VarDecl' and kids(x):
                    rk = keys.key(kids(x)[-1])
        for (wk, x) in ws_body:
            if rk and wk and _mentions(rk, wk) and x.get('kind') in ('CXXMemberCallExpr',):
                return (None, 'the range %s is modified inside the range-for' % rk, None)
        return ('range-for', 'finite range %s, not resized in the body' % (rk or '?')[:40], None)
    conj = _conjuncts(lp['cond'])
    # A/B: counted
    for c in conj:
        if c.get('kind') != 'BinaryOperator' or c.get('opcode') not in ('!=', '<', '<=', '>', '>='):
            continue
        a, b = kids(c)
        for (v, bound, flip) in ((a, b, False), (b, a, True)):
            vx = peel(v)
            member_counter = vx.get('kind') == 'MemberExpr' and kids(vx) and peel(kids(vx)[0], explicit=False).get('kind') == 'CXXThisExpr'
            if vx.get('kind') not in ('DeclRefExpr',) and not member_counter:
                continue
            if member_counter and not _member_untouched_by_calls(ctx, u, f, s, vx, keys):
                continue            # a call in the loop may write the member that counts
            vk = keys.key(vx) if member_counter else '%s#%s' % ((vx.get('referencedDecl') or {}).get('name'), (vx.get('referencedDecl') or {}).get('id'))
            steps = [(wk, x) for (wk, x) in ws if wk == vk or wk == keys.key(vx)]
            if not steps:
                continue
            bk = keys.key(bound)
            dirs = set()
            okstep = True
            for (wk, x) in steps:
                op = x.get('opcode')
                if op == '++':
                    dirs.add(1)
                elif op == '--':
                    dirs.add(-1)
                elif op in ('+=', '-=') and fold.fold(kids(x)[1]) not in (None, 0):
                    cval = fold.fold(kids(x)[1])
                    dirs.add((1 if cval > 0 else -1) * (1 if op == '+=' else -1))
                    if c.get('opcode') == '!=' and abs(cval) != 1:
                        okstep = False
                else:
                    okstep = False
            if not okstep or len(dirs) != 1:
                continue
            d = list(dirs)[0]
            bound_written = [wk for (wk, x) in ws if wk and wk != vk and wk != '?' and _mentions(bk, wk) and not bk.startswith('n:')
                             and not _harmless_container_use(bk, wk, x)]
            if bound_written:
                continue
            op = c.get('opcode')
            if flip:
                op = {'<': '>', '>': '<', '<=': '>=', '>=': '<=', '!=': '!='}[op]
            toward = (d == 1 and op in ('!=', '<', '<=')) or (d == -1 and op in ('!=', '>', '>='))
            if not toward:
                continue
            # every path through the body performs the step?  (for-inc always; body steps must post-dominate)
            if not any(x_ in [w[1] for w in ws_inc] for (_, x_) in steps) and s.get('kind') != 'ForStmt':
                if not _step_on_every_iteration(ctx, f, s, steps):
                    continue
            elif not any(x_ in [w[1] for w in ws_inc] for (_, x_) in steps):
                if not _step_on_every_iteration(ctx, f, s, steps):
                    continue
            # narrow?
            vt, bt = int_type(dtype(vx)), int_type(dtype(bound))
            if d == 1 and vt and bt and vt[0] < bt[0]:
                bv = fold.fold(bound)
                vmax = type_range(vt)[1]
                if bv is None or bv > vmax:
                    narrow = (vk, dtype(vx), bk, dtype(bound))
            return ('counted-%s' % ('up' if d == 1 else 'down'), '%s %s %s, step %+d' % (vk.split('#')[0], op, bk[:40], d), narrow)
    # C: cursor loops (pointer advanced every iteration, exit tested on the pointed-to character)
    ptr_steps = [(wk, x) for (wk, x) in ws if x.get('opcode') in ('++', '+=') and (dtype(kids(x)[0]) or '').rstrip().endswith('*')]
    if ptr_steps:
        pk = ptr_steps[0][0]
        tests = []
        for x in walk(s):
            if x.get('kind') == 'UnaryOperator' and x.get('opcode') == '*' and pk in keys.key(x):
                tests.append(x)
            if x.get('kind') == 'ArraySubscriptExpr' and keys.key(kids(x)[0]) == pk:
                tests.append(x)
        in_cond = [t for t in tests if any(a is lp['cond'] or a is lp.get('condvar') for a in ancestors(t)) or
                   (lp['cond'] is not None and any(y is t for y in walk(lp['cond']))) or
                   (lp.get('condvar') is not None and any(y is t for y in walk(lp['condvar'])))]
        exits_in_body = [x for x in walk(body) if x.get('kind') in ('BreakStmt', 'ReturnStmt')] if body is not None else []
        if (in_cond or exits_in_body) and tests:
            every = any(x_ in [w[1] for w in ws_inc + ws_cond] for (_, x_) in ptr_steps) or \
                _step_on_every_iteration(ctx, f, s, ptr_steps)
            if every:
                return ('cursor', '%s advances every iteration, exit on the character read' % pk.split('#')[0], None)
    # C2: the same scan written with an index: base[i] read and tested, i stepped every iteration, base not moved
    idx_steps = [(wk, x) for (wk, x) in ws if x.get('opcode') in ('++',) and int_type(dtype(kids(x)[0]) or '') and
                 peel(kids(x)[0]).get('kind') == 'DeclRefExpr']
    for (ik, stepx) in idx_steps:
        tests = []
        for x in walk(s):
            if x.get('kind') == 'ArraySubscriptExpr' and keys.key(kids(x)[1]) == ik and \
                    (dtype(kids(x)[0]) or qtype(kids(x)[0]) or '').replace('const', '').replace(' ', '').endswith('char*'):
                bk_ = keys.key(kids(x)[0])
                if not [wk for (wk, y) in ws if wk == bk_]:
                    tests.append(x)
        if not tests:
            continue
        in_cond = [t for t in tests if (lp['cond'] is not None and any(y is t for y in walk(lp['cond']))) or
                   (lp.get('condvar') is not None and any(y is t for y in walk(lp['condvar'])))]
        exits_in_body = [x for x in walk(body) if x.get('kind') in ('BreakStmt', 'ReturnStmt')] if body is not None else []
        if in_cond or exits_in_body:
            every = any(stepx is w[1] for w in ws_inc + ws_cond) or _step_on_every_iteration(ctx, f, s, [(ik, stepx)])
            if every:
                return ('cursor', '%s indexes the string further every iteration, exit on the character read' % ik.split('#')[0], None)
    # D1: for(;;) / while(true) with an equality break on a counter stepped once per iteration
    cond_true = lp['cond'] is None or fold.fold(lp['cond']) not in (None, 0)
    if cond_true and body is not None:
        F = ctx.facts(f)
        for x in walk(body):
            if x.get('kind') != 'BreakStmt' or _innermost_loop(x) is not s:
                continue
            fs = F.facts_at_ast(x) or frozenset()
            for (op, a, b) in fs:
                if op != '==':
                    continue
                for (ik, lim) in ((a, b), (b, a)):
                    steps = [(wk, y) for (wk, y) in ws if wk == ik]
                    if not steps or any(y.get('opcode') != '++' for (_, y) in steps):
                        continue
                    if [wk for (wk, y) in ws if wk == lim or (wk and wk != '?' and not lim.startswith('n:') and _mentions(lim, wk) and wk != ik)]:
                        continue
                    in_inc = all(any(y is w[1] for w in ws_inc) for (_, y) in steps)
                    if in_inc or _step_on_every_iteration(ctx, f, s, steps):
                        return ('counted-break', '%s++ until == %s' % (ik.split('.')[-1], lim.split('#')[0]), None)
    # D2: for(;;) { n = f(); if (d <= n) break; d -= n; }  with n >= 1
    if body is not None:
        for x in walk(body):
            if x.get('kind') == 'CompoundAssignOperator' and x.get('opcode') == '-=' and _innermost_loop(x) is s:
                dk, nk = keys.key(kids(x)[0]), keys.key(kids(x)[1])
                F = ctx.facts(f)
                fs = F.facts_at_ast(x) or frozenset()
                guard = any(op == '<' and a == nk and b == dk for (op, a, b) in fs)
                lo = _lower_bound_of_local(ctx, u, f, kids(x)[1])
                only = [wk for (wk, y) in ws if wk == dk and y is not x]
                if guard and lo is not None and lo >= 1 and not only and _step_on_every_iteration(ctx, f, s, [(dk, x)]):
                    return ('decreasing', '%s -= %s while %s > %s, %s >= %d' % (dk.split('#')[0], nk.split('#')[0], dk.split('#')[0], nk.split('#')[0], nk.split('#')[0], lo), None)
    # F: source-read loop with EOF exit
    if lp['cond'] is not None:
        for c in conj:
            if c.get('kind') == 'BinaryOperator' and c.get('opcode') == '!=':
                a, b = kids(c)
                vx = peel(a)
                if vx.get('kind') == 'DeclRefExpr':
                    vk = keys.key(vx)
                    re_assign = [x for (wk, x) in ws_inc + ws_body if wk == vk and x.get('kind') == 'BinaryOperator' and x.get('opcode') == '='
                                 and any(y.get('kind') in ('CallExpr', 'CXXOperatorCallExpr', 'CXXMemberCallExpr') for y in walk(kids(x)[1]))]
                    if re_assign and body is not None:
                        F = ctx.facts(f)
                        for x in walk(body):
                            if x.get('kind') in ('ReturnStmt', 'BreakStmt'):
                                fs = F.facts_at_ast(x) or frozenset()
                                if any(op == '==' and set((p, q)) == set((vk, 'n:-1')) for (op, p, q) in fs):
                                    return ('source-read', '%s re-read each iteration, exits on the sentinel and on EOF' % vk.split('#')[0], None)
    # F2: every iteration reads a fresh value from a call into a local declared in the body, and leaves the loop
    # when that value is the end-of-data sentinel (-1): the source is finite
    if body is not None:
        F = ctx.facts(f)
        for d in walk(body):
            if d.get('kind') == 'VarDecl' and kids(d) and _innermost_loop(d) is s and \
                    any(y.get('kind') in ('CallExpr', 'CXXMemberCallExpr', 'CXXOperatorCallExpr') for y in walk(kids(d)[-1])):
                vk = '%s#%s' % (d.get('name'), d.get('id'))
                if not _step_on_every_iteration(ctx, f, s, [(vk, d)]):
                    continue
                for x in walk(body):
                    if x.get('kind') in ('ReturnStmt', 'BreakStmt') and (x.get('kind') == 'ReturnStmt' or _innermost_loop(x) is s):
                        fs = F.facts_at_ast(x) or frozenset()
                        if any(op == '==' and set((p, q)) == set((vk, 'n:-1')) for (op, p, q) in fs):
                            return ('source-read', '%s read afresh each iteration, leaves on EOF' % vk.split('#')[0], None)
    return (None, 'no terminating idiom recognised', None)


def _innermost_loop(x):
    for a in ancestors(x):
        if a.get('kind') in LOOPS:
            return a
        if a.get('kind') == 'SwitchStmt':
            return None         # the break leaves the switch, not a loop
    return None


class _RetObs(object):
    pass


def _chain_returns(ctx):
    """Return-value intervals per call site over the whole civil normalisation chain
    entered with unconstrained arguments (same entry states as C04-range)."""
    if hasattr(ctx, '_chain_rets'):
        return ctx._chain_rets
    from ..absint import Observer, vjoin
    G = ctx.G

    class O(Observer):
        def __init__(self):
            self.rets = {}

        def returned(self, ai, site, fkey, val, st):
            cur = self.rets.get(id(site))
            self.rets[id(site)] = val if cur is None else vjoin(cur, val)
    o = O()
    ai = AI(G, o)
    I64 = Int(-2 ** 63, 2 ** 63 - 1)
    k = G.one('cctz::detail::impl::n_sec')
    cu, cf = G.defs[k]
    st = St()
    for p in params_of(cf):
        st.mem[(p['id'],)] = I64
    ai.analyse(k, st)
    for key in G.find('cctz::detail::step'):
        cu, cf = G.defs[key]
        ps = params_of(cf)
        st = St()
        for fld, rg in (('y', None), ('m', (1, 12)), ('d', (1, 31)), ('hh', (0, 23)), ('mm', (0, 59)), ('ss', (0, 59))):
            st.mem[(ps[1]['id'], fld)] = I64 if rg is None else Int(rg[0], rg[1])
        st.mem[(ps[2]['id'],)] = I64
        ai.analyse(key, st)
    ctx._chain_rets = o.rets
    return o.rets


def _lower_bound_of_local(ctx, u, f, e):
    """Lower bound of a local initialised from a call of a pure /repo function (any arguments)."""
    x = peel(e)
    if x.get('kind') != 'DeclRefExpr':
        return None
    d = u.by_id.get((x.get('referencedDecl') or {}).get('id'))
    if d is None or not kids(d):
        return None
    # every definition of the local: its initialiser and plain assignments to it
    defs = [peel(kids(d)[-1])]
    for y in walk(f):
        if y.get('kind') == 'BinaryOperator' and y.get('opcode') == '=' and \
                (peel(kids(y)[0]).get('referencedDecl') or {}).get('id') == d['id']:
            defs.append(peel(kids(y)[1]))
        elif y.get('kind') in ('CompoundAssignOperator', 'UnaryOperator') and y.get('opcode') in ('+=', '-=', '*=', '/=', '++', '--') and \
                (peel(kids(y)[0]).get('referencedDecl') or {}).get('id') == d['id']:
            return None
    los = [_lower_bound_of_call(ctx, u, f, init) for init in defs]
    if any(v is None for v in los):
        return None
    return min(los)


def _lower_bound_of_call(ctx, u, f, init):
    if init.get('kind') != 'CallExpr' or not callee(init) or callee(init)[0] != 'fn':
        return None
    tg = ctx.G.resolve_decl(callee(init)[1])
    if len(tg) != 1:
        return None
    if qn(f).startswith('cctz::detail::impl::'):
        v = _chain_returns(ctx).get(id(init))
        if isinstance(v, Int):
            return v.lo
    cu, cf = ctx.G.defs[tg[0]]
    ai = AI(ctx.G)
    st = St()
    for p in params_of(cf):
        r = type_range(int_type(dtype(p))) if int_type(dtype(p)) else None
        if r is None:
            return None
        st.mem[(p['id'],)] = Int(r[0], r[1])
        # month parameters are documented normalised; the bound must hold for any value anyway
    res = ai.analyse(tg[0], st)
    lo = None
    for (v, s) in res or ():
        if not isinstance(v, Int):
            return None
        lo = v.lo if lo is None else min(lo, v.lo)
    return lo


def _step_on_every_iteration(ctx, f, s, steps):
    """Every path from the loop body start back to the loop head passes a step node."""
    g = ctx.cfg(f)
    head = [n for n in g.live if n.kind == 'loop' and n.ast is s]
    if not head:
        return False
    head = head[0]
    cut = set()
    for (_, x) in steps:
        for n in g.nodes_for(x):
            cut.add(n.id)
    # nodes inside the loop reachable from head without passing a step; do we get back to head?
    # a way round the step is harmless when it ends the loop: the test just taken refutes a conjunct of the loop condition
    # and nothing but joins lies between it and the loop head (while (!found && i != n) { ...; if (!found) ++i; })
    F = ctx.facts(f)
    lp = loop_parts(s)
    neg = set()
    if lp.get('cond') is not None:
        for c in _conjuncts(lp['cond']):
            truth = False
            pc = peel(c)
            while pc is not None and pc.get('kind') == 'UnaryOperator' and pc.get('opcode') == '!':
                truth = not truth
                pc = peel(kids(pc)[0])
            for fa in F.cond_facts(pc if pc is not None else c, truth):
                neg.add(fa)

    def only_joins_to_head(m):
        seen_ = set()
        st_ = [m]
        while st_:
            x_ = st_.pop()
            if x_ is head:
                continue
            if x_.id in seen_:
                continue
            seen_.add(x_.id)
            if x_.kind not in ('join',):
                return False
            st_.extend(y_ for (y_, _) in x_.succs)
        return True
    seen = set()
    stack = [m for (m, _) in head.succs]
    while stack:
        n = stack.pop()
        if n.id in seen or n.id in cut:
            continue
        seen.add(n.id)
        if n is head:
            return False
        if n.ast is not None and not any(a is s for a in ancestors(n.ast)) and n.ast is not s and n.kind in ('stmt', 'cond'):
            continue        # left the loop
        for (m, lab) in n.succs:
            if n.kind == 'cond' and lab in ('T', 'F') and neg and n.ast is not None and \
                    any(fa in neg for fa in F.cond_facts(n.ast, lab == 'T')) and only_joins_to_head(m):
                continue        # the loop condition is false on arrival: this iteration was the last
            stack.append(m)
    return True


def loops_in(f):
    out = []
    for x in walk(f):
        if x.get('kind') == 'LambdaExpr':
            continue
        if x.get('kind') in LOOPS:
            out.append(x)
    return out


def check_loops(ctx, rule, narrow_rule, fkeys):
    G = ctx.G
    for k in fkeys:
        u, f = G.defs[k]
        keys = Keys(u)
        fold = Folder(u)
        for s in loops_in(f):
            from ..frontend import enclosing_function
            if enclosing_function(s) is not f and (enclosing_function(s) or {}).get('kind') != 'LambdaExpr':
                pass
            idiom, detail, narrow = classify(ctx, u, f, s, keys, fold)
            ctx.check(idiom is not None, rule, 'loop at %s in %s terminates (%s)' % (pos(s), fname(k), idiom or '?'), s,
                      'the loop matches no terminating idiom (%s): a crafted input may keep it running forever' % detail,
                      construct='loop:%s:%s' % (fname(k), _loop_ordinal(f, s)), detail=detail)


def _loop_ordinal(f, s):
    for i, x in enumerate(loops_in(f)):
        if x is s:
            return i
    return -1


def narrow_findings(ctx, G):
    out = []
    n = 0
    for k, (u, f) in sorted(G.defs.items()):
        keys = Keys(u)
        fold = Folder(u)
        for s in loops_in(f):
            n += 1
            idiom, detail, narrow = classify(ctx, u, f, s, keys, fold)
            if narrow:
                out.append((k, s, narrow))
    return out, n


def check_narrow_all(ctx, rule):
    found, n = narrow_findings(ctx, ctx.G)
    for (k, s, nw) in found:
        ctx.bad(rule, 'loop at %s in %s: %s (%s) counted up to %s (%s)' % (pos(s), fname(k), nw[0].split('#')[0], nw[1], nw[2][:30], nw[3]),
                s, 'the induction variable is narrower than the bound it is compared with: when the bound exceeds %s\'s '
                'range the variable wraps and the loop never ends' % nw[1], construct='narrow:%s:%s' % (fname(k), nw[0].split('#')[0]))
    ctx.ok(rule, 'no loop among %d compares a narrow induction variable with a wider bound' % n, None, 'whole library')
    cp = control_program(['narrow.cc'], std=ctx.P.std)
    cg = CallGraph(cp)
    from ..core import Ctx
    cctx = Ctx(ctx.prop, ctx.tier, cp, cg)
    cf, _ = narrow_findings(cctx, cg)
    if len(cf) < 1:
        raise AnalysisBroken('%s positive control did not fire' % rule)
    ctx.ok(rule, 'positive control controls/narrow.cc fires (%d)' % len(cf), None, 'control')
