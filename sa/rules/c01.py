"""C01 — instant -> civil follows the TZif data (calendar-constant, search-shape and footer-consumer clauses)."""
import re
from ..frontend import kids, walk, qn, qtype, dtype, pos, ancestors, AnalysisBroken, params_of
from ..expr import callee, call_args, peel, Keys, Folder
from ..callgraph import fname
from ..table import one_var, table_of
from ..ptrnorm import PtrNorm, build_env, PtrFlow
from ..absint import AI, Observer, St, Int
from .tables import check_month_tables, check_weekday_switches
from .c14 import _comparator_field
from . import c12

EXPLANATION = (
    'Clauses of the instant->civil conversion that are visible in the shape of the code. C01-cal: '
    'the time-zone module\'s calendar constants agree with each other and with the Gregorian rule '
    '(month offsets are prefix sums of the month lengths, leap row = common row + [m>2], 365/366, '
    'seconds per day/year/400 years = 86400 x days, 146097 = 400*365+97) and IsLeap is the same '
    'predicate as the civil-time header\'s is_leap_year, in the Gregorian form. C01-wday: the '
    'weekday->POSIX switch is exhaustive with Sunday=0..Saturday=6. C01-search: BreakTime answers '
    'with the default type exactly for instants strictly before the first transition, selects the '
    'predecessor of std::upper_bound by unix_time over the whole table (the latest transition at or '
    'before t), and beyond an extended table shifts back by a positive multiple of 400 years using '
    'one shift count for both the seconds subtracted and the years added back, the count and its '
    'two products being held in types wide enough for instants up to time_point::max(). C01-sentinel: '
    'the two entries the loader adds to the table change nothing (the one in front carries the '
    'before-first-transition type; the one appended carries the type of the entry that was last '
    'when it was read, before the insertion). C01-rule: the '
    'generated DST-start transition uses the dst_start rule converted with the standard offset and '
    'the DST type, the DST-end transition the dst_end rule with the DST offset and the standard '
    'type; each transition\'s previous civil second is computed with the type in force before it. '
    'C01-days: abstract interpretation of the rule-date evaluation on specification-chosen input '
    'partitions shows that Jn skips 29 February, n is the zero-based day, and Mm.w.d lands inside '
    'month m (first four weeks / last seven days) for both year lengths. C01-default: the '
    'before-first-transition type is type 0 unless some transition was seen to use type 0. '
    'C01-footer: with the field ranges the footer parser admits, every table subscript of the rule '
    'expander is in bounds. C01-decode: each signed big-endian decoder the loader calls, interpreted '
    'abstractly on N unknown bytes, returns exactly the N-byte two\'s-complement range (sign '
    'extension of 4-byte transition times and offsets). Does not decide the rule arithmetic of '
    'TransOffset or the values produced.')
LEVEL = ('Exhaustive constant-table agreement plus structural proof of the search/shift/rule pairing clauses; the '
         'conversion values themselves are value semantics and not decided statically.')
LEVEL_NOTE = 'Trusts clang 14 AST and sa/; std::upper_bound semantics assumed.'
TECHNIQUE = 'constant-table relations + sibling/pairing checks by canonical keys + must-hold branch facts + interval analysis of subscripts'


def _ret_key(u, f):
    rets = [x for x in walk(f) if x.get('kind') == 'ReturnStmt']
    if len(rets) != 1:
        return None
    K = Keys(u)
    k = K.key(kids(rets[0])[0])
    p = params_of(f)[0]
    return k.replace('%s#%s' % (p['name'], p['id']), 'Y')


def _type_designator(u, raw, e):
    """What transition type an expression of type TransitionType denotes: ('var', decl id, 'ptr'|'idx') for *P /
    transition_types_[I] with P / I a local, ('own', key of the entry) for transition_types_[<entry>.type_index],
    ('default',) for transition_types_[default_transition_type_], None otherwise."""
    x = peel(e, explicit=False)
    while x is not None and x.get('kind') in ('MaterializeTemporaryExpr', 'CXXBindTemporaryExpr') and kids(x):
        x = peel(kids(x)[0], explicit=False)
    if x is None:
        return None
    if x.get('kind') == 'UnaryOperator' and x.get('opcode') == '*':
        p_ = peel(kids(x)[0])
        if p_.get('kind') == 'DeclRefExpr':
            return ('var', (p_.get('referencedDecl') or {}).get('id'), 'ptr')
        return None
    idx = None
    if x.get('kind') == 'CXXOperatorCallExpr' and callee(x) and callee(x)[0] == 'fn' and callee(x)[1].get('name') == 'operator[]':
        a_ = call_args(x)
        if raw.key(a_[0]).endswith('transition_types_'):
            idx = a_[1]
    elif x.get('kind') == 'ArraySubscriptExpr' and raw.key(kids(x)[0]).endswith('transition_types_'):
        idx = kids(x)[1]
    if idx is None:
        return None
    ik = raw.key(idx)
    pi = peel(idx)
    if pi.get('kind') == 'DeclRefExpr' and (pi.get('referencedDecl') or {}).get('kind') == 'VarDecl':
        return ('var', (pi.get('referencedDecl') or {}).get('id'), 'idx')
    if ik.endswith('.type_index'):
        return ('own', ik[:-len('.type_index')])
    if ik.endswith('default_transition_type_'):
        return ('default',)
    return None


def _civil_types(u, f, g, dom, raw, prev, cur, fk=None):
    if len(prev) != 1 or len(cur) != 1:
        return None, 'found %d / %d assignments of prev_civil_sec / civil_sec in Load' % (len(prev), len(cur))
    pk, ck = raw.key(call_args(prev[0])[0]), raw.key(call_args(cur[0])[0])
    entry = pk[:-len('.prev_civil_sec')]
    if ck != entry + '.civil_sec':
        return None, 'the two assignments are not to one entry (%s, %s)' % (pk, ck)
    if not raw.key(call_args(prev[0])[1]).endswith(' - n:1)'):
        return False, 'prev_civil_sec is not one second before the civil time under the earlier type'

    def lt_type(x):
        calls = [y for y in walk(call_args(x)[1]) if y.get('kind') == 'CXXMemberCallExpr' and callee(y) and callee(y)[1] == 'LocalTime']
        if len(calls) != 1 or len(call_args(calls[0])) != 2:
            return None, None
        # (the instant may be named through a snapshot local: keyed as the fact engine keys it)
        return _type_designator(u, raw, call_args(calls[0])[1]), (fk or raw).key(call_args(calls[0])[0])
    tp, up_ = lt_type(prev[0])
    tc, uc_ = lt_type(cur[0])
    if tp is None or tc is None:
        return None, 'the type handed to LocalTime is not of a recognised form'
    if up_ != entry + '.unix_time' or uc_ != entry + '.unix_time':
        return False, 'LocalTime is not applied to the instant of the entry being filled in (%s, %s)' % (up_, uc_)
    if tp[0] != 'var':
        return False, 'prev_civil_sec is computed with %s, not with the type carried over from the entry before' % (tp,)
    vid, kind = tp[1], tp[2]
    d = u.by_id.get(vid)
    if d is None or d.get('kind') != 'VarDecl' or not kids(d):
        return None, 'the carried type is not a local with an initialiser'
    ik = raw.key(kids(d)[-1])
    want0 = '&(this.transition_types_[this.default_transition_type_])' if kind == 'ptr' else 'this.default_transition_type_'
    if re.sub(r'^cast<[^>]*>\((.*)\)$', r'\1', ik) != want0 and ik != want0:
        return False, 'the type in force before the first entry is %s, not the default type' % ik
    ws = [y for y in walk(f) if y.get('kind') == 'BinaryOperator' and y.get('opcode') == '=' and
          (peel(kids(y)[0]).get('referencedDecl') or {}).get('id') == vid]
    if len(ws) != 1:
        return None, 'the carried type is assigned %d times' % len(ws)
    wk = raw.key(kids(ws[0])[1])
    want1 = '&(this.transition_types_[%s.type_index])' % entry if kind == 'ptr' else '%s.type_index' % entry
    if re.sub(r'^cast<[^>]*>\((.*)\)$', r'\1', wk) != want1 and wk != want1:
        return False, 'the carried type is updated to %s, not to the type of the entry just filled in' % wk
    pn, wn, cn = g.nodes_for(prev[0]), g.nodes_for(ws[0]), g.nodes_for(cur[0])
    if not (pn and wn and cn):
        return None, 'assignments not located in the flow graph'
    if not any(a.id in dom[b.id] for a in pn for b in wn):
        return False, 'the carried type is updated before prev_civil_sec has been computed with it'
    if tc[0] == 'own':
        if tc[1] != entry:
            return False, 'civil_sec is computed with the type of %s' % tc[1]
    elif tc[0] == 'var' and tc[1] == vid:
        if not any(a.id in dom[b.id] for a in wn for b in cn):
            return False, 'civil_sec is computed with the carried type before it has been updated to the entry\'s own type'
    else:
        return False, 'civil_sec is computed with %s, not with the entry\'s own type' % (tc,)
    return True, ''


def _shift_width(ctx, rule, u, f, shift_decl, K):
    # width: elapsed < 2^63, so the count reaches (2^63-1)/cycle + 1 (about 7.3e8): every product of the count is
    # evaluated in a type that holds count_max * factor, and the count itself is stored without loss
    from ..expr import type_range
    cmax = (2 ** 63 - 1) // K + 1
    fold = Folder(u)
    nprod = 0
    for x in walk(f):
        if x.get('kind') != 'BinaryOperator' or x.get('opcode') != '*':
            continue
        ops = [peel(o, explicit=True) for o in kids(x)]
        idx = [i for i, o in enumerate(ops) if o.get('kind') == 'DeclRefExpr' and (o.get('referencedDecl') or {}).get('id') == shift_decl['id']]
        if len(idx) != 1:
            continue
        c = fold.fold(kids(x)[1 - idx[0]])
        if c is None:
            continue
        nprod += 1
        need = min(cmax * abs(c), 2 ** 63 - 1)
        r = type_range(dtype(x) or qtype(x))
        ctx.check(r is not None and r[0] <= -need and need <= r[1], rule,
                  'shift count * %d is evaluated in a type that holds %d' % (c, need), x,
                  'the shift count reaches %d for instants near time_point::max(); its product with %d is evaluated in %s, '
                  'which overflows: the civil year (or the instant stepped back) is wrong for far-future instants'
                  % (cmax, c, dtype(x) or qtype(x)), construct='shift:width:%d' % c)
    r = type_range(dtype(shift_decl) or qtype(shift_decl))
    casts = [y for y in walk(kids(shift_decl)[-1]) if y.get('kind') in ('ImplicitCastExpr', 'CXXStaticCastExpr', 'CStyleCastExpr', 'CXXFunctionalCastExpr')
             and y.get('castKind') == 'IntegralCast']
    narrow = [y for y in casts if (type_range(dtype(y) or qtype(y)) or (0, 0))[1] < cmax]
    ctx.check(r is not None and r[1] >= cmax and not narrow, rule, 'shift count stored without loss (up to %d)' % cmax, shift_decl,
              'the shift count reaches %d but is stored in / cast to %s' % (cmax, (dtype(narrow[0]) if narrow else dtype(shift_decl))),
              construct='shift:width:count')
    ctx.check(nprod >= 2, rule, 'both products of the shift count found', shift_decl, 'found %d' % nprod, construct='shift:width:n')


class _DecObs(Observer):
    def __init__(self):
        self.offs = []
        self.unknown = []
        self.stores = []

    def load(self, ai, e, ptr, extent, st):
        if ptr.target[:1] == ('symbuf',):
            (self.offs if ptr.off is not None else self.unknown).append(ptr.off)

    def store(self, ai, e, ptr, extent, st):
        self.stores.append(e)


def check_decode(ctx, rule):
    """Every signed big-endian decoder the loader calls returns, for the N bytes it reads, exactly the N-byte
    two's-complement range: abstract interpretation of the decoder on N unknown bytes.  A decoder whose range has
    no negative half reads every pre-1970 transition time (4-byte data block) or negative offset as a large
    positive number."""
    import itertools
    G = ctx.G
    k0 = G.one('cctz::TimeZoneInfo::Load', 'ZoneInfoSource')
    u0, f0 = G.defs[k0]
    seen = set()
    for x in walk(f0):
        if x.get('kind') != 'CallExpr':
            continue
        c = callee(x)
        if not c or c[0] != 'fn':
            continue
        for k in G.resolve_decl(c[1]):
            if k in seen or k not in G.defs:
                continue
            seen.add(k)
            u, f = G.defs[k]
            ps = params_of(f)
            ret = qtype(f).split('(')[0].strip()
            if not ps or 'const char *' not in qtype(ps[0]) or not re.search(r'\bint', ret) or \
                    re.search(r'unsigned|uint|size_t|\*|&', ret):
                continue
            extra = ps[1:]
            if any(not re.search(r'int|size_t|long|short', qtype(p)) for p in extra):
                ctx.unknown(rule, 'decoder %s' % qn(f), f, 'a parameter besides the byte pointer is not an integer width')
                continue
            for vals in itertools.product((4, 8), repeat=len(extra)):
                inst = '%s(%s)' % (qn(f), ', '.join(['p'] + [str(v) for v in vals]))
                obs = _DecObs()
                ai = AI(G, obs, unroll=lambda f_: True, unroll_cap=64)
                ai.step_budget = 3000      # (a decoder is a few dozen steps; a form the engine cannot unroll ends as not followed)
                st = St()
                st.mem[(ps[0]['id'],)] = c12.Ptr(False, ('symbuf', qn(f)), Int(0, 0))
                for p, v in zip(extra, vals):
                    st.mem[(p['id'],)] = Int(v, v)
                try:
                    res = ai.analyse(k, st)
                except AnalysisBroken:
                    res = None
                rv = [r[0] for r in (res or [])]
                ctx.note('C01-decode: %s took %d abstract steps' % (inst, ai.stats['steps']))
                if not res or obs.unknown or obs.stores or not obs.offs or any(not isinstance(r, Int) for r in rv):
                    ctx.unknown(rule, inst, f, 'the decoder body is not followed by the interval engine')
                    continue
                covered = set()
                for o in obs.offs:
                    covered.update(range(o.lo, o.hi + 1))
                n = max(covered) + 1
                if covered != set(range(n)) or n > 8:
                    ctx.unknown(rule, inst, f, 'reads bytes %s of its argument, not one block' % sorted(covered))
                    continue
                lo, hi = min(r.lo for r in rv), max(r.hi for r in rv)
                ctx.check((lo, hi) == (-(1 << (8 * n - 1)), (1 << (8 * n - 1)) - 1), rule,
                          '%s decodes %d bytes as a two\'s-complement value' % (inst, n), f,
                          'the decoder reads %d bytes MSB first but its results span [%s,%s], not the signed %d-bit range: '
                          'values with the top bit set (transition times before 1970 in a 4-byte data block, negative '
                          'offsets) are not sign-extended' % (n, lo, hi, 8 * n), construct='decode:' + qn(f),
                          detail='result range [%s,%s] over %d unknown bytes' % (lo, hi, n))


def check_shift_width(ctx, rule):
    """The width clause of the 400-year shift of BreakTime, on its own (C10 reports it as its own clause)."""
    u, d = one_var(ctx.P, 'cctz::kSecsPer400Years')
    K = Folder(u).fold(kids(d)[-1])
    u, f = ctx.fn('cctz::TimeZoneInfo::BreakTime')
    C400 = 'n:%d' % K
    shift = [x for x in walk(f) if x.get('kind') == 'VarDecl' and kids(x) and Keys(u).key(kids(x)[-1]).endswith('/ %s) + n:1)' % C400)]
    if len(shift) != 1:
        ctx.unknown(rule, 'shift count of BreakTime', f, 'the declaration of the 400-year shift count (elapsed / cycle + 1) was not found',
                    construct='shift:count')
        return
    _shift_width(ctx, rule, u, f, shift[0], K)


def run(ctx):
    G = ctx.G
    # ---- C01-cal
    check_month_tables(ctx, 'C01-cal', civil=False, tz=True)
    fo = None
    vals = {}
    for nm in ('kSecsPerDay', 'kSecsPer400Years'):
        u, d = one_var(ctx.P, 'cctz::' + nm)
        vals[nm] = Folder(u).fold(kids(d)[-1])
    u, d = one_var(ctx.P, 'cctz::kSecsPerYear')
    spy = table_of(u, d)[0]
    u2, d2 = one_var(ctx.P, 'cctz::kDaysPerYear')
    dpy = table_of(u2, d2)[0]
    ctx.check(vals['kSecsPerDay'] == 24 * 60 * 60, 'C01-cal', 'kSecsPerDay == 24*60*60', d, 'seconds per day is %s' % vals['kSecsPerDay'],
              construct='kSecsPerDay')
    ctx.check(spy == [x * vals['kSecsPerDay'] for x in dpy], 'C01-cal', 'kSecsPerYear[i] == kDaysPerYear[i] * kSecsPerDay', d,
              'seconds per year %s disagree with days per year %s' % (spy, dpy), construct='kSecsPerYear')
    ctx.check(vals['kSecsPer400Years'] == (400 * 365 + 97) * vals['kSecsPerDay'], 'C01-cal',
              'kSecsPer400Years == (400*365+97) days', d, 'the 400-year cycle is %s s, not 146097 days' % vals['kSecsPer400Years'],
              construct='kSecsPer400Years')
    u1, f1 = ctx.fn('cctz::IsLeap')
    u2, f2 = ctx.fn('cctz::detail::impl::is_leap_year')
    k1, k2 = _ret_key(u1, f1), _ret_key(u2, f2)
    canon = '(((Y % n:4) == n:0) && (((Y % n:100) != n:0) || ((Y % n:400) == n:0)))'
    ctx.check(k1 == k2 and k1 == canon, 'C01-cal', 'IsLeap == is_leap_year == Gregorian leap rule', f1,
              'the two leap-year predicates differ or are not the Gregorian rule: %s vs %s' % (k1, k2), construct='isleap',
              detail=str(k1))
    ctx.minimum('C01-cal', 40)

    # ---- C01-wday
    check_weekday_switches(ctx, 'C01-wday', ('cctz::ToPosixWeekday',))
    ctx.minimum('C01-wday', 7)

    # ---- C01-search
    u, f = ctx.fn('cctz::TimeZoneInfo::BreakTime')
    F = ctx.facts(f)
    keys = F.keys
    g = ctx.cfg(f)
    first = 'this.transitions_[n:0].unix_time'
    n_def = 0
    for rn in g.returns:
        rk = keys.key(kids(rn.ast)[0])
        fs = F.facts_at(rn)
        if 'default_transition_type_' in rk:
            n_def += 1
            strict = any(op == '<' and b == first and not a.startswith('n:') for (op, a, b) in fs)
            ctx.check(strict, 'C01-search', 'default type only for instants strictly before the first transition', rn.ast,
                      'the before-first-transition type is used without "t < first transition" holding: at the instant of the '
                      'first transition the file\'s first type must apply', construct='search:default')
    ctx.check(n_def == 1, 'C01-search', 'one default-type return', f, 'found %d' % n_def, construct='search:defaultcount')
    ub = [x for x in walk(f) if x.get('kind') == 'CallExpr' and callee(x) and callee(x)[0] == 'fn' and
          callee(x)[1].get('name') in ('upper_bound', 'lower_bound')]
    ok = len(ub) == 1 and callee(ub[0])[1].get('name') == 'upper_bound'
    ctx.check(ok, 'C01-search', 'BreakTime searches with std::upper_bound', ub[0] if ub else f,
              'the latest transition at or before t is the predecessor of upper_bound; another bound answers instants equal to a '
              'transition with the previous type', construct='search:algo')
    if ok:
        ua = call_args(ub[0])
        fld = _comparator_field(ctx, ua[3]) if len(ua) == 4 else None
        ctx.check(fld == 'unix_time', 'C01-search', 'search ordered by unix_time', ub[0], 'comparator field is %s' % fld, construct='search:key')
        env = build_env(f, keys, F.never_written)
        ubvar = None
        for a in ancestors(ub[0]):
            if a.get('kind') == 'VarDecl':
                ubvar = a['id']
                break
        base = PtrNorm(keys, env).norm(ua[0])
        endn = PtrNorm(keys, env).norm(ua[1])
        whole = base is not None and base[0] == 'ptr' and base[2] == {} and endn is not None and endn[1] == base[1] and \
            endn[2] == {'%s.size()' % base[1]: 1}
        ctx.check(whole, 'C01-search', 'search covers the whole table', ub[0], 'range is %s .. %s' % (base, endn), construct='search:range')
        env2 = dict(env)
        if ubvar is not None and base is not None:
            env2[ubvar] = ('ptr', base[1], {'U': 1})
        ubd_ = u.by_id.get(ubvar) if ubvar is not None else None
        direct_ = ubd_ is not None and kids(ubd_) and (peel(kids(ubd_)[-1]) is ub[0] or peel(kids(ubd_)[-1]) is peel(ub[0]))
        if not direct_ and ubvar in env2:
            del env2[ubvar]         # (the local holds an index computed from the result: followed by PtrFlow)
        flow = PtrFlow(g, keys, F.never_written,
                       seeds={ubvar: ('ptr', base[1], {'U': 1})} if direct_ and base is not None else None,
                       seed_calls=[(ub[0], ('ptr', base[1], {'U': 1}))] if base is not None else None)
        sel = None
        for rn in g.returns:
            for x in F.walk_ident(rn.ast):
                if x.get('kind') == 'CXXMemberCallExpr' and any(y.get('kind') == 'DeclRefExpr' and (y.get('referencedDecl') or {}).get('id') == ubvar
                                                                for y in F.walk_ident(x)):
                    a = call_args(x)
                    if len(a) == 2:
                        sel = flow.norm_at(rn, a[1])
                        q = F.ident_key(a[0])
        ctx.check(sel is not None and sel[0] == 'elem' and sel[2] == {'U': 1, '': -1}, 'C01-search',
                  'the entry used is the predecessor of the upper bound', ub[0],
                  'the fall-back path uses %s relative to the search result' % (sel,), construct='search:pred')
        td = u.by_id.get((peel(ua[2]).get('referencedDecl') or {}).get('id')) if len(ua) == 4 else None
        qk = None
        if td is not None and kids(td):
            il = peel(kids(td)[-1])
            if il.get('kind') == 'InitListExpr':
                qk = F.ident_key(kids(il)[0])
        ctx.check(qk is not None and qk == q if sel is not None else False, 'C01-search', 'search key is the queried instant', ub[0],
                  'the search key %s is not the instant converted %s' % (qk, q if sel is not None else None), construct='search:query')
    # 400-year shift
    C400 = 'n:%d' % vals['kSecsPer400Years']
    shift = [x for x in walk(f) if x.get('kind') == 'VarDecl' and kids(x) and Keys(u).key(kids(x)[-1]).endswith('/ %s) + n:1)' % C400)]
    ctx.check(len(shift) == 1, 'C01-search', 'shift count = elapsed/400y + 1', shift[0] if shift else f,
              'the number of 400-year cycles to step back is not floor(elapsed / cycle) + 1 (0 cycles never terminates; too '
              'few leaves the instant beyond the table)', construct='shift:count')
    if len(shift) == 1:
        sk = '%s#%s' % (shift[0]['name'], shift[0]['id'])
        raw = Keys(u)
        secs = [x for x in walk(f) if x.get('kind') == 'VarDecl' and kids(x) and re.match(
            r'^(cast<[^>]*>\()?\(%s \* %s\)\)?$' % (re.escape(sk), C400), raw.key(kids(x)[-1]))]
        years = [x for x in walk(f) if x.get('kind') == 'CallExpr' and callee(x) and callee(x)[0] == 'fn' and
                 callee(x)[1].get('name') == 'YearShift' and raw.key(call_args(x)[1]) == '(%s * n:400)' % sk]
        rec = [x for x in walk(f) if x.get('kind') == 'CXXMemberCallExpr' and callee(x) and callee(x)[1] == 'BreakTime']
        recok = False
        if len(secs) == 1 and len(rec) == 1:
            dk = '%s#%s' % (secs[0]['name'], secs[0]['id'])
            ak = raw.key(call_args(rec[0])[0])
            recok = bool(re.match(r'^\(\w+#0x[0-9a-f]+ - %s\)$' % re.escape(dk), ak))
        ctx.check(len(secs) == 1 and len(years) == 1 and recok, 'C01-search',
                  'one shift count scales both the seconds stepped back and the years added back', shift[0],
                  'the instant is stepped back by shift*kSecsPer400Years seconds but the civil year is not moved forward by the '
                  'same shift*400 years (or the recursion does not use the stepped-back instant)', construct='shift:pair')
        _shift_width(ctx, 'C01-search', u, f, shift[0], vals['kSecsPer400Years'])
        fs = F.facts_at_ast(shift[0]) or frozenset()
        last = 'this.transitions_[(this.transitions_.size() - n:1)].unix_time'
        def _res(a_):
            # (a reference local bound to the last entry names that entry)
            m_ = re.match(r'^(\w+)#(0x[0-9a-f]+)(\..*)$', a_ or '')
            d_ = u.by_id.get(m_.group(2)) if m_ else None
            if d_ is not None and d_.get('kind') == 'VarDecl' and kids(d_) and '&' in (qtype(d_) or ''):
                return F.ident_key(kids(d_)[-1]) + m_.group(3)
            return a_
        ctx.check(any(op == '<=' and _res(a) == last for (op, a, b) in fs) and any('extended_' in a + b and op == '!=' for (op, a, b) in fs),
                  'C01-search', 'shift only at/after the last transition of an extended table', shift[0],
                  'the 400-year shift is applied without t >= last transition and extended_', construct='shift:guard')
    ctx.minimum('C01-search', 13)

    # ---- C01-sentinel: the entries the loader adds to the table are no-ops
    c12.check_sentinel_types(ctx, 'C01-sentinel')

    # ---- C01-rule
    u, f = ctx.fn('cctz::TimeZoneInfo::ExtendTransitions')
    raw = Keys(u)
    fk_ = ctx.facts(f).keys      # (snapshot locals of the rule's offsets and dates are keyed as what they stand for)
    tdecl = {x['name']: x for x in walk(f) if x.get('kind') == 'VarDecl' and qtype(x).endswith('Transition') and kids(x)}
    offs = {}
    for x in walk(f):
        if x.get('kind') == 'VarDecl' and kids(x) and 'TransOffset' in raw.key(kids(x)[-1]):
            m = re.search(r'\.(dst_start|dst_end)\)$', fk_.key(kids(x)[-1]))
            if m:
                offs[m.group(1)] = '%s#%s' % (x['name'], x['id'])
    assigns = {}
    for x in walk(f):
        if x.get('kind') == 'BinaryOperator' and x.get('opcode') == '=' and raw.key(kids(x)[0]).endswith('.unix_time'):
            ak_ = fk_.key(kids(x)[1])
            for nm_, k_ in offs.items():
                # (the offset locals themselves are named by the expected form below: keep them as names)
                pass
            assigns[raw.key(kids(x)[0]).split('#')[0]] = ak_
    ti = {}
    for nm, d in tdecl.items():
        il = peel(kids(d)[-1])
        if il.get('kind') == 'InitListExpr' and len(kids(il)) >= 2:
            ti[nm] = raw.key(kids(il)[1]).split('#')[0]
    # which type index is the DST one?
    gtt = {}
    for x in walk(f):
        if x.get('kind') == 'CXXMemberCallExpr' and callee(x) and callee(x)[1] == 'GetTransitionType':
            a = call_args(x)
            gtt[raw.key(a[3]).strip('&()').split('#')[0]] = (raw.key(a[0]).split('.')[-1], raw.key(a[1]), raw.key(a[2]).split('.')[-1])
    pair_ok = True
    detail = []
    for nm, rhs in assigns.items():
        idx = ti.get(nm)
        g_ = gtt.get(idx)
        if g_ is None:
            pair_ok = False
            continue
        is_dst = g_[1] == 'n:1'
        want_rule = 'dst_start' if is_dst else 'dst_end'
        want_prev_off = 'std_offset' if is_dst else 'dst_offset'
        ok1 = offs.get(want_rule) is not None and offs[want_rule] in rhs and rhs.endswith('.%s)' % want_prev_off) and ' - ' in rhs
        ok2 = g_[0] == ('dst_offset' if is_dst else 'std_offset') and g_[2] == ('dst_abbr' if is_dst else 'std_abbr')
        detail.append('%s: type(%s,%s,%s) time=%s' % (nm, g_[0], g_[1], g_[2], re.sub(r'#0x[0-9a-f]+', '', rhs)))
        pair_ok = pair_ok and ok1 and ok2
    unfound = not assigns or all(gtt.get(ti.get(nm_)) is None for nm_ in assigns)
    ctx.check3(None if unfound else (pair_ok and len(assigns) == 2), 'C01-rule',
               'generated transitions pair rule, offset-before and type correctly', f,
               'a generated transition combines the wrong rule date, the wrong offset for the local->UTC conversion or the wrong '
               'type: ' + '; '.join(detail), construct='rule:pairing', detail='; '.join(detail)[:200],
               unknown_why='the two Transition objects a generated year is built in (each a local initialised with its type index, '
               'its instant assigned from the rule offset) were not identified')
    # both transitions of a generated year are appended together: once the earlier one has been pushed no path leaves the
    # iteration (or the helper the year was factored into) without pushing the later one
    from .loader import _reach_from
    n_tog = 0
    for (u2, f2) in ctx.scope(f):
        pushes = [x for x in walk(f2) if x.get('kind') == 'CXXMemberCallExpr' and callee(x) and callee(x)[1] in ('push_back', 'emplace_back')
                  and callee(x)[2] is not None and 'Transition' in (dtype(callee(x)[2]) or qtype(callee(x)[2]) or '')]
        if len(pushes) < 2:
            continue
        g2 = ctx.cfg(f2)
        heads = [n for n in g2.live if n.kind == 'loop' and n.ast is not None and all(any(a is n.ast for a in ancestors(p)) for p in pushes)]
        stops = [g2.exit] + list(g2.returns) + heads
        # loop exits: nodes outside the loop reached from inside
        for h in heads:
            for n in g2.live:
                if n.ast is not None and n.kind in ('stmt', 'cond') and not any(a is h.ast for a in ancestors(n.ast)) and n.ast is not h.ast:
                    stops.append(n)
        for i, p1 in enumerate(pushes):
            for p2 in pushes:
                if p1 is p2:
                    continue
                n1, n2 = g2.nodes_for(p1), g2.nodes_for(p2)
                if not n1 or not n2:
                    continue
                # p2 follows p1 within the iteration?
                if _reach_from(g2, [m for n in n1 for (m, _) in n.succs], n2, cut=heads):
                    n_tog += 1
                    leak = _reach_from(g2, [m for n in n1 for (m, _) in n.succs], stops, cut=n2)
                    ctx.check(not leak, 'C01-rule', 'the later transition of a year is appended whenever the earlier one is', p1,
                              'after the earlier transition of a generated year has been appended, the iteration can end without the '
                              'later one: the last generated year lacks a transition that lookups of its civil times rely on',
                              construct='rule:together')
    ctx.check(n_tog >= 1, 'C01-rule', 'the two appends of a generated year found', f, 'found %d ordered pairs' % n_tog, construct='rule:together:count')
    # Load: prev_civil_sec with the previous type, civil_sec with the new one
    kl = G.one('cctz::TimeZoneInfo::Load', 'ZoneInfoSource')
    u, f = G.defs[kl]
    raw = Keys(u)
    g = ctx.cfg(f)
    dom = g.dominators()
    prev = [x for x in walk(f) if x.get('kind') == 'CXXOperatorCallExpr' and callee(x) and callee(x)[1].get('name') == 'operator=' and
            raw.key(call_args(x)[0]).endswith('.prev_civil_sec')]
    cur = [x for x in walk(f) if x.get('kind') == 'CXXOperatorCallExpr' and callee(x) and callee(x)[1].get('name') == 'operator=' and
           raw.key(call_args(x)[0]).endswith('.civil_sec') and not raw.key(call_args(x)[0]).endswith('prev_civil_sec')]
    verdict, why = _civil_types(u, f, g, dom, raw, prev, cur, fk=ctx.facts(f).keys)
    ctx.check3(verdict, 'C01-rule', 'each transition: previous civil second under the type in force before it, civil second under its own type', f,
               'Load computes prev_civil_sec/civil_sec with the wrong transition type (or not starting from the default type): %s' % why,
               construct='rule:civil', unknown_why=why)
    ctx.minimum('C01-rule', 4)

    # ---- C01-days: the day-of-year a footer date denotes, by abstract interpretation of TransOffset
    #      on specification-chosen input partitions (intervals, not points)
    kt = G.one('cctz::TransOffset')
    ut, ft = G.defs[kt]
    pst = params_of(ft)
    u_, d_ = one_var(ctx.P, 'cctz::kMonthOffsets')
    MO = table_of(u_, d_)[0]
    SPD = vals['kSecsPerDay']

    def days_of(leap, fmt, fields):
        ai = AI(G, Observer())
        st = St()
        if not c12.bind_trans_offset(ai, ut, ft, st, Int(leap, leap), Int(0, 6)):
            return 'unbound'
        st.mem[('PT', 'date', 'fmt')] = Int(fmt, fmt)
        for k_, v_ in fields.items():
            st.mem[('PT', 'date') + k_] = v_
        st.mem[('PT', 'time', 'offset')] = Int(0, 0)
        res = ai.analyse(kt, st)
        out = None
        for (v, s_) in res or ():
            if isinstance(v, Int):
                out = v if out is None else out.join(v)
        if out is None or out.lo % SPD or out.hi % SPD:
            return None
        return (out.lo // SPD, out.hi // SPD)
    FMT = dict(J=0, N=1, M=2)
    if days_of(0, 0, {('j', 'day'): Int(1, 1)}) == 'unbound':
        ctx.unknown('C01-days', 'day offsets denoted by the rule dates', ft, 'the inputs of TransOffset (leap-year flag, weekday of '
                    'January 1st, rule date) were not identified in its parameter list', construct='days:signature')
    for leap in ((0, 1) if days_of(0, 0, {('j', 'day'): Int(1, 1)}) != 'unbound' else ()):
        yr = 'leap year' if leap else 'common year'
        # Jn: n counts the days of a common year; Feb 29 is never denoted
        cases = [((1, 59), (0, 58)), ((60, 365), (59 + leap, 364 + leap))]
        for (a, b), want in cases:
            got = days_of(leap, FMT['J'], {('j', 'day'): Int(a, b)})
            ctx.check(got == want, 'C01-days', 'J%d..J%d in a %s denote day offsets %d..%d' % (a, b, yr, want[0], want[1]), ft,
                      'the Julian-day form Jn maps n in [%d,%d] of a %s to day offsets %s; the calendar gives %s (n counts '
                      'days of a common year, so 29 February is skipped)' % (a, b, yr, got, want), construct='days:J:%d:%d' % (leap, a),
                      detail=str(got))
        got = days_of(leap, FMT['N'], {('n', 'day'): Int(0, 365)})
        ctx.check(got == (0, 365), 'C01-days', 'n = 0..365 in a %s denotes the same zero-based day' % yr, ft,
                  'the zero-based day form maps [0,365] to %s' % (got,), construct='days:N:%d' % leap, detail=str(got))
        for m in range(1, 13):
            first, last = MO[leap][m], MO[leap][m + 1] - 1
            for (w0, w1), want in (((1, 4), (first, first + 27)), ((5, 5), (last - 6, last))):
                got = days_of(leap, FMT['M'], {('m', 'month'): Int(m, m), ('m', 'week'): Int(w0, w1), ('m', 'weekday'): Int(0, 6)})
                ctx.check(got == want, 'C01-days', 'M%d.%s.d in a %s lies in day offsets %d..%d' % (
                    m, '%d-%d' % (w0, w1) if w0 != w1 else '5(last)', yr, want[0], want[1]), ft,
                    'the rule date M%d.w.d (w in %d..%d) of a %s evaluates to day offsets %s; the %s of month %d are %s' % (
                        m, w0, w1, yr, got, 'first four weeks' if w0 == 1 else 'last seven days', m, want),
                    construct='days:M:%d:%d:%d' % (leap, m, w0), detail=str(got))
    ctx.minimum('C01-days', 50)

    # ---- C01-default: type 0 is the before-first type unless a transition uses type 0 (legacy files)
    F = ctx.facts(f)     # f is Load(ZoneInfoSource*) here
    raw = Keys(u)
    n_def = 0
    # the values stored: what is assigned directly, or each value a file-local helper called on the right-hand side returns
    stores = []
    from ..lock import is_internal as _is_internal
    for x in walk(f):
        if x.get('kind') == 'BinaryOperator' and x.get('opcode') == '=' and raw.key(kids(x)[0]) == 'this.default_transition_type_':
            r_ = peel(kids(x)[1])
            hk = [t for t in (G.resolve_decl(callee(r_)[1]) if r_ is not None and r_.get('kind') == 'CallExpr' and callee(r_) and
                              callee(r_)[0] == 'fn' and callee(r_)[1].get('_qn') else ()) if t in G.defs and _is_internal(G.defs[t][1])]
            if len(hk) == 1:
                hu, hf = G.defs[hk[0]]
                HF = ctx.facts(hf)
                for rn in ctx.cfg(hf).returns:
                    if kids(rn.ast):
                        for (fs_, arm) in HF.value_cases(kids(rn.ast)[0]):
                            stores.append((rn.ast, HF.keys.key(arm), frozenset(set(HF.facts_at(rn)) | set(fs_)), HF))
            else:
                stores.append((x, F.keys.key(kids(x)[1]), F.facts_at_ast(x) or frozenset(), F))
    for (x, rk, fs, Fx) in stores:
        if True:
            n_def += 1
            if rk == 'n:0':
                ctx.ok('C01-default', 'before-first type starts as type 0', x, 'constant 0')
                continue
            flags = [a if b == 'n:0' else b for (op, a, b) in fs if op == '!=' and 'n:0' in (a, b) and re.match(r'^\w+#0x[0-9a-f]+$', a if b == 'n:0' else b)]
            good = False
            for fl in flags:
                did = fl.split('#')[1]
                d = u.by_id.get(did)
                if d is None or 'bool' not in (dtype(d) or qtype(d)) or not kids(d) or F.keys.key(kids(d)[-1]) != 'n:0':
                    continue
                sets = [y for y in walk(f) if y.get('kind') == 'BinaryOperator' and y.get('opcode') == '=' and
                        (peel(kids(y)[0]).get('referencedDecl') or {}).get('id') == did]
                # (the byte may be decoded into a const local that is both stored as the entry's type_index and tested)
                carried = set()
                for y_ in walk(f):
                    if y_.get('kind') == 'BinaryOperator' and y_.get('opcode') == '=' and raw.key(kids(y_)[0]).endswith('.type_index'):
                        dl_ = c12._decoded_local(u, kids(y_)[1])
                        if dl_ is not None:
                            carried.add(raw.key(dl_))

                def _is_ti(k_):
                    return k_.endswith('.type_index') or k_ in carried

                def _sets_under_type0(y):
                    # flag = true under  type_index == 0 ;  or  flag = flag || (type_index == 0)
                    if F.keys.key(kids(y)[1]) == 'n:1' and any(
                            op == '==' and 'n:0' in (a, b) and _is_ti(a if b == 'n:0' else b)
                            for (op, a, b) in (F.facts_at_ast(y) or ())):
                        return True
                    r_ = peel(kids(y)[1])
                    if r_ is not None and r_.get('kind') == 'BinaryOperator' and r_.get('opcode') == '||':
                        l_, t_ = kids(r_)
                        if (peel(l_).get('referencedDecl') or {}).get('id') == did:
                            cases = F.bool_cases(t_)
                            return all(any(op == '==' and 'n:0' in (a, b) and (a + b).replace('n:0', '').endswith('.type_index')
                                           for (op, a, b) in fs_) for (fs_, v_) in cases if v_ is True) and any(v_ is True for (_, v_) in cases)
                    return False
                sets += [y for y in walk(f) if y.get('kind') == 'CompoundAssignOperator' and
                         (peel(kids(y)[0]).get('referencedDecl') or {}).get('id') == did]
                if sets and all(y.get('kind') == 'BinaryOperator' and _sets_under_type0(y) for y in sets):
                    good = True
            ctx.check(good, 'C01-default', 'another before-first type is chosen only when a transition uses type 0', x,
                      'the type for instants before the first transition is replaced although no transition was seen to '
                      'use type 0: files written by current zic designate type 0 for that period', construct='default:override',
                      detail='guarded by a flag set only under type_index == 0')
    ctx.check(n_def >= 2, 'C01-default', 'default type assignments found', f, 'found %d' % n_def, construct='default:count')
    ctx.minimum('C01-default', 3)

    # ---- C01-footer
    c12.check_footer(ctx, 'C01-footer')
    ctx.minimum('C01-footer', 3)

    # ---- C01-decode
    check_decode(ctx, 'C01-decode')
    ctx.minimum('C01-decode', 2)
