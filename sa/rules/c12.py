"""C12 — loading arbitrary bytes is memory-safe, terminating, deterministic."""
import re
from ..frontend import kids, walk, qn, qtype, dtype, pos, ancestors, AnalysisBroken, params_of, control_program
from ..expr import callee, call_args, peel, Keys, Folder, int_type, type_range, written_lvalues
from ..callgraph import fname, CallGraph
from ..effects import extern_calls, var_refs, is_static_storage
from ..absint import AI, Observer, St, Int, Ptr, I, UNINIT, MAYBE_UNINIT, TOP, StructV, vjoin
from ..poly import Poly, poly_of, poly_of_function
from ..state import entries
from . import c16, loops
from .c20 import FACTORY

EXPLANATION = (
    'The decoder turns untrusted bytes into counts, indices and a footer string; each safety clause is '
    'decided from the AST. C12-cursor: the bytes consumed through the decode cursor, summed '
    'symbolically over the counted loops as a polynomial in the six header counts and the time width, '
    'equal Header::DataLength, the buffer is allocated and filled with exactly that length (short '
    'reads fail), and every DecodeN reads inside its loop stride. C12-index: every store into the '
    'one-byte index carriers (Transition::type_index, TransitionType::abbr_index, '
    'default_transition_type_) is a constant in range, a decoded byte that is compared with the '
    'count sizing the indexed container before any accepting exit, a copy of another carrier, or '
    'the bounded out-value of GetTransitionType; the counts used for validation are the ones the '
    'containers are resized to and zero types are rejected. C12-narrow / C12-loops: every loop on '
    'the load path matches a terminating idiom and no induction variable is narrower than the bound '
    'it is compared with. C12-da: the POSIX footer result, the header and the members extended_, '
    'last_year_, default_transition_type_ are assigned before they can be read (abstract '
    'interpretation with definite-assignment tracking). C12-inval: no reference or pointer into a '
    'vector/string is used after an operation that may reallocate it. C12-footer: with the ranges '
    'the footer parser admits every constant-table subscript of the rule expander is in bounds. '
    'C12-sentinel: on every accepting path of the loader the first transition is negative (or the -2^59 '
    'sentinel is inserted) and the last is non-negative (or the 2^31-1 sentinel is appended). '
    'C12-fail: a failed load yields no zone object. C12-pure: the loader reads no environment, '
    'clock or mutable static. Does not decide absence of signed overflow on 64-bit transition times.')
LEVEL = ('Structural and abstract-interpretation proof of bounded decoding, index validation, loop termination shape, '
         'initialisation and purity for all byte strings; 64-bit time arithmetic overflow is outside the claim.')
LEVEL_NOTE = ('Trusts clang 14 AST and sa/; assumes ZoneInfoSource::Read returns at most the requested size and '
              'eventually 0 (finite source); std::vector/std::string follow the standard reallocation rules.')
TECHNIQUE = ('taint-to-sink writer discipline via must-hold branch facts + symbolic polynomial cursor accounting + '
             'loop-idiom classification + definite-assignment abstract interpretation + reference-invalidation typestate')


# ----------------------------------------------------------------------------
# C12-cursor


class _Cursor(object):
    def __init__(self, ctx, u, f, cursor_id, symbols, sizes):
        self.ctx, self.u, self.f = ctx, u, f
        self.cid = cursor_id
        self.keys = Keys(u)
        self.symbols = symbols
        self.sizes = sizes            # callee name -> bytes read at its pointer argument
        self.reads = []               # (node, local offset, size poly, region)
        self.problems = []
        self.region = [('top', None, None)]

    def is_cursor(self, e):
        x = peel(e)
        return x is not None and x.get('kind') == 'DeclRefExpr' and (x.get('referencedDecl') or {}).get('id') == self.cid

    def mentions(self, e):
        return any(x.get('kind') == 'DeclRefExpr' and (x.get('referencedDecl') or {}).get('id') == self.cid for x in walk(e))

    def poly(self, e):
        return poly_of(e, self.keys, self.symbols)

    def expr(self, e, off):
        if e is None or not self.mentions(e):
            return off
        x = peel(e, explicit=False)
        k = x.get('kind')
        if k == 'UnaryOperator' and x.get('opcode') in ('++',) and self.is_cursor(kids(x)[0]):
            return off + Poly.const(1)
        if k == 'UnaryOperator' and x.get('opcode') == '--' and self.is_cursor(kids(x)[0]):
            self.problems.append((x, 'cursor decremented'))
            return off
        if k == 'CompoundAssignOperator' and self.is_cursor(kids(x)[0]):
            p = self.poly(kids(x)[1])
            if x.get('opcode') != '+=' or p is None:
                self.problems.append((x, 'cursor advanced by a non-polynomial amount'))
                return off
            return off + p
        if k == 'BinaryOperator' and x.get('opcode') == '=' and self.is_cursor(kids(x)[0]):
            self.problems.append((x, 'cursor reassigned'))
            return off
        if k == 'CallExpr' and callee(x) and callee(x)[0] == 'fn' and callee(x)[1].get('name') in self.sizes:
            a = call_args(x)[0]
            pa = peel(a)
            at = off
            if pa is not None and pa.get('kind') == 'BinaryOperator' and pa.get('opcode') == '+' and self.is_cursor(kids(pa)[0]):
                dp = self.poly(kids(pa)[1])         # a read at a fixed distance ahead of the cursor
                if dp is None:
                    self.problems.append((x, 'read at a non-polynomial distance from the cursor'))
                    return off
                at = off + dp
                self.reads.append((x, at, Poly.const(self.sizes[callee(x)[1].get('name')]), self.region[-1]))
                return off
            self.reads.append((x, off, Poly.const(self.sizes[callee(x)[1].get('name')]), self.region[-1]))
            return self.expr(a, off)
        if k == 'CXXMemberCallExpr' and callee(x) and callee(x)[1] in ('assign', 'append') and len(call_args(x)) == 2 \
                and self.is_cursor(call_args(x)[0]):
            p = self.poly(call_args(x)[1])
            if p is None:
                self.problems.append((x, 'bulk read of non-polynomial size'))
            else:
                self.reads.append((x, off, p, self.region[-1]))
            return off
        if k == 'ConditionalOperator':
            c, a, b = kids(x)
            n0 = len(self.reads)
            oa = self.expr(a, off)
            ra = self.reads[n0:]
            n1 = len(self.reads)
            ob = self.expr(b, off)
            rb = self.reads[n1:]
            if not (oa - ob).is_zero():
                self.problems.append((x, 'branches of ?: consume different amounts'))
            self._width_select(x, c, n0, ra, rb, off)
            return oa
        if k == 'LambdaExpr':
            return off
        for c in kids(x):
            off = self.expr(c, off)
        return off

    def _range_count(self, s):
        """Element count of the container a range-for walks: the argument of the single resize()/assign() of that
        container in the function (the loop body must not change it)."""
        rng = [x for x in walk(s) if x.get('kind') == 'VarDecl' and (x.get('name') or '').startswith('__range')]
        if not rng or not kids(rng[0]):
            return None
        ck = self.keys.key(kids(rng[0])[-1])
        sizes = []
        for x in walk(self.f):
            if x.get('kind') == 'CXXMemberCallExpr' and callee(x) and callee(x)[0] == 'method' and callee(x)[2] is not None and \
                    self.keys.key(callee(x)[2]) == ck:
                if callee(x)[1] in ('resize', 'assign') and call_args(x):
                    sizes.append(self.poly(call_args(x)[0]))
                elif callee(x)[1] in ('push_back', 'emplace_back', 'emplace', 'insert', 'erase', 'clear', 'pop_back', 'reserve', 'shrink_to_fit'):
                    if callee(x)[1] not in ('reserve', 'shrink_to_fit') and any(a is s for a in ancestors(x)):
                        return None
        if len(sizes) != 1 or sizes[0] is None:
            return None
        # later growth of the container (sentinels appended after decoding) happens after the loop: the loop sees the
        # size set by resize() only if no insertion precedes it
        return sizes[0]

    def _width_select(self, x, c, n0, ra, rb, off):
        """size selected by a width variable:  (w == c1) ? read c1 : read c2  with w in {c1, c2}
        (also != and the if/else form): the two reads are one read of w bytes."""
        pc = peel(c)
        if pc is not None and pc.get('kind') == 'DeclRefExpr':
            d_ = self.u.by_id.get((pc.get('referencedDecl') or {}).get('id'))
            if d_ is not None and d_.get('kind') == 'VarDecl' and kids(d_) and \
                    (dtype(d_) or '').replace('const ', '').strip() == 'bool' and \
                    not any(lv is not None and self.keys.key(lv) == self.keys.key(pc) for y in walk(self.f)
                            if y.get('kind') in ('BinaryOperator', 'CompoundAssignOperator', 'UnaryOperator')
                            for lv in written_lvalues(y)):
                c = kids(d_)[-1]            # a named test of the width variable
        ck = self.keys.key(c)
        m = re.match(r'^\((.+) (==|!=) n:(\d+)\)$', ck)
        if m and len(ra) == 1 and len(rb) == 1 and m.group(1) in self.symbols:
            if m.group(2) == '!=':
                ra, rb = rb, ra
            vals = self._assigned_constants(m.group(1))
            c1 = int(m.group(3))
            others = vals - {c1}
            if ra[0][2] == Poly.const(c1) and len(others) == 1 and rb[0][2] == Poly.const(list(others)[0]):
                del self.reads[n0:]
                self.reads.append((x, off, Poly.sym(self.symbols[m.group(1)]), self.region[-1]))
            else:
                self.problems.append((x, 'read width does not match the width variable (%s in %s)' % (m.group(1).split('#')[0], sorted(vals))))

    def _assigned_constants(self, key):
        vals = set()
        for x in walk(self.f):
            if x.get('kind') == 'VarDecl' and '%s#%s' % (x.get('name'), x.get('id')) == key and kids(x):
                ini = peel(kids(x)[-1])
                arms = kids(ini)[1:] if ini is not None and ini.get('kind') == 'ConditionalOperator' else [kids(x)[-1]]
                for arm in arms:
                    vals.add(Folder(self.u).fold(arm))
            if x.get('kind') == 'BinaryOperator' and x.get('opcode') == '=' and self.keys.key(kids(x)[0]) == key:
                vals.add(Folder(self.u).fold(kids(x)[1]))
        return vals

    def stmt(self, s, off):
        if s is None:
            return off
        k = s.get('kind')
        if not self.mentions(s):
            return off
        if k == 'CompoundStmt':
            for c in kids(s):
                off = self.stmt(c, off)
            return off
        if k == 'ForStmt':
            p = [c if isinstance(c, dict) and 'kind' in c else None for c in s.get('inner', [])]
            init, cond, inc, body = p[0], p[2], p[3], p[4]
            if (init is not None and self.mentions(init)) or (cond is not None and self.mentions(cond)) or \
                    (inc is not None and self.mentions(inc)):
                self.problems.append((s, 'cursor used in a loop header'))
                return off
            n = loops.counted_bound(self.u, s, self.keys)
            N = self.poly(n) if n is not None else None
            if N is None:
                self.problems.append((s, 'cursor advanced in a loop that is not counted by a header field'))
                return off
            self.region.append(('loop', s, N))
            B = self.stmt(body, Poly())
            self.region.pop()
            # record stride for the reads of this loop
            for i, r in enumerate(self.reads):
                if r[3][0] == 'loop' and r[3][1] is s and len(r) == 4:
                    self.reads[i] = r + (B,)
            return off + N * B
        if k == 'IfStmt':
            p = [c for c in kids(s)]
            cond = p[0] if not s.get('hasVar') else p[1]
            off = self.expr(cond, off)
            then = p[1] if not s.get('hasVar') else p[2]
            els = p[2] if len(p) > 2 and not s.get('hasVar') else (p[3] if len(p) > 3 else None)
            # a branch that leaves the function does not constrain the other
            n0 = len(self.reads)
            np0 = len(self.problems)
            oa = self.stmt(then, off)
            ra = self.reads[n0:]
            n1 = len(self.reads)
            ob = self.stmt(els, off) if els is not None else off
            rb = self.reads[n1:]
            if els is not None and (oa - ob).is_zero():
                self._width_select(s, cond, n0, ra, rb, off)
            a_exits = _always_returns(then)
            b_exits = els is not None and _always_returns(els)
            if a_exits and not b_exits:
                return ob
            if b_exits and not a_exits:
                return oa
            if not (oa - ob).is_zero() and len(self.problems) > np0:
                return oa       # (what a branch consumes was not followed: reported there, nothing to compare here)
            if not (oa - ob).is_zero():
                self.problems.append((s, 'branches of if consume different amounts'))
            return oa
        if k == 'CXXForRangeStmt':
            N = self._range_count(s)
            body = kids(s)[-1]
            if N is None:
                self.problems.append((s, 'cursor advanced in a range-for whose range is not sized by a header field'))
                return off
            self.region.append(('loop', s, N))
            B = self.stmt(body, Poly())
            self.region.pop()
            for i, r in enumerate(self.reads):
                if r[3][0] == 'loop' and r[3][1] is s and len(r) == 4:
                    self.reads[i] = r + (B,)
            return off + N * B
        if k in ('WhileStmt', 'DoStmt', 'SwitchStmt'):
            self.problems.append((s, 'cursor used in an unsupported loop form'))
            return off
        if k == 'DeclStmt':
            for d in kids(s):
                for c in kids(d):
                    off = self.expr(c, off)
            return off
        if k == 'ReturnStmt':
            return off
        return self.expr(s, off)


def _always_returns(s):
    if s is None:
        return False
    k = s.get('kind')
    if k == 'ReturnStmt':
        return True
    if k == 'CompoundStmt':
        ks = kids(s)
        return bool(ks) and _always_returns(ks[-1])
    return False


class _ReadObs(Observer):
    def __init__(self):
        self.offs = []
        self.stores = []
        self.unknown = []

    def load(self, ai, e, ptr, extent, st):
        if ptr.target[:1] == ('symbuf',):
            (self.offs if ptr.off is not None else self.unknown).append(ptr.off)

    def store(self, ai, e, ptr, extent, st):
        self.stores.append(e)


def _decode_sizes(ctx):
    """Bytes read by Decode8/32/64 at their pointer argument: the hull of the offsets their bodies
    (helpers inlined, constant-trip loops unrolled) load from, by abstract interpretation."""
    G = ctx.G
    sizes = {}
    for name in ('Decode8', 'Decode32', 'Decode64'):
        k = G.one('cctz::' + name)
        u, f = G.defs[k]
        p = params_of(f)[0]
        obs = _ReadObs()
        ai = AI(G, obs, unroll=lambda f_: True, unroll_cap=64)
        st = St()
        st.mem[(p['id'],)] = Ptr(False, ('symbuf', name), Int(0, 0))
        res = ai.analyse(k, st)
        if not res or obs.unknown or obs.stores or not obs.offs:
            raise AnalysisBroken('%s: byte consumption is not a constant (%d reads, %d at unknown offsets, %d stores)' %
                                 (name, len(obs.offs), len(obs.unknown), len(obs.stores)))
        lo = min(o.lo for o in obs.offs)
        hi = max(o.hi for o in obs.offs)
        covered = set()
        for o in obs.offs:
            covered.update(range(o.lo, o.hi + 1))
        if lo != 0 or hi > 64 or covered != set(range(0, hi + 1)):
            raise AnalysisBroken('%s: reads offsets [%s,%s] of its argument, not a block starting at it' % (name, lo, hi))
        sizes[name] = hi + 1
    return sizes


def check_cursor(ctx):
    G = ctx.G
    k = G.one('cctz::TimeZoneInfo::Load', 'ZoneInfoSource')
    u, f = G.defs[k]
    keys = Keys(u)
    F = ctx.facts(f)
    sizes = _decode_sizes(ctx)
    ctx.ok('C12-cursor', 'decoders read %s bytes at their argument' % sizes, None, 'derived from their bodies')
    # DataLength polynomial
    kd = G.one('cctz::Header::DataLength')
    ud, fd = G.defs[kd]
    Kd = Keys(ud)
    pd = params_of(fd)[0]
    sym_d = {'%s#%s' % (pd['name'], pd['id']): 'time_len'}
    for nm in ('timecnt', 'typecnt', 'charcnt', 'leapcnt', 'ttisstdcnt', 'ttisutcnt'):
        sym_d['this.' + nm] = nm
    P_len = poly_of_function(fd, Kd, sym_d)
    okdl = P_len is not None
    if P_len is None:
        P_len = Poly()
    if not okdl and (any(y.get('kind') in ('ForStmt', 'WhileStmt', 'DoStmt', 'CXXForRangeStmt') or
                         (y.get('kind') == 'BinaryOperator' and y.get('opcode') in ('.*', '->*')) for y in walk(fd)) or
                     not int_type((dtype(pd) or qtype(pd) or '').replace('const ', ''))):
        # (... or takes the width as something other than an integer, an enumeration say, and converts it itself)
        # the length summed in a loop over a table of counts / through pointers to members: the sum is not followed, and
        # without it the byte accounting of the decoder has nothing to be compared with
        ctx.unknown('C12-cursor', 'Header::DataLength is a polynomial in the header counts', fd,
                    'DataLength computes the length in a loop or through pointers to members', construct='cursor:datalength')
        return
    ctx.check(okdl, 'C12-cursor', 'Header::DataLength is a polynomial in the header counts: %s' % P_len, fd,
              'DataLength is not a sum of count*width terms', construct='cursor:datalength')
    # in Load: locate len, tbuf, bp
    hdr = [x for x in walk(f) if x.get('kind') == 'VarDecl' and qtype(x).endswith('Header')]
    lens = [x for x in walk(f) if x.get('kind') == 'VarDecl' and kids(x) and
            re.match(r'^\w+#0x[0-9a-f]+\.DataLength\(\w+#0x[0-9a-f]+\)$', keys.key(kids(x)[-1]))]
    # the time width in use: the integer local handed to DataLength for the block that is decoded
    tl = []
    if len(lens) == 1:
        m_ = re.match(r'^\w+#0x[0-9a-f]+\.DataLength\(\w+#(0x[0-9a-f]+)\)$', keys.key(kids(lens[0])[-1]))
        d_ = u.by_id.get(m_.group(1)) if m_ else None
        if d_ is not None and d_.get('kind') == 'VarDecl' and int_type(dtype(d_)):
            tl = [d_]
    if len(hdr) != 1 or len(lens) != 1 or len(tl) != 1:
        raise AnalysisBroken('C12-cursor: header / length / time width locals not found (%d/%d/%d)' % (len(hdr), len(lens), len(tl)))
    hk = '%s#%s' % (hdr[0]['name'], hdr[0]['id'])
    lk = '%s#%s' % (lens[0]['name'], lens[0]['id'])
    tk = '%s#%s' % (tl[0]['name'], tl[0]['id'])
    ctx.check(keys.key(kids(lens[0])[-1]) == '%s.DataLength(%s)' % (hk, tk), 'C12-cursor',
              'buffer length = hdr.DataLength(time_len)', lens[0], 'length is not DataLength of the header in use with the '
              'time width in use', construct='cursor:len')
    bufs = [x for x in walk(f) if x.get('kind') == 'VarDecl' and 'vector<char>' in qtype(x) and kids(x) and
            any(keys.key(a) == lk for a in call_args(peel(kids(x)[-1])) if peel(kids(x)[-1]).get('kind') == 'CXXConstructExpr')]
    ctx.check(len(bufs) == 1, 'C12-cursor', 'buffer allocated with exactly that length', bufs[0] if bufs else f,
              'the decode buffer is not sized by the computed data length', construct='cursor:alloc')
    if len(bufs) != 1:
        return
    bk = '%s#%s' % (bufs[0]['name'], bufs[0]['id'])
    bps = [x for x in walk(f) if x.get('kind') == 'VarDecl' and kids(x) and keys.key(kids(x)[-1]) == '%s.data()' % bk]
    if len(bps) != 1:
        raise AnalysisBroken('C12-cursor: decode cursor not found')
    bp = bps[0]
    # the read of the buffer is compared with len, failing exit, before the cursor is created
    fs = F.facts_at_ast(bp) or frozenset()
    readok = any(op == '==' and set((a, b)) == set((lk, a if b == lk else b)) and
                 re.match(r'^\w+#0x[0-9a-f]+\.Read\(%s\.data\(\),%s\)$' % (re.escape(bk), re.escape(lk)), a if b == lk else b)
                 for (op, a, b) in fs)
    ctx.check(readok, 'C12-cursor', 'short read of the data block fails before decoding', bp,
              'decoding starts without the source having delivered exactly the declared number of bytes into the '
              'buffer: truncated input is decoded from uninitialised/zero bytes or the read size differs from the '
              'buffer size', construct='cursor:read')
    symbols = {tk: 'time_len'}
    for nm in ('timecnt', 'typecnt', 'charcnt', 'leapcnt', 'ttisstdcnt', 'ttisutcnt'):
        symbols['%s.%s' % (hk, nm)] = nm
    cur = _Cursor(ctx, u, f, bp['id'], symbols, sizes)
    from ..frontend import body_of
    # statements after the cursor declaration, in the function's top-level compound
    top = body_of(f)
    seen = False
    total = Poly()
    for s in kids(top):
        if not seen:
            if any(x is bp for x in walk(s)):
                seen = True
            continue
        total = cur.stmt(s, total)
    LIMITS = ('unsupported loop form', 'not counted by a header field', 'not sized by a header field', 'loop header', 'non-polynomial')
    limited = [p for p in cur.problems if any(l in p[1] for l in LIMITS)]
    for (node, why) in cur.problems:
        if any(l in why for l in LIMITS):
            ctx.unknown('C12-cursor', 'cursor discipline: %s' % why, node, 'the byte accounting does not follow this form of the decode '
                        'loop (%s)' % why, construct='cursor:problem:%s' % why)
        else:
            ctx.bad('C12-cursor', 'cursor discipline: %s' % why, node, 'the decode cursor is moved in a way the byte accounting '
                    'cannot follow (%s)' % why, construct='cursor:problem:%s' % why)
    if limited:
        return
    ctx.check((total - P_len).is_zero(), 'C12-cursor', 'bytes consumed by the cursor == DataLength (%s)' % total, bp,
              'the decoder consumes %s bytes but the buffer holds DataLength = %s: decoding runs past the end of the '
              'buffer (or ignores part of it) for some header' % (total, P_len), construct='cursor:total', detail=str(total))
    for r in cur.reads:
        node, off, size, region = r[0], r[1], r[2], r[3]
        if region[0] == 'loop':
            B = r[4] if len(r) > 4 else Poly()
            ok = (B - off - size).nonneg()
            what = 'read of %s byte(s) at stride offset %s within stride %s' % (size, off, B)
        else:
            ok = (P_len - off - size).nonneg()
            what = 'read of %s byte(s) at offset %s within %s' % (size, off, P_len)
        ctx.check(ok, 'C12-cursor', what, node, 'a decode reads beyond the bytes accounted for its position: %s' % what,
                  construct='cursor:read:%s' % pos(node).split(':')[0] + ':' + str(size) + '@' + str(off))
    ctx.minimum('C12-cursor', 12)


# ----------------------------------------------------------------------------
# C12-index


def check_index(ctx):
    G = ctx.G
    carriers = {
        'type_index': ('transition_types_', 'typecnt'),
        'abbr_index': ('abbreviations_', 'charcnt'),
        'default_transition_type_': ('transition_types_', 'typecnt'),
    }
    kload = G.one('cctz::TimeZoneInfo::Load', 'ZoneInfoSource')
    n_w = 0
    for k, (u, f) in sorted(G.defs.items()):
        if not k[0].startswith('cctz::TimeZoneInfo::'):
            continue
        F = None
        for x in walk(f):
            tgt = val = None
            if x.get('kind') == 'BinaryOperator' and x.get('opcode') == '=':
                l = peel(kids(x)[0])
                if l.get('kind') == 'MemberExpr' and l.get('name') in carriers:
                    tgt, val = l, kids(x)[1]
            if tgt is None:
                continue
            n_w += 1
            F = F or ctx.facts(f)
            keys = F.keys
            vk = keys.key(val)
            lk = keys.key(tgt)
            cont, cnt = carriers[tgt.get('name')]
            inst = '%s = %s in %s' % (re.sub(r'#0x[0-9a-f]+', '', lk), re.sub(r'#0x[0-9a-f]+', '', vk)[:50], fname(k))
            fs = F.facts_at_ast(x) or frozenset()
            ok, why, how = False, '', ''
            if vk.startswith('n:'):
                c = int(vk[2:])
                # constant: the container has more than c elements at this point
                sized = _container_min_size(ctx, u, f, x, cont, F)
                ok = c == 0 and sized >= 1
                how = 'constant %d, container has >= %d element(s)' % (c, sized)
                why = 'the constant index %d is stored while %s may hold %d elements' % (c, cont, sized)
            elif re.match(r'^cctz::Decode8\(', vk):
                ok, how, why = _sanitised(ctx, u, f, x, tgt, cnt, F)
            elif _decoded_local(u, val) is not None:
                # the byte is decoded into a const local first, stored (without narrowing) and the local is what is compared
                ok, how, why = _sanitised(ctx, u, f, x, _decoded_local(u, val), cnt, F)
            elif re.search(r'\.(type_index|abbr_index)$|default_transition_type_$', vk) or _is_carrier_copy(u, f, val):
                ok, how = True, 'copy of a validated carrier'
            elif peel(val).get('kind') in ('DeclRefExpr', 'CXXStaticCastExpr'):
                b = _bounded_local(ctx, u, f, x, val, F) or _grown_local(ctx, u, f, x, val, cont, F)
                ok = b is not None
                how = b or ''
                why = 'the value stored is not bounded by the size of %s on every path' % cont
            else:
                why = 'the stored value is neither a constant, a validated decode, a copy of a carrier nor a bounded search result'
                pv_ = peel(val)
                from ..lock import is_internal as _ii
                if pv_ is not None and pv_.get('kind') == 'CallExpr' and callee(pv_) and callee(pv_)[0] == 'fn' and callee(pv_)[1].get('_qn') and \
                        any(t in G.defs and _ii(G.defs[t][1]) for t in G.resolve_decl(callee(pv_)[1])):
                    ctx.unknown('C12-index', inst, x, 'the index is computed by a file-local helper (%s): how it is bounded by the size '
                                'of %s is not followed' % (qn(callee(pv_)[1]), cont), construct='index:%s:%s' % (fname(k), tgt.get('name')))
                    continue
            ctx.check(ok, 'C12-index', inst, x,
                      'a one-byte index is stored without being tied to the size of the container it later subscripts: %s' % why,
                      construct='index:%s:%s' % (fname(k), tgt.get('name')), detail=how)
    # out-parameter of GetTransitionType: *index = cast(type_index) with type_index <= 255 and < size (or == size after emplace)
    kg = G.one('cctz::TimeZoneInfo::GetTransitionType')
    u, f = G.defs[kg]
    F = ctx.facts(f)
    for x in walk(f):
        if x.get('kind') == 'BinaryOperator' and x.get('opcode') == '=' and peel(kids(x)[0]).get('kind') == 'UnaryOperator' \
                and peel(kids(x)[0]).get('opcode') == '*':
            fs = F.facts_at_ast(x) or frozenset()
            vk = F.keys.key(peel(kids(x)[1]))
            src = peel(kids(x)[1])
            while src.get('kind') in ('CXXStaticCastExpr', 'ImplicitCastExpr'):
                src = peel(kids(src)[-1], explicit=False) if kids(src) else src
                if src.get('kind') not in ('CXXStaticCastExpr', 'ImplicitCastExpr'):
                    break
            sk = F.keys.key(src)
            le255 = any(op == '<=' and a == sk and b == 'n:255' or op == '<' and a == sk and b == 'n:256' for (op, a, b) in fs)
            n_w += 1
            ctx.check(le255, 'C12-index', '*index = %s in GetTransitionType fits one byte' % sk.split('#')[0], x,
                      'GetTransitionType hands out an index that has not been checked to fit the 8-bit carriers',
                      construct='index:gtt:out', detail='<= 255 on every path')
    # bound agreement: the counts used for validation size the containers; zero types rejected
    u, f = G.defs[kload]
    F = ctx.facts(f)
    keys = F.keys
    for cont, cnt, meth in (('transition_types_', 'typecnt', 'resize'), ('abbreviations_', 'charcnt', 'assign')):
        calls = [x for x in walk(f) if x.get('kind') == 'CXXMemberCallExpr' and callee(x) and callee(x)[1] == meth and
                 keys.key(callee(x)[2]) == 'this.' + cont]
        ok = len(calls) == 1 and any(keys.key(a).endswith('.' + cnt) for a in call_args(calls[0]))
        ctx.check(ok, 'C12-index', '%s is sized by hdr.%s, the count its indices are validated against' % (cont, cnt),
                  calls[0] if calls else f, 'the container is not sized by the count used to validate indices into it',
                  construct='index:size:%s' % cont)
    g = ctx.cfg(f)
    acc = [rn for rn in g.returns if keys.key(kids(rn.ast)[0]) == 'n:1']
    nz = bool(acc) and all(any(op == '!=' and 'n:0' in (a, b) and (a.endswith('.typecnt') or b.endswith('.typecnt')) or
                               op == '<' and a == 'n:0' and b.endswith('.typecnt') for (op, a, b) in F.facts_at(rn)) for rn in acc)
    ctx.check(nz, 'C12-index', 'zero local time types are rejected', f,
              'a file with typecnt == 0 can load: type index 0 (the default) then subscripts an empty table',
              construct='index:typecnt0')
    # monotonicity: after validation the containers only grow
    for cont in ('transition_types_', 'abbreviations_'):
        for k, (u2, f2) in G.defs.items():
            if not k[0].startswith('cctz::TimeZoneInfo::'):
                continue
            K2 = Keys(u2)
            for x in walk(f2):
                if x.get('kind') == 'CXXMemberCallExpr' and callee(x) and callee(x)[2] is not None and \
                        K2.key(callee(x)[2]) == 'this.' + cont and callee(x)[1] in ('resize', 'assign', 'clear', 'erase', 'pop_back', 'shrink'):
                    okm = k[0] in ('cctz::TimeZoneInfo::Load', 'cctz::TimeZoneInfo::ResetToBuiltinUTC')
                    ctx.check(okm, 'C12-index', '%s.%s only in the (re)initialising functions' % (cont, callee(x)[1]), x,
                              '%s is shrunk/reset in %s after indices into it were validated' % (cont, fname(k)),
                              construct='index:shrink:%s:%s' % (cont, fname(k)))
    ctx.minimum('C12-index', 12)


def _is_carrier_copy(u, f, val):
    x = peel(val)
    if x.get('kind') == 'DeclRefExpr':
        d = u.by_id.get((x.get('referencedDecl') or {}).get('id'))
        if d is not None and d.get('kind') == 'VarDecl' and kids(d):
            ik = Keys(u).key(kids(d)[-1])
            return bool(re.search(r'\.(type_index|abbr_index)$|default_transition_type_$', ik))
    return False


def _container_min_size(ctx, u, f, node, cont, F):
    """Lower bound of container size at node: resize(n) with constant n, or count != 0 facts."""
    keys = F.keys
    g = ctx.cfg(f)
    dom = g.dominators()
    best = 0
    for x in walk(f):
        if x.get('kind') == 'CXXMemberCallExpr' and callee(x) and callee(x)[1] == 'resize' and callee(x)[2] is not None and \
                keys.key(callee(x)[2]) == 'this.' + cont:
            a = keys.key(call_args(x)[0])
            if any(n1.id in dom[n2.id] for n1 in g.nodes_for(x) for n2 in g.nodes_for(node)):
                if a.startswith('n:'):
                    best = max(best, int(a[2:]))
                else:
                    fs = F.facts_at_ast(node) or frozenset()
                    if any(op == '!=' and set((p, q)) == set((a, 'n:0')) for (op, p, q) in fs):
                        best = max(best, 1)
    # growth that post-dominates the store (the container is filled later in the same function)
    pdom = g.postdominators()
    fo = Folder(u)
    for x in walk(f):
        if x.get('kind') == 'CXXMemberCallExpr' and callee(x) and callee(x)[2] is not None and \
                keys.key(callee(x)[2]) == 'this.' + cont and callee(x)[1] in ('append', 'push_back', 'resize', 'emplace_back'):
            a = call_args(x)
            cntv = 1 if callee(x)[1] in ('push_back', 'emplace_back') else (fo.fold(a[0]) if a else None)
            if callee(x)[1] == 'append' and len(a) != 2:
                cntv = None
            if cntv and cntv >= 1:
                if all(sn.id in pdom and any(xn.id in pdom[sn.id] for xn in g.nodes_for(x)) for sn in g.nodes_for(node)):
                    best = max(best, cntv)
    return best


def _grown_local(ctx, u, f, store, val, cont, F):
    """The stored value is a local that is either a carrier copy or the container's size()
    taken before the container is grown on exactly the paths where the two are equal."""
    keys = F.keys
    x = peel(val)
    while x.get('kind') in ('CXXStaticCastExpr',):
        x = peel(kids(x)[-1])
    if x.get('kind') != 'DeclRefExpr':
        return None
    did = (x.get('referencedDecl') or {}).get('id')
    d = u.by_id.get(did)
    if d is None or d.get('kind') != 'VarDecl' or not kids(d):
        return None
    vk = '%s#%s' % (d['name'], did)
    sizek = 'this.%s.size()' % cont
    # (keys as the fact engine has them: a snapshot local such as `const size_t n = c.size()` is keyed as what it stands for)
    srcs = [keys.key(kids(d)[-1])]
    for y in walk(f):
        if y.get('kind') == 'BinaryOperator' and y.get('opcode') == '=' and (peel(kids(y)[0]).get('referencedDecl') or {}).get('id') == did:
            srcs.append(keys.key(kids(y)[1]))
        if y.get('kind') in ('UnaryOperator', 'CompoundAssignOperator') and y.get('opcode') in ('++', '--', '+=', '-=') and \
                (peel(kids(y)[0]).get('referencedDecl') or {}).get('id') == did:
            return None
    if not all(sk == sizek or re.search(r'\.(type_index|abbr_index)$', sk) for sk in srcs):
        return None
    fs = F.facts_at_ast(store) or frozenset()
    if not any((op == '<=' and a == vk and b == 'n:255') or (op == '<' and a == vk and b == 'n:256') for (op, a, b) in fs):
        return None
    if sizek not in srcs:
        return 'copy of a validated carrier, <= 255'
    g = ctx.cfg(f)
    grow = []
    for y in walk(f):
        if y.get('kind') == 'CXXMemberCallExpr' and callee(y) and callee(y)[2] is not None and \
                keys.key(callee(y)[2]) == 'this.' + cont and callee(y)[1] in ('append', 'push_back', 'emplace_back'):
            gf = F.facts_at_ast(y) or frozenset()
            if any(op == '==' and set((a, b)) == set((vk, sizek)) for (op, a, b) in gf) or grow:
                grow += g.nodes_for(y)
    cut_edges = []
    for n in g.live:
        if n.kind == 'cond':
            for lab in ('T', 'F'):
                for (op, a, b) in F.cond_facts(n.ast, lab == 'T'):
                    if op == '!=' and set((a, b)) == set((vk, sizek)):
                        cut_edges.append((n.id, lab))
    if grow and not g.reachable_avoiding(g.nodes_for(store), grow, cut_edges):
        return 'container size taken before it is grown; <= 255'
    return None


def _decoded_local(u, val):
    """The reference to a never-reassigned local initialised with Decode8(..) that <val> denotes (through casts that keep
    every value of the local's type), or None."""
    x = peel(val)
    src_t = None
    while x is not None and x.get('kind') in ('CXXStaticCastExpr', 'CStyleCastExpr', 'CXXFunctionalCastExpr', 'ImplicitCastExpr') and kids(x):
        inner = peel(kids(x)[-1])
        tr_o, tr_i = type_range(int_type(dtype(x) or '') or ()) if int_type(dtype(x) or '') else None, \
            type_range(int_type(dtype(inner) or '') or ()) if inner is not None and int_type(dtype(inner) or '') else None
        if tr_o is None or tr_i is None or not (tr_o[0] <= tr_i[0] and tr_i[1] <= tr_o[1]):
            return None
        x = inner
    if x is None or x.get('kind') != 'DeclRefExpr':
        return None
    d = u.by_id.get((x.get('referencedDecl') or {}).get('id'))
    if d is None or d.get('kind') != 'VarDecl' or not kids(d) or not (dtype(d) or '').startswith('const '):
        return None
    if not re.match(r'^cctz::Decode8\(', Keys(u).key(kids(d)[-1])):
        return None
    return x


def _sanitised(ctx, u, f, store, tgt, cnt, F):
    """The stored lvalue is compared with hdr.<cnt> (>= -> failing exit) on every path
    from the store to an accepting return or a loop back edge."""
    keys = F.keys
    g = ctx.cfg(f)
    lk = keys.key(tgt)
    snodes = g.nodes_for(store)
    checks = []
    for n in g.live:
        if n.kind != 'cond':
            continue
        for (lab, truth) in (('T', True), ('F', False)):
            for (op, a, b) in F.cond_facts(n.ast, truth):
                if op == '<' and a == lk and b.endswith('.' + cnt):
                    # this edge establishes lk < cnt ; the other edge must fail
                    other = [m for (m, l) in n.succs if l != lab]
                    fails = all(_leads_to_false(g, m, keys) for m in other)
                    checks.append((n, lab, fails))
    good = [c for c in checks if c[2]]
    if not good:
        return False, '', 'no comparison of %s with hdr.%s whose failing edge rejects the file' % (re.sub(r'#0x[0-9a-f]+', '', lk), cnt)
    cut = [c[0] for c in good]
    acc = [rn for rn in g.returns if keys.key(kids(rn.ast)[0]) == 'n:1']
    # from the store, every path to an accepting return passes one of the checks
    seen = set()
    stack = [m for sn in snodes for (m, _) in sn.succs]
    escaped = False
    heads = set()
    for an in ancestors(store):
        if an.get('kind') in ('ForStmt', 'WhileStmt'):
            heads |= set(n.id for n in g.live if n.kind == 'loop' and n.ast is an)
            break
    while stack:
        n = stack.pop()
        if n.id in seen or any(n is c for c in cut):
            continue
        seen.add(n.id)
        if any(n is a for a in acc) or n.id in heads:
            escaped = True
            break
        stack.extend(m for (m, _) in n.succs)
    if escaped:
        return False, '', 'a path from the store reaches the next iteration / an accepting return without the comparison'
    return True, 'compared with hdr.%s, failing edge rejects' % cnt, ''


def _leads_to_false(g, n, keys):
    seen = set()
    while n is not None and n.id not in seen:
        seen.add(n.id)
        if n.kind == 'stmt' and n.ast is not None and n.ast.get('kind') == 'ReturnStmt':
            ks = kids(n.ast)
            return bool(ks) and keys.key(ks[0]) in ('n:0', 'null')
        if len(n.succs) == 1 and n.kind in ('join', 'stmt'):
            n = n.succs[0][0]
            continue
        return False
    return False


def _bounded_local(ctx, u, f, store, val, F):
    """value is a local search index proven != the container size (or <= 255 and < size)."""
    keys = F.keys
    x = peel(val)
    while x.get('kind') in ('CXXStaticCastExpr',):
        x = peel(kids(x)[-1])
    if x.get('kind') != 'DeclRefExpr':
        return None
    vk = keys.key(x)
    fs = F.facts_at_ast(store) or frozenset()
    lt = [f_ for f_ in fs if f_[0] == '<' and f_[1] == vk and f_[2].endswith('.typecnt')]
    if lt:
        return 'search index < hdr.typecnt on this path'
    ne = [f_ for f_ in fs if f_[0] == '!=' and vk in (f_[1], f_[2]) and (f_[1].endswith('.typecnt') or f_[2].endswith('.typecnt'))]
    if ne and _monotone_up_to(ctx, u, f, x, F):
        return 'search index, != hdr.typecnt on this path and never beyond it'
    return None


def _monotone_up_to(ctx, u, f, ref, F):
    """The local only moves inside [0, typecnt]: starts at a validated index or 0, is
    decremented only while != 0 and incremented only while != hdr.typecnt."""
    did = (ref.get('referencedDecl') or {}).get('id')
    keys = F.keys
    vk = keys.key(ref)
    for x in walk(f):
        if x.get('kind') == 'UnaryOperator' and x.get('opcode') in ('++', '--') and \
                (peel(kids(x)[0]).get('referencedDecl') or {}).get('id') == did:
            fs = F.facts_at_ast(x) or frozenset()
            if x.get('opcode') == '++':
                if not any((op == '!=' and vk in (a, b) and (a.endswith('.typecnt') or b.endswith('.typecnt'))) or
                           (op == '<' and a == vk and b.endswith('.typecnt')) for (op, a, b) in fs):
                    return False
            else:
                if not any((op == '!=' and set((a, b)) == set((vk, 'n:0'))) or (op in ('<', '<=') and b == vk and a.startswith('n:') and
                                                                          int(a[2:]) >= (0 if op == '<' else 1)) for (op, a, b) in fs):
                    return False
        if x.get('kind') == 'BinaryOperator' and x.get('opcode') == '=' and \
                (peel(kids(x)[0]).get('referencedDecl') or {}).get('id') == did:
            rk = keys.key(kids(x)[1])
            if not (rk == 'n:0' or rk.endswith('.type_index')):
                return False
    return True


# ----------------------------------------------------------------------------
# C12-da (2),(3)


class _DAObs(Observer):
    def __init__(self, root):
        self.root = root
        self.reads = []

    def uninit_read(self, ai, e, loc, maybe, st):
        if loc and loc[0] == self.root:
            self.reads.append((e, loc, maybe))


def check_da_members(ctx):
    G = ctx.G
    # (2) Header::Build
    kb = G.one('cctz::Header::Build')
    u, f = G.defs[kb]
    obs = _DAObs('HDR')
    ai = AI(G, obs, ptr_partition=False, inline=lambda k: k[0] not in ('cctz::Decode8', 'cctz::Decode32', 'cctz::Decode64'))
    st = St()
    st.refs['this'] = ('HDR',)
    st.refs[params_of(f)[0]['id']] = ('TZH',)
    counts = ('timecnt', 'typecnt', 'charcnt', 'leapcnt', 'ttisstdcnt', 'ttisutcnt')
    for c in counts:
        st.mem[('HDR', c)] = UNINIT
    res = ai.analyse(kb, st)
    acc = [(v, s) for (v, s) in res if isinstance(v, Int) and v.hi >= 1]
    # (a count filled in through its address, say from a table of destinations, is not followed: no verdict for it)
    addr_taken = set(peel(kids(y)[0]).get('name') for y in walk(f) if y.get('kind') == 'UnaryOperator' and y.get('opcode') == '&' and
                     peel(kids(y)[0]) is not None and peel(kids(y)[0]).get('kind') == 'MemberExpr')
    # (... nor is one stored through a pointer to member picked from a table)
    via_memptr = any(y.get('kind') == 'BinaryOperator' and y.get('opcode') in ('.*', '->*') for y in walk(f))
    for c in counts:
        ok = bool(acc) and all(isinstance(s.mem.get(('HDR', c)), Int) and s.mem[('HDR', c)].lo >= 0 for (v, s) in acc)
        ctx.check3(None if (not ok and (c in addr_taken or via_memptr)) else ok, 'C12-da', 'Header::Build true => %s assigned and non-negative' % c, f,
                  'Header::Build can return true with %s unassigned or negative: DataLength and every loop bound derived '
                  'from it are indeterminate' % c, construct='da:header:%s' % c,
                  detail=str([str(s.mem.get(('HDR', c))) for (v, s) in acc][:2]),
                  unknown_why='%s is assigned through its address (&%s is taken in Header::Build): the stores are not followed' % (c, c))
    # (3) members of TimeZoneInfo
    members = ('default_transition_type_', 'extended_', 'last_year_')

    def part(loc, v):
        if loc[-1] == 'extended_' and isinstance(v, Int) and v.const() is not None:
            return v.const()
        return None
    for (name, sub, what) in (('cctz::TimeZoneInfo::Load', 'ZoneInfoSource', 'Load(ZoneInfoSource*)'),
                              ('cctz::TimeZoneInfo::ResetToBuiltinUTC', None, 'ResetToBuiltinUTC')):
        k = G.one(name, sub)
        u, f = G.defs[k]
        obs = _DAObs('TZI')
        ai = AI(G, obs, partition=part, max_parts=16, ptr_partition=False,
                inline=lambda kk: kk[0] in ('cctz::TimeZoneInfo::ExtendTransitions', 'cctz::Header::Build',
                                            'cctz::Header::DataLength'))
        st = St()
        st.refs['this'] = ('TZI',)
        for p in params_of(f):
            if qtype(p).rstrip().endswith('*'):
                st.mem[(p['id'],)] = Ptr('NN', ('ARG', p['id']), I(0))
            elif qtype(p).rstrip().endswith('&'):
                st.refs[p['id']] = ('ARG', p['id'])
        for m in members:
            st.mem[('TZI', m)] = UNINIT
        res = ai.analyse(k, st)
        acc = [(v, s) for (v, s) in res if isinstance(v, Int) and v.hi >= 1]
        if not acc:
            raise AnalysisBroken('C12-da: %s has no accepting exit state' % what)
        ctx.stats['absint_' + what] = dict(ai.stats)
        for m in ('default_transition_type_', 'extended_'):
            vals = [s.mem.get(('TZI', m)) for (v, s) in acc]
            ok = all(x is not UNINIT and x is not MAYBE_UNINIT and x is not None for x in vals)
            ctx.check(ok, 'C12-da', '%s success => %s assigned' % (what, m), f,
                      '%s can succeed leaving %s unassigned: every later query reads an indeterminate value (the zone '
                      'behaves differently depending on what the allocator handed out)' % (what, m),
                      construct='da:%s:%s' % (what, m), detail=str([str(x) for x in vals][:3]))
        bad = [s for (v, s) in acc if not (isinstance(s.mem.get(('TZI', 'extended_')), Int) and
                                           s.mem[('TZI', 'extended_')].const() == 0) and
               (s.mem.get(('TZI', 'last_year_')) is UNINIT or s.mem.get(('TZI', 'last_year_')) is MAYBE_UNINIT)]
        ctx.check(not bad, 'C12-da', '%s success with extended_ possibly true => last_year_ assigned' % what, f,
                  '%s can succeed with extended_ true (or unknown) and last_year_ unassigned' % what,
                  construct='da:%s:last_year_' % what)
        for (e, loc, maybe) in obs.reads:
            ctx.bad('C12-da', 'read of %s before assignment in %s' % (loc[-1], what), e,
                    'the member is read on a path where it has not been assigned', construct='da-read:%s:%s' % (what, loc[-1]))
    # readers of last_year_ are guarded by extended_
    for k, (u, f) in G.defs.items():
        if not k[0].startswith('cctz::TimeZoneInfo::') or k[0].endswith('::ExtendTransitions'):
            continue
        for x in walk(f):
            if x.get('kind') == 'MemberExpr' and x.get('name') == 'last_year_' and \
                    x.get('_p', {}).get('kind') == 'ImplicitCastExpr' and x['_p'].get('castKind') == 'LValueToRValue':
                F = ctx.facts(f)
                fs = F.facts_at_ast(x) or frozenset()
                ok = any(op == '!=' and set((a, b)) == set(('this.extended_', 'n:0')) for (op, a, b) in fs)
                if not ok and k[0].endswith('::TimeLocal'):
                    # private helper: every caller passes through the guard
                    ok = _callers_guarded(ctx, k, 'this.extended_')
                ctx.check(ok, 'C12-da', 'last_year_ read in %s only when extended_' % fname(k), x,
                          'last_year_ (assigned only when the footer was expanded) is read without extended_ having '
                          'been tested', construct='da:last_year_read:%s' % fname(k))
    ctx.minimum('C12-da', 12)


def _callers_guarded(ctx, fkey, key):
    G = ctx.G
    n = 0
    for k, es in G.edges.items():
        for (kind, t, site) in es:
            if t == fkey and kind in ('direct', 'virtual'):
                n += 1
                u, f = G.defs[k]
                fs = ctx.facts(f).facts_at_ast(site) or frozenset()
                if not any(op == '!=' and set((a, b)) == set((key, 'n:0')) for (op, a, b) in fs):
                    return False
    return n > 0


# ----------------------------------------------------------------------------
# C12-inval: references into a container must not survive its reallocation

REALLOC = {'reserve', 'resize', 'push_back', 'emplace', 'emplace_back', 'insert', 'assign', 'clear', 'shrink_to_fit',
           'append', 'erase', 'pop_back', 'operator=', 'swap', 'operator+='}
ELEMENT = {'back', 'front', 'at', 'operator[]', 'data', 'begin', 'end', 'emplace', 'insert', 'c_str'}


def invalidation_findings(ctx, functions):
    out = []
    n_refs = 0
    for (k, u, f) in functions:
        keys = Keys(u)
        g = None
        for d in walk(f):
            if d.get('kind') != 'VarDecl' or not kids(d) or 'init' not in d:
                continue
            t = qtype(d).rstrip()
            if not (t.endswith('&') or t.endswith('*')):
                continue
            cont = _container_of(kids(d)[-1], keys)
            if cont is None:
                continue
            n_refs += 1
            g = g or ctx.cfg(f)
            bnodes = g.nodes_for(d)
            uses = [x for x in walk(f) if x.get('kind') == 'DeclRefExpr' and (x.get('referencedDecl') or {}).get('id') == d['id']]
            invs = []
            for x in walk(f):
                if x.get('kind') == 'CXXMemberCallExpr' and callee(x) and callee(x)[1] in REALLOC and callee(x)[2] is not None \
                        and keys.key(callee(x)[2]) == cont and not any(y is d for y in ancestors(x)):
                    invs.append(x)
                if x.get('kind') == 'CXXOperatorCallExpr' and callee(x) and callee(x)[0] == 'fn' and \
                        callee(x)[1].get('name') in ('operator=', 'operator+=') and call_args(x) and keys.key(call_args(x)[0]) == cont:
                    invs.append(x)
            for inv in invs:
                inodes = g.nodes_for(inv)
                # binding -> invalidation -> use, without passing the binding again
                if not _reach(g, bnodes, inodes, avoid=()):
                    continue
                for use in uses:
                    unodes = g.nodes_for(use)
                    if any(un in inodes for un in unodes) and _before_in_expr(use, inv):
                        continue
                    if _reach(g, inodes, unodes, avoid=bnodes, strict=True):
                        out.append((k, d, cont, inv, use))
                        break
    return out, n_refs


def _before_in_expr(a, b):
    pa, pb = a.get('_pos'), b.get('_pos')
    return bool(pa and pb and (pa[1], pa[2] or 0) < (pb[1], pb[2] or 0))


def _container_of(init, keys):
    x = peel(init, explicit=False)
    # &c[i] / c.data() / &c.back() / *c.emplace(...)
    while x is not None and x.get('kind') == 'UnaryOperator' and x.get('opcode') in ('&', '*'):
        x = peel(kids(x)[0], explicit=False)
    if x is None:
        return None
    if x.get('kind') == 'CXXMemberCallExpr' and callee(x) and callee(x)[1] in ELEMENT and callee(x)[2] is not None:
        t = dtype(callee(x)[2]) or qtype(callee(x)[2])
        if re.search(r'\b(vector|basic_string|string|deque)\b', t):
            return keys.key(callee(x)[2])
    if x.get('kind') == 'CXXOperatorCallExpr' and callee(x) and callee(x)[0] == 'fn' and callee(x)[1].get('name') == 'operator[]':
        a = call_args(x)
        t = dtype(a[0]) or qtype(a[0])
        if re.search(r'\b(vector|basic_string|string|deque)\b', t):
            return keys.key(a[0])
    return None


def _reach(g, starts, targets, avoid=(), strict=False):
    tg = set(n.id for n in targets)
    av = set(n.id for n in avoid)
    seen = set()
    stack = []
    for s in starts:
        if strict:
            stack.extend(m for (m, _) in s.succs)
        else:
            stack.append(s)
    while stack:
        n = stack.pop()
        if n.id in seen or n.id in av:
            continue
        seen.add(n.id)
        if n.id in tg:
            return True
        stack.extend(m for (m, _) in n.succs)
    return False


def check_inval(ctx):
    G = ctx.G
    reach = G.reachable([G.one('cctz::TimeZoneInfo::Load', 'ZoneInfoSource'), G.one('cctz::TimeZoneInfo::ResetToBuiltinUTC')])
    fns = [(k,) + G.defs[k] for k in sorted(reach) if k[0].startswith('cctz::')]
    found, n_refs = invalidation_findings(ctx, fns)
    for (k, d, cont, inv, use) in found:
        ctx.bad('C12-inval', '%s (into %s) used after %s in %s' % (d.get('name'), cont.replace('this.', ''), callee(inv)[1] if callee(inv)[0] == 'method' else 'assignment', fname(k)),
                use, 'a reference/pointer to an element of %s is used at %s after %s at %s may have reallocated it: '
                'the access reads or writes freed memory' % (cont.replace('this.', ''), pos(use), callee(inv)[1] if callee(inv)[0] == 'method' else 'assignment', pos(inv)),
                construct='inval:%s:%s' % (fname(k), d.get('name')))
    ctx.ok('C12-inval', '%d element references/pointers in %d loader functions: none survives a reallocating call' % (n_refs, len(fns)),
           None, 'binding -> reallocation -> use path search on the CFG')
    if n_refs < 6:
        raise AnalysisBroken('C12-inval: only %d element references found' % n_refs)
    # positive control
    cp = control_program(['inval.cc'], std=ctx.P.std)
    cg = CallGraph(cp)

    class _C(object):
        pass
    from ..core import Ctx
    cctx = Ctx('C12', ctx.tier, cp, cg)
    cf, _ = invalidation_findings(cctx, [(k,) + cg.defs[k] for k in cg.defs])
    if len(cf) < 1:
        raise AnalysisBroken('C12-inval positive control did not fire')
    ctx.ok('C12-inval', 'positive control controls/inval.cc fires (%d)' % len(cf), None, 'control')


# ----------------------------------------------------------------------------
# C12-footer


class _SubObs(Observer):
    def __init__(self):
        self.subs = {}
        self.ovf = {}

    def subscript(self, ai, e, ext, idx, st):
        cur = self.subs.get(id(e))
        self.subs[id(e)] = (e, ext, idx if cur is None else cur[2].join(idx))

    def overflow(self, ai, e, val, it, st):
        self.ovf[id(e)] = (e, val, it)


def bind_trans_offset(ai, u, f, st, leap, weekday):
    """Bind the inputs of TransOffset by what they are, not by position: the PosixTransition (named ('PT',)), the leap-year
    flag (a bool) and January 1st's weekday (an int), whether they are parameters or members of a record parameter.
    False when the signature is not of that shape."""
    n_b = n_i = n_pt = 0
    for p_ in params_of(f):
        t = (dtype(p_) or qtype(p_) or '').replace('const ', '').replace('&', '').strip()
        if 'PosixTransition' in t:
            st.refs[p_['id']] = ('PT',)
            n_pt += 1
        elif t == 'bool':
            st.mem[(p_['id'],)] = leap
            n_b += 1
        elif t == 'int':
            st.mem[(p_['id'],)] = weekday
            n_i += 1
        else:
            rec = ai._record(u, t)
            if rec is None or not (qtype(p_) or '').rstrip().endswith('&'):
                return False
            st.refs[p_['id']] = ('YS',)
            for fd in kids(rec):
                if fd.get('kind') != 'FieldDecl':
                    continue
                ft_ = (dtype(fd) or qtype(fd) or '').replace('const ', '').strip()
                if ft_ == 'bool':
                    st.mem[('YS', fd.get('name'))] = leap
                    n_b += 1
                elif ft_ == 'int':
                    st.mem[('YS', fd.get('name'))] = weekday
                    n_i += 1
    return (n_b, n_i, n_pt) == (1, 1, 1)


def check_footer(ctx, rule):
    G = ctx.G
    R = c16.analyse_parser(ctx)
    hull = {}
    for (v, s) in R['accept']:
        for kk, val in s.mem.items():
            if kk[0] == 'RES' and isinstance(val, Int) and kk[1] in ('dst_start', 'dst_end'):
                key = kk[2:]
                hull[key] = val if key not in hull else hull[key].join(val)
    need = [('date', 'fmt'), ('date', 'j', 'day'), ('date', 'n', 'day'), ('date', 'm', 'month'), ('date', 'm', 'week'),
            ('date', 'm', 'weekday'), ('time', 'offset')]
    missing = [k_ for k_ in need if k_ not in hull]
    for k_ in missing:
        ctx.bad(rule, 'footer parser determines %s' % '.'.join(k_), R['fn'],
                'no accepting path of the footer parser assigns %s: the rule expander reads an indeterminate value' % '.'.join(k_),
                construct='footer:missing:%s' % '.'.join(k_))
    if missing:
        return 0
    k = G.one('cctz::TransOffset')
    u, f = G.defs[k]
    obs = _SubObs()
    ai = AI(G, obs)
    ps = params_of(f)
    st = St()
    if not bind_trans_offset(ai, u, f, st, Int(0, 1), Int(0, 6)):
        ctx.unknown(rule, 'TransOffset subscripts within the tables', f, 'the inputs of TransOffset (leap-year flag, weekday of January 1st, '
                    'rule date) were not identified in its parameter list', construct='footer:transoffset')
        return 0
    for key, val in hull.items():
        st.mem[('PT',) + key] = val
    res = ai.analyse(k, st)
    if not res:
        raise AnalysisBroken('%s: TransOffset not analysable' % rule)
    for (e, ext, idx) in obs.subs.values():
        ctx.check(idx.lo >= 0 and idx.hi < ext, rule, 'TransOffset subscript at %s: %s within [0,%d)' % (pos(e), idx, ext), e,
                  'with the field ranges the footer parser admits the rule expander subscripts a table of extent %d with %s'
                  % (ext, idx), construct='footer:sub:%d' % ext, detail=str(idx))
    for (e, val, it) in obs.ovf.values():
        ctx.bad(rule, 'TransOffset arithmetic at %s stays in range' % pos(e), e,
                'with the admitted field ranges this arithmetic can leave its type (%s)' % val, construct='footer:ovf:%s' % pos(e))
    rng = None
    for (v, s) in res:
        if isinstance(v, Int):
            rng = v if rng is None else rng.join(v)
    ctx.ok(rule, 'TransOffset result ranges over %s seconds' % rng, f, 'no overflow of its 64-bit type')
    return len(obs.subs)


# ----------------------------------------------------------------------------
# C12-sentinel: a transition in each half of the time line on every accepting path


def _insertion_of(u, f, d):
    """(call, 'begin' | 'end') when the reference local <d> names an entry freshly inserted at the front / the back of a
    vector: `T& r(*v.emplace(v.end()))`, `*v.insert(v.begin(), T())`, or `v.emplace_back(); T& r(v.back());` (the insertion
    is the statement right before the declaration); (None, None) otherwise."""
    if d is None or d.get('kind') != 'VarDecl' or not kids(d):
        return None, None
    K = Keys(u)
    init = kids(d)[-1]
    calls = [x for x in walk(init) if x.get('kind') == 'CXXMemberCallExpr' and callee(x) and callee(x)[1] in ('emplace', 'insert')]
    if len(calls) == 1 and K.key(init).startswith('*'):
        c = calls[0]
        a = call_args(c)
        vec = K.key(callee(c)[2]) if callee(c)[2] is not None else None
        if a and vec:
            ka = K.key(a[0])
            if ka == vec + '.begin()' or ka == vec + '.cbegin()':
                return c, 'begin'
            if ka == vec + '.end()' or ka == vec + '.cend()':
                return c, 'end'
        return None, None
    ik = K.key(init)
    m = re.match(r'^(.*)\[\(\1\.size\(\) - n:1\)\]$', ik)
    which = None
    if m:
        vec, which = m.group(1), 'end'
    else:
        m = re.match(r'^(.*)\[n:0\]$', ik)
        if m:
            vec, which = m.group(1), 'begin'
        elif ik.endswith('.back()'):
            vec, which = ik[:-7], 'end'
        elif ik.endswith('.front()'):
            vec, which = ik[:-8], 'begin'
    if which is None:
        return None, None
    # the statement right before the declaration
    for cs in walk(f):
        if cs.get('kind') != 'CompoundStmt':
            continue
        ks = kids(cs)
        for i, st in enumerate(ks):
            if st.get('kind') == 'DeclStmt' and any(y is d or y.get('id') == d.get('id') for y in kids(st)) and i > 0:
                prev = peel(ks[i - 1])
                if prev.get('kind') == 'ExprWithCleanups' and kids(prev):
                    prev = peel(kids(prev)[0])
                if prev.get('kind') != 'CXXMemberCallExpr' or not callee(prev) or callee(prev)[2] is None or \
                        K.key(callee(prev)[2]) != vec:
                    return None, None
                nm = callee(prev)[1]
                a = call_args(prev)
                if which == 'end' and (nm in ('emplace_back', 'push_back') or
                                       (nm in ('emplace', 'insert') and a and K.key(a[0]) in (vec + '.end()', vec + '.cend()'))):
                    return prev, 'end'
                if which == 'begin' and nm in ('emplace', 'insert') and a and K.key(a[0]) in (vec + '.begin()', vec + '.cbegin()'):
                    return prev, 'begin'
                return None, None
    return None, None


def check_sentinels(ctx):
    G = ctx.G
    k = G.one('cctz::TimeZoneInfo::Load', 'ZoneInfoSource')
    u, f = G.defs[k]
    F = ctx.facts(f)
    keys = F.keys
    g = ctx.cfg(f)
    acc = [rn for rn in g.returns if keys.key(kids(rn.ast)[0]) == 'n:1']
    fo = Folder(u)
    # nodes that give a freshly emplaced entry a constant instant
    ins = {'first': [], 'last': []}
    for x in walk(f):
        if x.get('kind') == 'BinaryOperator' and x.get('opcode') == '=' and keys.key(kids(x)[0]).endswith('.unix_time'):
            v = fo.fold(kids(x)[1])
            tgt = peel(kids(x)[0])
            base = peel(kids(tgt)[0]) if kids(tgt) else None
            d = u.by_id.get((base.get('referencedDecl') or {}).get('id')) if base is not None and base.get('kind') == 'DeclRefExpr' else None
            call_, where_ = _insertion_of(u, f, d)
            if v is not None and call_ is not None:
                if v < 0 and where_ == 'begin':
                    ins['first'].append(x)
                if v >= 0 and where_ == 'end':
                    ins['last'].append(x)
    for half, insert_nodes, op_ok in (('first', ins['first'], 'neg'), ('second', ins['last'], 'nonneg')):
        cut_edges = []
        for n in g.live:
            if n.kind != 'cond':
                continue
            for lab in ('T', 'F'):
                for (op, a, b) in F.cond_facts(n.ast, lab == 'T'):
                    ka = a if b == 'n:0' else b if a == 'n:0' else None
                    if ka is not None and not ka.endswith('.unix_time'):
                        # a const local standing for the instant of the first / last entry
                        rk_ = F.resolve_key(ka)
                        m_ = re.match(r'^(\w+)#(0x[0-9a-f]+)$', ka)
                        if rk_ == ka and m_:
                            d_ = u.by_id.get(m_.group(2))
                            if d_ is not None and d_.get('kind') == 'VarDecl' and kids(d_) and 'const' in (qtype(d_) or '') and \
                                    '&' not in (qtype(d_) or ''):
                                rk_ = Keys(u).key(kids(d_)[-1])
                        if rk_.endswith('.unix_time'):
                            ka_orig, ka = ka, rk_
                            a, b = (ka, b) if a == ka_orig else (a, ka)
                    if ka is None or not ka.endswith('.unix_time'):
                        continue
                    which = 'front' if ('.front()' in ka or '[n:0]' in ka) else 'back' if ('.back()' in ka or 'size() - n:1' in ka) else None
                    # `last` declared as transitions_.back()
                    m = re.match(r'^(\w+)#(0x[0-9a-f]+)\.unix_time$', ka)
                    if m and which is None:
                        d = u.by_id.get(m.group(2))
                        ik = Keys(u).key(kids(d)[-1]) if d is not None and kids(d) else ''
                        which = 'back' if ('.back()' in ik or 'size() - n:1' in ik) else 'front' if ('.front()' in ik or '[n:0]' in ik) else None
                    if half == 'first' and which == 'front' and ((op == '<' and a == ka and b == 'n:0')):
                        cut_edges.append((n.id, lab))
                    if half == 'second' and which == 'back' and ((op == '<=' and a == 'n:0' and b == ka)):
                        cut_edges.append((n.id, lab))
        cut_nodes = [nn for x in insert_nodes for nn in g.nodes_for(x)]
        ok = bool(cut_nodes) and not g.reachable_avoiding(acc, cut_nodes, cut_edges)
        ctx.check(ok, 'C12-sentinel', 'every successful load leaves a transition in the %s half of the time line' % half, f,
                  'Load can succeed without the %s transition being %s or a sentinel being added: differences between an instant '
                  'and its nearest transition are then not representable and lookups far from the data overflow' % (
                      'first' if half == 'first' else 'last', 'negative' if half == 'first' else 'non-negative'),
                  construct='sentinel:%s' % half, detail='%d guard edge(s), %d insertion(s)' % (len(cut_edges), len(cut_nodes)))
    ctx.minimum('C12-sentinel', 2)
    return u, f, F, g, ins


from ..expr import _member_fn_type, _is_const_method


def _succ_closure(g, starts):
    seen = set()
    stack = list(starts)
    while stack:
        n = stack.pop()
        for (m, _) in n.succs:
            if m.id not in seen:
                seen.add(m.id)
                stack.append(m)
    return seen


def check_sentinel_types(ctx, rule):
    """The inserted sentinel entries change nothing: the one put in front carries the type designated for times before
    the first transition, the one appended carries the type of the entry that was last before it was appended."""
    saved = len(ctx.obligations)
    mins = dict(ctx.minimums)
    u, f, F, g, ins = check_sentinels(ctx)
    del ctx.obligations[saved:]
    ctx.minimums.clear()
    ctx.minimums.update(mins)
    keys = Keys(u)
    n = 0
    for half in ('first', 'last'):
        for a in ins[half]:
            tgt = peel(kids(a)[0])
            base = peel(kids(tgt)[0])
            did = (base.get('referencedDecl') or {}).get('id')
            d = u.by_id.get(did)
            # the emplace call that creates the entry
            call_, _w = _insertion_of(u, f, d)
            emp = [call_] if call_ is not None else []
            if len(emp) != 1:
                ctx.unknown(rule, 'type of the %s sentinel' % half, a, 'the insertion that creates the sentinel entry is not a single emplace call',
                            construct='sentinel-type:%s' % half)
                continue
            vec = keys.key(callee(emp[0])[2])
            enodes = g.nodes_for(emp[0])
            after = _succ_closure(g, enodes)
            stores = [x for x in walk(f) if x.get('kind') == 'BinaryOperator' and x.get('opcode') == '=' and
                      peel(kids(x)[0]).get('kind') == 'MemberExpr' and peel(kids(x)[0]).get('name') == 'type_index' and
                      (peel(kids(peel(kids(x)[0]))[0]).get('referencedDecl') or {}).get('id') == did]
            n += 1
            if len(stores) != 1:
                ctx.check(False, rule, 'the %s sentinel is given a type exactly once' % half, a,
                          'the inserted entry keeps the value-initialised type 0 or is typed more than once (%d stores)' % len(stores),
                          construct='sentinel-type:%s' % half)
                continue
            V = kids(stores[0])[1]
            if half == 'first':
                k = F.ident_key(V)
                ctx.check(k == 'this.default_transition_type_', rule,
                          'the entry put in front carries the type designated for times before the first transition', stores[0],
                          'the sentinel inserted before the first transition has type %s instead of default_transition_type_: '
                          'instants before the first recorded transition (or the sentinel itself) show another local-time type' % k,
                          construct='sentinel-type:first', detail=k)
                continue
            # appended sentinel: find where the stored value is read from the table
            verdict, why = _reads_last_before(u, f, g, keys, V, stores[0], vec, enodes, after)
            ctx.check3(verdict, rule, 'the appended entry carries the type of the entry that was last before it', stores[0],
                       'the sentinel appended at 2^31-1 is typed with %s: it is not a no-op continuation of the last recorded '
                       'transition, so every instant from 2038 on shows another local-time type' % why,
                       construct='sentinel-type:last', detail=why, unknown_why='the stored value is %s' % why)
    ctx.check(n >= 2, rule, 'both sentinel insertions found', f, 'found %d' % n, construct='sentinel-type:n')
    ctx.minimum(rule, 3)


def _reads_last_before(u, f, g, keys, V, at, vec, enodes, after):
    """(True, why) when V is the type_index of <vec>'s last element as it was before the emplace; (False, why) when it is
    recognisably something else; (None, why) when not recognised."""
    x = peel(V, explicit=True)
    point = at
    for _ in range(6):
        if x.get('kind') == 'DeclRefExpr':
            d = u.by_id.get((x.get('referencedDecl') or {}).get('id'))
            if d is None or d.get('kind') != 'VarDecl' or not kids(d) or '&' in (qtype(d) or ''):
                return None, 'read through %s' % keys.key(x)
            # a value local: the read happened where it was initialised; it must not be reassigned
            if any(y.get('kind') in ('BinaryOperator', 'CompoundAssignOperator') and y.get('opcode', '').endswith('=') and
                   y.get('opcode') not in ('==', '!=', '<=', '>=') and
                   (peel(kids(y)[0]).get('referencedDecl') or {}).get('id') == d['id'] for y in walk(f)):
                return None, 'a reassigned local'
            point = d
            x = peel(kids(d)[-1], explicit=True)
            continue
        break
    if x.get('kind') in ('IntegerLiteral',) or Folder(u).fold(x) is not None:
        return False, 'the constant %s' % Folder(u).fold(x)
    if x.get('kind') != 'MemberExpr' or x.get('name') != 'type_index':
        k = keys.key(x)
        if k.startswith('this.') and '(' not in k and '[' not in k:
            return False, k
        return None, k
    el = peel(kids(x)[0], explicit=True)
    bind_point = point
    if el.get('kind') == 'DeclRefExpr':
        d = u.by_id.get((el.get('referencedDecl') or {}).get('id'))
        if d is not None and d.get('kind') == 'VarDecl' and kids(d) and '&' in (qtype(d) or ''):
            bind_point = d
            el = peel(kids(d)[-1], explicit=True)
    ek = keys.key(el)
    pn = set(n_.id for n_ in g.nodes_for(point))
    bn = set(n_.id for n_ in g.nodes_for(bind_point))
    if not pn or not bn:
        return None, 'read at an unlocated point'
    read_after = bool(pn & after) or bool(pn & set(n_.id for n_ in enodes) and point is at)
    bind_after = bool(bn & after)
    v = re.escape(vec)
    is_back = bool(re.match(r'^(%s\.back\(\)|%s\[\(%s\.size\(\) - n:1\)\]|\*\(\(?%s\.end\(\) - n:1\)?\)|\*\(?%s\.rbegin\(\)\)?)$' % (v, v, v, v, v), ek))
    is_prev = bool(re.match(r'^(%s\[\(%s\.size\(\) - n:2\)\]|\*\(\(?%s\.end\(\) - n:2\)?\))$' % (v, v, v), ek))
    if not (is_back or is_prev):
        if ek.startswith(vec):
            return False, 'the type of %s' % ek
        return None, 'the type of %s' % ek
    if bind_after != read_after:
        return False, 'a read through a reference into %s bound before the insertion (the insertion may reallocate)' % vec
    if is_back and not read_after:
        # no other change of the table between the read and the insertion
        between = _succ_closure(g, g.nodes_for(bind_point)) - after - set(n_.id for n_ in enodes)
        byid = {n_.id: n_ for n_ in g.live}
        for nid in between:
            a_ = byid[nid].ast if nid in byid else None
            if a_ is None:
                continue
            for y in walk(a_):
                if y.get('kind') == 'CXXMemberCallExpr' and callee(y) and (
                        (callee(y)[2] is not None and keys.key(callee(y)[2]) == vec and
                         callee(y)[1] in ('emplace', 'emplace_back', 'push_back', 'insert', 'erase', 'pop_back', 'resize', 'clear')) or
                        (peel(callee(y)[2] or {}, explicit=False).get('kind') == 'CXXThisExpr' and
                         not _is_const_method(_member_fn_type(y, peel(kids(y)[0], explicit=False))))):
                    return None, 'the last entry read before another change of the table (%s)' % pos(y)
        return True, '%s.type_index read before the insertion' % ek
    if is_prev and read_after:
        return True, '%s.type_index read after the insertion' % ek
    if is_back and read_after:
        return False, 'its own (value-initialised) type: %s read after the insertion is the new entry itself' % ek
    return False, 'the type of the entry before the last one (%s read before the insertion)' % ek


def run(ctx):
    G = ctx.G
    check_cursor(ctx)
    check_sentinels(ctx)
    check_index(ctx)
    # C12-narrow / C12-loops
    kl = G.one('cctz::TimeZoneInfo::Load', 'ZoneInfoSource')
    scope = set(G.reachable([kl, G.one('cctz::TimeZoneInfo::ResetToBuiltinUTC'), G.one('cctz::ParsePosixSpec'),
                             G.one('cctz::FixedOffsetFromName')]))
    loops.check_loops(ctx, 'C12-loops', 'C12-narrow', sorted(scope))
    ctx.minimum('C12-loops', 15)
    # narrow: whole library + positive control
    loops.check_narrow_all(ctx, 'C12-narrow')
    # DA
    c16.check_da(ctx, 'C12-da')
    check_da_members(ctx)
    check_inval(ctx)
    n = check_footer(ctx, 'C12-footer')
    # the footer scanners never read or step beyond the terminating NUL and use no search result untested
    from . import cursor as _cursor
    Gx = ctx.G
    kspec = Gx.one('cctz::ParsePosixSpec')
    for k2, (u2, f2) in sorted(Gx.defs.items()):
        if u2.name == 'time_zone_posix.cc' and k2 in Gx.reachable([kspec]) | {kspec}:
            _cursor.check_function(ctx, 'C12-footer', k2)
    ctx.minimum('C12-footer', 13)
    # C12-fail
    u, f = ctx.fn('cctz::TimeZoneInfo::Make')
    F = ctx.facts(f)
    resets = [x for x in walk(f) if x.get('kind') == 'CXXMemberCallExpr' and callee(x) and callee(x)[1] == 'reset']
    ok = False
    for r in resets:
        fs = F.facts_at_ast(r) or frozenset()
        if any(op == '==' and 'n:0' in (a, b) and '.Load(' in a + b for (op, a, b) in fs):
            ok = True
    g = ctx.cfg(f)
    ctx.check(ok and len(g.returns) == 1, 'C12-fail', 'TimeZoneInfo::Make drops the object when Load fails', f,
              'a TimeZoneInfo whose Load failed (partially decoded, possibly inconsistent tables) is handed out',
              construct='fail:make')
    ctx.minimum('C12-fail', 1)
    # C12-pure
    reach = G.reachable([kl], stop=())
    ents = {(e['qn'], e['pos']): e for e in entries(ctx)}
    nfn = 0
    DENY = {'getenv', 'secure_getenv', 'time', 'clock', 'clock_gettime', 'gettimeofday', 'rand', 'random', 'setlocale',
            'localtime', 'localtime_r', 'gmtime', 'mktime', 'tzset', 'now', 'fopen', 'getpid'}
    src_methods = set(k for k in reach if k[0].startswith('cctz::FileZoneInfoSource::') or k[0].startswith('cctz::AndroidZoneInfoSource::')
                      or k[0].startswith('cctz::FuchsiaZoneInfoSource::') or k[0].startswith('cctz::ZoneInfoSource::'))
    for k in sorted(reach - src_methods):
        u, f = G.defs[k]
        nfn += 1
        for (name, site) in extern_calls(G, k):
            if name.split('::')[-1] in DENY:
                ctx.bad('C12-pure', '%s called in %s' % (name, fname(k)), site,
                        'decoding consults the environment/clock: the outcome is not a function of the bytes alone',
                        construct='pure:%s:%s' % (fname(k), name))
        for (i, name, node, w) in var_refs(f):
            d = u.by_id.get(i)
            if d is None or not is_static_storage(d) or not ctx.P.inside(d):
                continue
            e = ents.get((qn(d), pos(d)))
            good = e is not None and e['kind'] in ('immutable', 'init-once')
            ctx.check(good, 'C12-pure', 'static %s used in %s' % (qn(d), fname(k)), node,
                      'decoding reads mutable static state', construct='pure:static:%s' % qn(d), detail=e['kind'] if e else '?')
    ctx.ok('C12-pure', '%d functions reachable from Load(ZoneInfoSource*) (data-source methods excluded): no environment/clock call' % nfn,
           None, 'deny-list: ' + ' '.join(sorted(DENY)))
    ctx.assume('ZoneInfoSource::Read returns at most the requested size and eventually 0 (a finite source)')
    ctx.minimum('C12-pure', 5)
