"""Shared analysis of the cache-owning loader (today: time_zone::Impl::LoadTimeZone).

The function is located semantically: it is the function on a call chain to the
factory call that references a static-storage string-keyed map."""
import re
from ..frontend import kids, walk, qn, qtype, dtype, pos, ancestors, AnalysisBroken, body_of
from ..expr import callee, call_args, peel, Keys
from ..callgraph import fname
from ..lock import LockRegions
from .c20 import cache_refs, map_access, mentions_cache, FACTORY


def find_loader(ctx):
    G = ctx.G
    chains = G.paths_to(G.roots(), lambda k, e: e[0] == 'indirect' and e[1] == FACTORY)
    owners = {}
    for (steps, edge) in chains:
        for (k, site) in steps:
            u, f = G.defs[k]
            if cache_refs(u, f, G):
                owners.setdefault(k, []).append(site)
                break
    if len(owners) != 1:
        raise AnalysisBroken('loader: expected exactly one cache-owning function on the chains to the '
                             'factory, found %d' % len(owners))
    k = list(owners)[0]
    sites = []
    for s in owners[k]:
        if not any(s is t for t in sites):
            sites.append(s)
    return k, sites


def _local_decl(u, e):
    x = peel(e)
    if x is not None and x.get('kind') == 'DeclRefExpr':
        return u.by_id.get((x.get('referencedDecl') or {}).get('id'))
    return None


def _init(d):
    ks = [c for c in kids(d) if not c.get('kind', '').endswith('Attr')]
    return ks[-1] if ks and 'init' in d else None


def _mentions_decl(e, ids, G=None, u=None):
    return mentions_cache(G, u, e, ids)


def analyse(ctx):
    if hasattr(ctx, '_loader'):
        return ctx._loader
    G = ctx.G
    k, sites = find_loader(ctx)
    u, f = G.defs[k]
    F = ctx.facts(f)
    g = ctx.cfg(f)
    lr = LockRegions(u, f)
    crefs = cache_refs(u, f, G)
    map_ids = set(d['id'] for (d, n) in crefs)
    mapkeys = set('%s#%s' % (d.get('name'), d.get('id')) for (d, _) in crefs)
    # (a reference / const pointer local bound to the map names the map: references to it are map references)
    alias_ids = set((n.get('referencedDecl') or {}).get('id') for (d, n) in crefs
                    if n.get('kind') == 'DeclRefExpr' and (n.get('referencedDecl') or {}).get('id') != d.get('id'))
    mapkeys |= set('%s#%s' % ((n.get('referencedDecl') or {}).get('name'), (n.get('referencedDecl') or {}).get('id')) for (d, n) in crefs
                   if n.get('kind') == 'DeclRefExpr' and (n.get('referencedDecl') or {}).get('id') in alias_ids)
    map_ids |= alias_ids
    keys = F.keys

    # locals
    locs = {x['id']: x for x in walk(f) if x.get('kind') == 'VarDecl'}
    slot_ids, cachederived_ids, utc_ids, private_ids = set(), set(), set(), set()
    # a local filled in through its address by a cache helper (FindLoaded(name, &impl)) holds what the cache holds
    from .c20 import cache_helpers as _ch
    H_ = _ch(G)
    for x in walk(f):
        if x.get('kind') in ('CallExpr', 'CXXMemberCallExpr') and callee(x):
            from .c20 import call_targets as _ct
            for tgk in _ct(G, x):
                if tgk in H_ and H_[tgk].get('out_cache'):
                    for ai_, a_ in enumerate(call_args(x)):
                        pa_ = peel(a_)
                        if ai_ in H_[tgk]['out_cache'] and pa_.get('kind') == 'UnaryOperator' and pa_.get('opcode') == '&':
                            vid_ = (peel(kids(pa_)[0]).get('referencedDecl') or {}).get('id')
                            if vid_ in locs:
                                cachederived_ids.add(vid_)
    for i, d in locs.items():
        init = _init(d)
        if init is None:
            continue
        t = qtype(d)
        if _mentions_decl(init, map_ids | cachederived_ids, G, u):      # (locals are visited in source order: transitive)
            cachederived_ids.add(i)
            if t.rstrip().endswith('&'):
                x = peel(init)
                if x.get('kind') == 'CXXOperatorCallExpr':
                    c = callee(x)
                    if c and c[0] == 'fn' and c[1].get('name') == 'operator[]':
                        slot_ids.add(i)
                elif x.get('kind') in ('CallExpr', 'CXXMemberCallExpr') and callee(x):
                    # a helper that hands back the slot of the name (insert-if-absent inside it)
                    from .c20 import cache_helpers, call_targets as _ct2
                    H = cache_helpers(G)
                    for tgk in _ct2(G, x):
                        if tgk in H and H[tgk]['returns_cache'] and 'write' in H[tgk]['kinds']:
                            slot_ids.add(i)
        if 'unique_ptr' in (dtype(d) or t) or any(x.get('kind') == 'CXXNewExpr' for x in walk(init)):
            if not _mentions_decl(init, map_ids, G, u):
                private_ids.add(i)
        x = peel(init)
        if x is not None and x.get('kind') == 'CallExpr':
            c = callee(x)
            if c and c[0] == 'fn' and _returns_singleton(ctx, c[1]):
                utc_ids.add(i)

    def source_of(e):
        x = peel(e)
        # peel time_zone(...) constructions
        while x is not None and x.get('kind') in ('CXXConstructExpr', 'CXXTemporaryObjectExpr',
                                                   'CXXFunctionalCastExpr') and len(
                [a for a in kids(x) if a.get('kind') != 'CXXDefaultArgExpr']) == 1:
            x = peel([a for a in kids(x) if a.get('kind') != 'CXXDefaultArgExpr'][0])
        ids = set((y.get('referencedDecl') or {}).get('id') for y in walk(x) if y.get('kind') == 'DeclRefExpr')
        if ids & private_ids:
            return 'private', x
        if ids & (cachederived_ids | map_ids) or mentions_cache(G, u, x, set()):
            return 'cache', x
        if ids & utc_ids:
            return 'utc', x
        if x.get('kind') == 'CallExpr':
            c = callee(x)
            if c and c[0] == 'fn' and _returns_singleton(ctx, c[1]):
                return 'utc', x
        return 'other', x

    # ---- slot writes
    slot_writes = []
    for x in walk(f):
        if x.get('kind') == 'BinaryOperator' and x.get('opcode') == '=':
            lhs, rhs = kids(x)
            d = _local_decl(u, lhs)
            is_slot = d is not None and d['id'] in slot_ids
            if not is_slot:
                l = peel(lhs)
                if l.get('kind') == 'CXXOperatorCallExpr' and _mentions_decl(l, map_ids, G, u):
                    is_slot = True
            if not is_slot:
                continue
            lk = keys.key(lhs)
            fs = F.facts_at_ast(x) or frozenset()
            absent = any(op == '==' and ((a == lk and b == 'null') or (b == lk and a == 'null'))
                         for (op, a, b) in fs)
            arms = []
            r = peel(rhs)
            # a write-once local standing for the value: look at its initialiser
            if r.get('kind') == 'DeclRefExpr':
                dd = _local_decl(u, r)
                if dd is not None and dd.get('kind') == 'VarDecl' and dd['id'] in F.never_written and _init(dd) is not None \
                        and dd['id'] not in utc_ids:
                    r = peel(_init(dd))
            arm_nodes = kids(r)[1:] if r.get('kind') == 'ConditionalOperator' else [r]
            for an in arm_nodes:
                a = peel(an)
                kind, ok, why = 'other', False, 'the value stored in the cache is neither a freshly loaded Impl nor the UTC singleton'
                if a.get('kind') == 'CXXMemberCallExpr':
                    c = callee(a)
                    if c and c[0] == 'method' and c[1] in ('release', 'get') and c[2] is not None:
                        od = _local_decl(u, c[2])
                        if od is not None and od['id'] in private_ids:
                            kind = 'fresh'
                            afs = F.facts_at_ast(an) or frozenset()
                            ok = any(op == '!=' and ('.zone_' in a2 + b2) and (keys.key(c[2]) in a2 + b2)
                                     for (op, a2, b2) in afs)
                            why = ('a freshly constructed Impl is published without its zone_ having been '
                                   'tested non-null on this path: a failed load enters the cache and every '
                                   'thread that gets it dereferences a null zone_')
                if a.get('kind') == 'DeclRefExpr':
                    od = _local_decl(u, a)
                    if od is not None and od['id'] in utc_ids:
                        kind, ok, why = 'utc', True, ''
                arms.append(dict(node=an, kind=kind, ok=ok, why=why, text=keys.key(an)[:80]))
            slot_writes.append(dict(node=x, absent_fact=absent, arms=arms))

    # insertion through emplace / insert / try_emplace (insert-if-absent) or insert_or_assign
    for x in walk(f):
        if x.get('kind') == 'CXXMemberCallExpr' and callee(x) and callee(x)[1] in ('emplace', 'try_emplace', 'insert', 'insert_or_assign') \
                and callee(x)[2] is not None and _mentions_decl(callee(x)[2], map_ids, G, u):
            args = call_args(x)
            if len(args) < 2:
                continue
            r = peel(args[-1])
            if r.get('kind') == 'DeclRefExpr':
                dd = _local_decl(u, r)
                if dd is not None and dd.get('kind') == 'VarDecl' and dd['id'] in F.never_written and _init(dd) is not None \
                        and dd['id'] not in utc_ids:
                    r = peel(_init(dd))
            arm_nodes = kids(r)[1:] if r.get('kind') == 'ConditionalOperator' else [r]
            arms = []
            for an in arm_nodes:
                a = peel(an)
                kind, ok, why = 'other', False, 'the value stored in the cache is neither a freshly loaded Impl nor the UTC singleton'
                if a.get('kind') == 'CXXMemberCallExpr':
                    c = callee(a)
                    if c and c[0] == 'method' and c[1] in ('release', 'get') and c[2] is not None:
                        od = _local_decl(u, c[2])
                        if od is not None and od['id'] in private_ids:
                            kind = 'fresh'
                            afs = F.facts_at_ast(an) or frozenset()
                            ok = any(op == '!=' and ('.zone_' in a2 + b2) and (keys.key(c[2]) in a2 + b2) for (op, a2, b2) in afs)
                            why = ('a freshly constructed Impl is published without its zone_ having been tested non-null on '
                                   'this path')
                if a.get('kind') == 'DeclRefExpr':
                    od = _local_decl(u, a)
                    if od is not None and od['id'] in utc_ids:
                        kind, ok, why = 'utc', True, ''
                arms.append(dict(node=an, kind=kind, ok=ok, why=why, text=keys.key(an)[:80]))
            slot_writes.append(dict(node=x, absent_fact=callee(x)[1] != 'insert_or_assign', arms=arms, lhs_key=None))

    # ---- assignments to the out parameter
    out_params = [p for p in kids(f) if p.get('kind') == 'ParmVarDecl' and re.search(r'time_zone\s*\*$', qtype(p))]
    out_ids = set(p['id'] for p in out_params)
    out_assigns = []
    for x in walk(f):
        if x.get('kind') == 'CXXOperatorCallExpr':
            c = callee(x)
            if not (c and c[0] == 'fn' and c[1].get('name') == 'operator='):
                continue
            args = call_args(x)
            if len(args) != 2:
                continue
            l = peel(args[0])
            if l.get('kind') == 'UnaryOperator' and l.get('opcode') == '*' and \
                    (peel(kids(l)[0]).get('referencedDecl') or {}).get('id') in out_ids:
                src, val = source_of(args[1])
                out_assigns.append(dict(node=x, source=src, text=keys.key(args[1])[:80], value=val,
                                        valkey=keys.key(val)))

    # a pointer handed back by a cache helper's lookup (null = absent)
    def _strip(e):
        x = peel(e)
        while x is not None and x.get('kind') in ('CXXConstructExpr', 'MaterializeTemporaryExpr', 'CXXBindTemporaryExpr', 'ExprWithCleanups') \
                and len([a for a in kids(x) if a.get('kind') != 'CXXDefaultArgExpr']) == 1:
            x = peel([a for a in kids(x) if a.get('kind') != 'CXXDefaultArgExpr'][0])
        return x
    ptrkeys = set('%s#%s' % (locs[i].get('name'), i) for i in cachederived_ids
                  if i not in slot_ids and _init(locs[i]) is not None
                  and _strip(_init(locs[i])).get('kind') in ('CallExpr', 'CXXMemberCallExpr'))
    # ---- hit edges: cond edges that establish  itr != map.end()  (or count()/contains())
    hit_edges = []
    for n in g.live:
        if n.kind == 'cond':
            for lab in ('T', 'F'):
                for (op, a, b) in F.cond_facts(n.ast, lab == 'T'):
                    txt = a + ' ' + b
                    if op == '!=' and any(mk in txt for mk in mapkeys) and '.end()' in txt:
                        hit_edges.append((n, lab))
                    elif op == '!=' and ('null' in (a, b) or 'n:0' in (a, b)) and \
                            re.sub(r'(\.\w+)+$', '', (a if b in ('null', 'n:0') else b)) in ptrkeys:
                        hit_edges.append((n, lab))       # the result of a helper's lookup (or a member of it) is present
    site_nodes = [sn for s in sites for sn in g.nodes_for(s)]
    hit_edges = [e for i, e in enumerate(hit_edges) if not any(e[0] is p[0] and e[1] == p[1] for p in hit_edges[:i])]
    hits = []
    for (n, lab) in hit_edges:
        tgt = [m for (m, l) in n.succs if l == lab]
        reach = _reach_from(g, tgt, site_nodes)
        held = lr.held_at(n.ast)
        hits.append(dict(node=n.ast, label=lab, reaches_load=reach, locked=bool(held)))

    # ---- returns: must-know the last value assigned to *out
    def transfer(node, st):
        if node.kind == 'stmt' and node.ast is not None:
            for x in walk(node.ast):
                for oa in out_assigns:
                    if oa['node'] is x:
                        st = frozenset([p for p in st if p[0] != 'out'] + [('out', oa['valkey'], oa['source'])])
        return st

    def meet(ins):
        r = ins[0]
        for s in ins[1:]:
            r = r & s
        return r
    at, after = g.forward(frozenset(), transfer, meet)
    # the same along the paths that agree with the flag locals (single-exit code: `if (cached) return cached_result;`),
    # together with the assignment that last gave the returned local its value
    ret_ids = set()
    for rn in g.returns:
        rk = kids(rn.ast)
        r0 = peel(rk[0]) if rk else None
        if r0 is not None and r0.get('kind') == 'DeclRefExpr' and (r0.get('referencedDecl') or {}).get('kind') == 'VarDecl':
            ret_ids.add(r0['referencedDecl'].get('id'))

    def extra(node, ex):
        if node.kind not in ('stmt', 'cond') or node.ast is None:
            return ex
        d = dict(ex or ())
        ch = False
        for x in walk(node.ast):
            for i_, oa in enumerate(out_assigns):
                if oa['node'] is x:
                    d['out'] = i_
                    ch = True
            if x.get('kind') == 'VarDecl' and x.get('id') in ret_ids and 'init' in x:
                d[('def', x['id'])] = ('init', x['id'])
                ch = True
            if x.get('kind') == 'BinaryOperator' and x.get('opcode') == '=' and \
                    (peel(kids(x)[0]).get('referencedDecl') or {}).get('id') in ret_ids:
                d[('def', peel(kids(x)[0])['referencedDecl']['id'])] = ('asg', id(x))
                ch = True
        return tuple(sorted(d.items(), key=str)) if ch else ex
    paths = g.explore(extra) if g.flag_vars() else None
    asg_by_id = {id(x): x for x in walk(f) if x.get('kind') == 'BinaryOperator' and x.get('opcode') == '='}
    rets = []
    for rn in g.returns:
        st = at.get(rn.id, frozenset())
        outv = [p for p in st if p[0] == 'out']
        rk = kids(rn.ast)
        rkey = keys.key(rk[0]) if rk else ''
        out_ = outv[0] if outv else None
        if paths is not None and rn.id in paths:
            exs = [dict(ex or ()) for (_st, ex) in paths[rn.id]]
            if out_ is None and exs and all('out' in e_ for e_ in exs):
                idxs = set(e_['out'] for e_ in exs)
                if len(idxs) == 1:
                    oa = out_assigns[list(idxs)[0]]
                    out_ = ('out', oa['valkey'], oa['source'])
                else:
                    srcs = set(out_assigns[i_]['source'] for i_ in idxs)
                    out_ = ('out', '?', list(srcs)[0] if len(srcs) == 1 else 'mixed')
            r0 = peel(rk[0]) if rk else None
            rid = (r0.get('referencedDecl') or {}).get('id') if r0 is not None and r0.get('kind') == 'DeclRefExpr' else None
            if rid in ret_ids and exs:
                defs = set(e_.get(('def', rid)) for e_ in exs)
                if len(defs) == 1 and None not in defs:
                    kind_, ref_ = list(defs)[0]
                    if kind_ == 'asg' and ref_ in asg_by_id:
                        rkey = keys.key(kids(asg_by_id[ref_])[1])
        rets.append(dict(node=rn.ast, out=out_, retkey=rkey, ret=rk[0] if rk else None))

    utc_keys = set('%s#%s' % (locs[i].get('name'), i) for i in utc_ids)
    ctx._loader = dict(key=k, fname=fname(k), unit=u, fn=f, sites=sites, slot_writes=slot_writes,
                       out_assigns=out_assigns, hits=hits, returns=rets, utc_keys=utc_keys,
                       lock=lr, cache=crefs)
    return ctx._loader


def check_cache_key(ctx, rule):
    """Every lookup in / insertion into the name cache made by the loader itself is keyed by the very name the Impl is
    constructed with and records (so that two spellings never share an entry whose name() is the other's)."""
    L = analyse(ctx)
    u, f = L['unit'], L['fn']
    F = ctx.facts(f)
    from .c20 import map_access
    # the name handed to the Impl constructor(s) of the load sites
    built = set()
    for x in walk(f):
        if x.get('kind') in ('CXXNewExpr', 'CXXConstructExpr', 'CXXTemporaryObjectExpr') and 'Impl' in ((x.get('type') or {}).get('qualType') or ''):
            for y in walk(x):
                if y.get('kind') == 'CXXConstructExpr' and 'Impl' in ((y.get('type') or {}).get('qualType') or '') and call_args(y):
                    built.add(F.ident_key(call_args(y)[0]))
    n = 0
    seen = set()
    for (d, node) in L['cache']:
        acc = map_access(node, ctx.G)
        if acc is None or id(acc[1]) in seen:
            continue
        seen.add(id(acc[1]))
        call = acc[1]
        key = None
        if call.get('kind') == 'CXXMemberCallExpr' and callee(call) and callee(call)[1] in ('find', 'count', 'at', 'contains', 'emplace', 'try_emplace',
                                                                                             'insert_or_assign', 'erase') and call_args(call):
            key = call_args(call)[0]
        elif call.get('kind') == 'CXXOperatorCallExpr' and len(call_args(call)) == 2:
            key = call_args(call)[1]
        if key is None:
            continue                # (a helper call, insert(pair), clear(): not a keyed access made here)
        kk = F.ident_key(key)
        n += 1
        ctx.check3((kk in built) if built else None, rule, 'cache access at %s is keyed by the requested name' % pos(call), call,
                   'the name cache is consulted / filled under the key %s while the Impl is built for (and reports) %s: two spellings '
                   'of a name then share one entry, so what a load returns and what name() says depend on which spelling was loaded '
                   'first' % (re.sub(r'#0x[0-9a-f]+', '', kk)[:80], sorted(re.sub(r'#0x[0-9a-f]+', '', b_) for b_ in built)),
                   construct='cache-key', detail=re.sub(r'#0x[0-9a-f]+', '', kk)[:60],
                   unknown_why='the construction of the Impl for the requested name was not found in the loader')
    return n


def _reach_from(g, starts, targets, cut=()):
    """(paths that contradict the constant last given to a flag local are not followed: cfg.reach)"""
    return g.reach(starts, targets, cut_nodes=cut)


def _returns_singleton(ctx, d):
    """Does function d return (on every path) a function-local static initialised once?"""
    ks = ctx.G.resolve_decl(d) if d.get('_qn') else []
    if len(ks) != 1:
        return False
    u, f = ctx.G.defs[ks[0]]
    rets = [x for x in walk(f) if x.get('kind') == 'ReturnStmt']
    if not rets:
        return False
    for r in rets:
        x = peel(kids(r)[0]) if kids(r) else None
        if x is None or x.get('kind') != 'DeclRefExpr':
            return False
        dd = u.by_id.get((x.get('referencedDecl') or {}).get('id'))
        if dd is None or dd.get('storageClass') != 'static' or (dd.get('_p') or {}).get('kind') != 'DeclStmt':
            return False
        t = re.sub(r'\*\s*const\s*$', '*', qtype(dd).strip())
        if not (t.startswith('const ') and t.rstrip().endswith('*')):
            return False
    return True
