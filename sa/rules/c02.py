"""C02 — civil -> instant conversion: UNIQUE / SKIPPED / REPEATED and pre / trans / post (shape clauses)."""
import re
from ..frontend import kids, walk, qn, qtype, dtype, pos, ancestors, AnalysisBroken, params_of
from ..expr import callee, call_args, peel, Keys
from ..callgraph import fname
from ..facts import canon
from ..symval import SymVal, render, single
from . import c10, c14

EXPLANATION = (
    'Only the clauses of C02 whose truth is in the shape of the code are decided. C02-case: in MakeTime, on guarded '
    'symbolic values (what each expression denotes relative to the transition table), every return of '
    'MakeSkipped(X, cs) is reached only with X.prev_civil_sec < cs established, every return of MakeRepeated(X, cs) only '
    'with cs <= X.prev_civil_sec for that same entry X, and the unique answers between transitions only with both '
    'tests refuted for the neighbouring entries. C02-fields: the bodies of MakeUnique/MakeSkipped/MakeRepeated, as '
    'linear forms over (transition instant U, civil second shown at it C, civil second shown just before it P, cs), are '
    'kind = the function\'s own kind, trans = U, pre = U - 1 + (cs - P), post = U + (cs - C) (all three = the instant for '
    'UNIQUE). C02-order: Load refuses tables whose entries are not strictly ordered by civil time, which is what makes the '
    'case analysis decisive. C02-clamp: the saturation guards of MakeTime/TimeLocal (same rule as C10-saturate). Does not '
    'decide that the search returns the right entry beyond its bracket (C14-hint), nor the arithmetic on zone data.')
LEVEL = ('Dominance / symbolic-value proof of the case analysis and of the three field formulas for every input; a necessary '
         'part of C02 (which entry is consulted and how its fields are combined), not the whole of it.')
LEVEL_NOTE = ('Trusts clang 14 AST and sa/; std::upper_bound is taken at its contract; the values of the transition table are '
              'runtime data and are not analysed.')
TECHNIQUE = 'guarded symbolic values (forward dataflow) + must-hold branch facts + linear normal forms of the field formulas'


def run(ctx):
    G = ctx.G
    u, f = ctx.fn('cctz::TimeZoneInfo::MakeTime')
    from ..symval import seeded_search
    ss = seeded_search(ctx, f)
    if ss is None:
        raise AnalysisBroken('C02-case: the table search of MakeTime was not found')
    sv, base, ubcall, _hf = ss
    g = sv.cfg
    ps = params_of(f)
    csk = '%s#%s' % (ps[0]['name'], ps[0]['id'])
    n = dict(skipped=0, repeated=0, unique=0)
    for rn in g.returns:
        if not kids(rn.ast):
            continue
        call = None
        for x in walk(rn.ast):
            if x.get('kind') == 'CallExpr' and callee(x) and callee(x)[0] == 'fn' and \
                    callee(x)[1].get('name') in ('MakeSkipped', 'MakeRepeated', 'MakeUnique'):
                call = x
        if call is None:
            continue
        nm = callee(call)[1].get('name')
        args = call_args(call)
        st = sv.at.get(rn.id)
        facts = sv.facts(sv.conds_at(rn))
        if nm in ('MakeSkipped', 'MakeRepeated'):
            X = single(sv.value(rn, args[0]) or ())
            Xr = render(X)
            q = single(sv.value(rn, args[1]) or ())
            qok = q is not None and render(q) == csk
            if nm == 'MakeSkipped':
                n['skipped'] += 1
                want = canon('<', Xr + '.prev_civil_sec', csk)
                ctx.check(X is not None and X[0] == 'elem' and X[1] == base and qok and want in facts, 'C02-case',
                          'SKIPPED at %s only for X.prev_civil_sec < cs, X = %s' % (pos(rn.ast), Xr), rn.ast,
                          'MakeSkipped(%s, cs) is returned without %s.prev_civil_sec < cs having been established for that entry: '
                          'a civil second that the zone displays is reported as skipped (or the fields are computed from the '
                          'wrong transition)' % (Xr, Xr), construct='case:skipped', detail=str(want))
            else:
                n['repeated'] += 1
                want = canon('<=', csk, Xr + '.prev_civil_sec')
                ctx.check(X is not None and X[0] == 'elem' and X[1] == base and qok and want in facts, 'C02-case',
                          'REPEATED at %s only for cs <= X.prev_civil_sec, X = %s' % (pos(rn.ast), Xr), rn.ast,
                          'MakeRepeated(%s, cs) is returned without cs <= %s.prev_civil_sec having been established for that entry: '
                          'a civil second displayed once is reported as repeated (or the fields are computed from the wrong '
                          'transition)' % (Xr, Xr), construct='case:repeated', detail=str(want))
        else:
            # unique answer computed from an entry of the table:  X.unix_time + (cs - X.civil_sec)
            v = single(sv.value(rn, args[0]) or ())
            r = render(v) if v is not None else ''
            m = re.search(r'%s\[([^\]]*)\]\.unix_time' % re.escape(base), r)
            if not m:
                continue
            n['unique'] += 1
            X = '%s[%s]' % (base, m.group(1))
            same = ('%s.civil_sec' % X) in r
            # not repeated for X: cs > X.prev_civil_sec
            notrep = canon('<', X + '.prev_civil_sec', csk) in facts
            ctx.check(same and notrep, 'C02-case', 'UNIQUE from entry %s at %s only for cs > X.prev_civil_sec' % (X, pos(rn.ast)), rn.ast,
                      'the unique answer is computed from %s without cs > %s.prev_civil_sec having been established (or instant and '
                      'civil second are taken from two different entries): a repeated civil second is answered as unique' % (X, X),
                      construct='case:unique', detail=r[:100])
    ctx.check(n['skipped'] >= 1 and n['repeated'] >= 1 and n['unique'] >= 1, 'C02-case',
              'MakeTime distinguishes skipped, repeated and unique civil seconds', f,
              'found %s' % n, construct='case:count')
    ctx.minimum('C02-case', 4)

    # ---- C02-fields
    from ..table import enum_decl
    _, _, enames, evals = enum_decl(ctx.P, 'cctz::time_zone::civil_lookup::civil_kind')
    ev_ = {'int:%d' % v: nm_ for nm_, v in zip(enames, evals)}
    want = {
        'MakeSkipped': dict(kind='SKIPPED', pre={'U': 1, 'cs': 1, 'P': -1, '': -1}, trans={'U': 1}, post={'U': 1, 'cs': 1, 'C': -1}),
        'MakeRepeated': dict(kind='REPEATED', pre={'U': 1, 'cs': 1, 'P': -1, '': -1}, trans={'U': 1}, post={'U': 1, 'cs': 1, 'C': -1}),
    }
    for nm, w in want.items():
        ks = [k for k in G.defs if k[0] == 'cctz::' + nm]
        if len(ks) != 1:
            raise AnalysisBroken('C02-fields: %s not found' % nm)
        uu, ff = G.defs[ks[0]]
        got = _fields(ctx, uu, ff)
        got['kind'] = ev_.get(got.get('kind'), got.get('kind'))
        pp = params_of(ff)
        sub_ = ctx.facts(ff).keys.subst          # (a parameter every caller binds to one value is keyed as that value)
        tk = sub_.get(pp[0]['id'], '%s#%s' % (pp[0]['name'], pp[0]['id']))
        ck = sub_.get(pp[1]['id'], '%s#%s' % (pp[1]['name'], pp[1]['id']))
        ren = {tk + '.unix_time': 'U', tk + '.civil_sec': 'C', tk + '.prev_civil_sec': 'P', ck: 'cs'}
        ctx.check(got.get('kind') == w['kind'], 'C02-fields', '%s: kind == %s' % (nm, w['kind']), ff,
                  '%s labels its result %s' % (nm, got.get('kind')), construct='fields:%s:kind' % nm)
        for fld in ('pre', 'trans', 'post'):
            lin = got.get(fld)
            lin2 = None
            if isinstance(lin, dict):
                lin2 = {}
                for s_, c in lin.items():
                    lin2[ren.get(s_, s_)] = lin2.get(ren.get(s_, s_), 0) + c
            ctx.check(lin2 == w[fld], 'C02-fields', '%s: %s == %s' % (nm, fld, _show(w[fld])), ff,
                      '%s computes %s as %s; with U the instant of the transition, P / C the civil seconds shown just before / at it, '
                      'the instant at which the zone would display cs is %s' % (nm, fld, _show(lin2) if lin2 else 'a non-linear form', _show(w[fld])),
                      construct='fields:%s:%s' % (nm, fld), detail=_show(lin2) if lin2 else '?')
    ks = [k for k in G.defs if k[0] == 'cctz::MakeUnique' and 'time_point' in ''.join(k[1])]
    if len(ks) != 1:
        raise AnalysisBroken('C02-fields: MakeUnique(time_point) not found')
    uu, ff = G.defs[ks[0]]
    got = _fields(ctx, uu, ff)
    got['kind'] = ev_.get(got.get('kind'), got.get('kind'))
    pk = ctx.facts(ff).keys.subst.get(params_of(ff)[0]['id'], '%s#%s' % (params_of(ff)[0]['name'], params_of(ff)[0]['id']))
    ctx.check(got.get('kind') == 'UNIQUE' and all(got.get(x) == {pk: 1} for x in ('pre', 'trans', 'post')), 'C02-fields',
              'MakeUnique: kind == UNIQUE, pre == trans == post == the instant', ff,
              'MakeUnique does not give all three fields the one instant (%s)' % {k_: got.get(k_) for k_ in ('kind', 'pre', 'trans', 'post')},
              construct='fields:MakeUnique')
    ctx.minimum('C02-fields', 9)

    # ---- C02-order (the rule of C14-order, for the civil-time key)
    saved = len(ctx.obligations)
    mins = dict(ctx.minimums)
    c14._check_order(ctx)
    new = ctx.obligations[saved:]
    del ctx.obligations[saved:]
    ctx.minimums.clear()
    ctx.minimums.update(mins)
    for o in new:
        if 'civil seconds' in o['instance']:
            o['rule'] = 'C02-order'
            ctx.obligations.append(o)
    ctx.minimum('C02-order', 1)

    # ---- C02-clamp (the rule of C10-saturate)
    saved = len(ctx.obligations)
    mins = dict(ctx.minimums)
    c10.run(ctx)
    new = ctx.obligations[saved:]
    del ctx.obligations[saved:]
    ctx.minimums.clear()
    ctx.minimums.update(mins)
    for o in new:
        if o['rule'] in ('C10-saturate', 'C10-bounds'):       # (the guards compare with bounds that must be the images of the range ends)
            o['rule'] = 'C02-clamp'
            ctx.obligations.append(o)
    ctx.minimum('C02-clamp', 7)


def _show(lin):
    from ..symval import lin_str
    return lin_str(lin) if isinstance(lin, dict) else str(lin)


def _record_fields(u, name):
    for x in (y for r in u.roots for y in walk(r)):
        if x.get('kind') == 'CXXRecordDecl' and x.get('name') == name and x.get('completeDefinition'):
            return [y.get('name') for y in kids(x) if y.get('kind') == 'FieldDecl']
    return None


def _fields(ctx, u, f):
    """{'kind': enumerator name, 'pre'/'trans'/'post': linear form} assigned to the civil_lookup a Make* helper returns."""
    sv = SymVal(ctx, f)
    out = {}
    g = sv.cfg

    def record(lhs, rhs, node):
        l = peel(lhs)
        if l is None or l.get('kind') != 'MemberExpr':
            return
        name = l.get('name')
        if name not in ('kind', 'pre', 'trans', 'post'):
            return
        record_value(name, rhs, node)

    def record_value(name, rhs, node):
        r = peel(rhs)
        while r is not None and r.get('kind') in ('CXXConstructExpr', 'MaterializeTemporaryExpr', 'CXXBindTemporaryExpr', 'ExprWithCleanups') \
                and len([a for a in kids(r) if a.get('kind') != 'CXXDefaultArgExpr']) == 1:
            r = peel([a for a in kids(r) if a.get('kind') != 'CXXDefaultArgExpr'][0])
        if r is not None and r.get('kind') == 'CallExpr' and callee(r) and callee(r)[0] == 'fn' and \
                callee(r)[1].get('name') == 'FromUnixSeconds' and call_args(r):
            r = call_args(r)[0]                 # the second count the field is built from
        t = single(sv.value(node, r) or ())
        if name == 'kind':
            out['kind'] = (render(t).split('::')[-1] if t is not None else None)
            return
        if t is None:
            out[name] = None
        elif t[0] == 'int':
            out[name] = dict(t[2])
        elif t[0] == 'key':
            out[name] = {t[2]: 1}
        else:
            out[name] = None
    for n in g.rpo():
        if n.kind != 'stmt' or n.ast is None:
            continue
        for x in _post(n.ast):
            if x.get('kind') == 'BinaryOperator' and x.get('opcode') == '=':
                record(kids(x)[0], kids(x)[1], n)
            elif x.get('kind') == 'CXXOperatorCallExpr' and callee(x) and callee(x)[0] == 'fn' and callee(x)[1].get('name') == 'operator=':
                args = call_args(x)
                rhs = args[1]
                # chained  a = b = c = v : the value is that of the innermost right-hand side
                while peel(rhs).get('kind') == 'CXXOperatorCallExpr' and callee(peel(rhs)) and callee(peel(rhs))[1].get('name') == 'operator=':
                    rhs = call_args(peel(rhs))[1]
                record(args[0], rhs, n)
    # aggregate initialisation: civil_lookup{kind, pre, trans, post} in declaration order
    for n in g.rpo():
        if n.ast is None:
            continue
        for x in _post(n.ast):
            if x.get('kind') == 'InitListExpr' and re.search(r'civil_lookup$', (dtype(x) or qtype(x) or '').replace('const ', '').strip()):
                order = _record_fields(u, 'civil_lookup')
                vals = kids(x)
                if order and len(vals) == len(order):
                    for name, v in zip(order, vals):
                        if name in ('kind', 'pre', 'trans', 'post') and v.get('kind') != 'ImplicitValueInitExpr':
                            record_value(name, v, n)
    if not out:
        # the fields may be filled in by a file-local builder the function hands its values to
        from ..callgraph import fkey as _fkey
        rets = [x for x in walk(f) if x.get('kind') == 'ReturnStmt' and kids(x)]
        for r in rets:
            call = None
            for x in walk(r):
                if x.get('kind') == 'CallExpr' and callee(x) and callee(x)[0] == 'fn' and callee(x)[1].get('_qn'):
                    call = x
                    break
            if call is None:
                continue
            for (uu, hf) in ctx.scope(f)[1:]:
                if _fkey(hf) not in ctx.G.resolve_decl(callee(call)[1]):
                    continue
                inner = _fields(ctx, uu, hf)
                hps = ['%s#%s' % (p.get('name'), p.get('id')) for p in params_of(hf)]
                nodes = g.nodes_for(call)
                for fld, val in inner.items():
                    keyname = val if isinstance(val, str) else (list(val)[0] if isinstance(val, dict) and len(val) == 1 and list(val.values()) == [1] else None)
                    if keyname not in hps and isinstance(val, dict) and not any(k_ in hps for k_ in val):
                        # (the parameter is already keyed as what every caller passes for it)
                        out[fld] = dict(val)
                        continue
                    if keyname in hps and nodes:
                        arg = call_args(call)[hps.index(keyname)]
                        tmp = {}
                        saved = dict(out)
                        out.clear()
                        # evaluate the argument as if it were assigned to the field here
                        fake = {'kind': 'MemberExpr', 'name': fld}
                        record_value(fld, arg, nodes[0])
                        tmp = dict(out)
                        out.clear()
                        out.update(saved)
                        out.update(tmp)
    return out


def _post(e):
    for c in kids(e):
        for y in _post(c):
            yield y
    yield e
