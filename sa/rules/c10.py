"""C10 — conversions are total and saturate at the ends of the range (guard clauses only)."""
import re
from ..frontend import kids, walk, qn, qtype, dtype, pos, ancestors, AnalysisBroken, params_of
from ..expr import callee, call_args, peel, Keys, Folder
from ..callgraph import fname
from . import c12

EXPLANATION = (
    'Only the clauses of C10 that are visible in the shape of the code are decided. C10-sentinel: on every '
    'accepting path of the loader there is a transition in each half of the time line (first transition '
    'negative or the -2^59 sentinel inserted; last non-negative or the 2^31-1 sentinel appended), which is '
    'what keeps "instant minus nearest transition" representable. C10-saturate: in MakeTime the unguarded '
    'additions on 64-bit instants for civil times before the first / after the last transition are '
    'dominated by the civil_min / civil_max tests whose failing edges return time_point::min()/max(); in '
    'TimeLocal the multiplication of the 400-year shift count is dominated by the bound c4_shift <= '
    'max/kSecsPer400Years and every += of the offset by the test against max - offset, with the '
    'saturating assignment on the other edge. C10-twostep: LocalTime adds the instant and the UTC offset '
    'in the civil domain, never as a 64-bit integer sum. Does not decide absence of overflow elsewhere '
    '(MakeSkipped/MakeRepeated differences, BreakTime\'s shift product) nor exactness of the last '
    'representable civil second: those rest on relational invariants over zone data.')
LEVEL = ('Dominance proof that the saturation guards and sentinels the design relies on are present on every path; a '
         'necessary part of totality, not the whole of it (most of C10 is arithmetic on runtime zone data).')
LEVEL_NOTE = ('Trusts clang 14 AST and sa/; the arithmetic inside the guarded regions and on zone tables is not analysed; '
              'a known overflow of BreakTime\'s shift product for crafted zone data with an early footer is recorded in DESIGN.md 8.6.')
TECHNIQUE = 'must-hold branch facts (dominance) + path cuts on the CFG'


def run(ctx):
    G = ctx.G
    # ---- C10-sentinel (same rule as C12-sentinel, reported under C10)
    saved = len(ctx.obligations)
    c12.check_sentinels(ctx)
    for o in ctx.obligations[saved:]:
        o['rule'] = 'C10-sentinel'
    ctx.minimums.pop('C12-sentinel', None)
    ctx.minimum('C10-sentinel', 2)

    # ---- C10-saturate: MakeTime
    u, f = ctx.fn('cctz::TimeZoneInfo::MakeTime')
    F = ctx.facts(f)
    keys = F.keys
    g = ctx.cfg(f)
    n = 0
    sat = {'min': None, 'max': None}
    for rn in g.returns:
        rk = keys.key(kids(rn.ast)[0])
        fs = F.facts_at(rn)
        # saturating returns
        for which in ('min', 'max'):
            if re.search(r'MakeUnique\(.*::%s\(\)\)$' % which, rk) or rk.endswith('%s())' % which):
                guard = any((op == '<' and 'civil_%s' % which in (b if which == 'min' else a)) for (op, a, b) in fs)
                sat[which] = (rn, guard)
    for which, what in (('min', 'before the first transition'), ('max', 'after the last transition')):
        ok = sat[which] is not None and sat[which][1]
        ctx.check(ok, 'C10-saturate', 'MakeTime returns time_point::%s() for civil times %s beyond civil_%s' % (which, what, which),
                  sat[which][0].ast if sat[which] else f,
                  'no return of time_point::%s() guarded by the comparison with the type\'s civil_%s: civil times whose instant '
                  'lies outside the range are not clamped' % (which, which), construct='saturate:maketime:%s' % which)
    # the unsaturated conversions outside the table are reached only with the guard refuted.  Which return is which is
    # read from guarded symbolic values: the search pointer equals the first entry / one past the last entry.
    from ..symval import SymVal, single, render
    from ..ptrnorm import ladd
    from ..symval import seeded_search
    ss = seeded_search(ctx, f)
    if ss is None:
        raise AnalysisBroken('C10-saturate: the table search of MakeTime was not found')
    sv, base, ubcall, _hf = ss
    size = '%s.size()' % base
    csk = '%s#%s' % (params_of(f)[0]['name'], params_of(f)[0]['id'])
    for rn in sv.cfg.returns:
        if not kids(rn.ast):
            continue
        rk = keys.key(kids(rn.ast)[0])
        if not rk.startswith('cctz::MakeUnique(') or re.search(r'(min|max)\(\)\)$', rk):
            continue
        fs = sv.facts(sv.conds_at(rn))
        lins = [fa for fa in fs if fa[0] == 'lin' and fa[1] == '==']
        before = any(len([k_ for k_ in fa[2] if k_]) == 1 and '' not in fa[2] and not any(size == k_ for k_ in fa[2]) for fa in lins)
        after = any(size in fa[2] and len([k_ for k_ in fa[2] if k_]) == 2 and '' not in fa[2] for fa in lins)
        if before and any(fa[0] == '<=' and fa[1] == csk and fa[2].endswith('.prev_civil_sec') for fa in fs):
            n += 1
            ok = any(fa[0] == '<=' and fa[1].endswith('.civil_min') and fa[2] == csk for fa in fs)
            ctx.check(ok, 'C10-saturate', 'before-first conversion happens only for cs >= civil_min', rn.ast,
                      'the instant of a civil time before the first transition is computed without cs >= civil_min having been '
                      'established: the subtraction overflows for civil times near civil_second::min()', construct='saturate:before')
        elif after:
            n += 1
            ok = any(fa[0] == '<=' and fa[1] == csk and fa[2].endswith('.civil_max') for fa in fs)
            ctx.check(ok, 'C10-saturate', 'after-last conversion happens only for cs <= civil_max', rn.ast,
                      'the instant of a civil time after the last transition is computed without cs <= civil_max having been '
                      'established: the addition overflows for civil times near civil_second::max()', construct='saturate:after')
    ctx.check(n >= 2, 'C10-saturate', 'both unguarded conversions of MakeTime found', f, 'found %d' % n, construct='saturate:count')

    # ---- C10-saturate: TimeLocal
    u, f = ctx.fn('cctz::TimeZoneInfo::TimeLocal')
    F = ctx.facts(f)
    keys = F.keys
    fo = Folder(u)
    shk = '%s#%s' % (params_of(f)[1]['name'], params_of(f)[1]['id'])        # the 400-year shift count (second parameter)
    mults = [x for x in walk(f) if x.get('kind') == 'BinaryOperator' and x.get('opcode') == '*' and
             any(keys.key(c) == shk for c in kids(x))]
    for x in mults:
        fs = F.facts_at_ast(x) or frozenset()
        other = [keys.key(c) for c in kids(x) if keys.key(c) != shk][0]
        k400 = int(other[2:]) if other.startswith('n:') else None
        bound = None
        for (op, a, b) in fs:
            b = F.resolve_key(b)
            if op == '<=' and a == shk and b.startswith('n:'):
                bound = int(b[2:])
            if op == '<=' and a == shk and k400 is not None and \
                    re.match(r'^\((\w+::)*max\(\)\.count\(\) / n:%d\)$' % k400, b):
                bound = (2 ** 63 - 1) // k400         # seconds::max().count() is the int64 maximum
        ok = k400 is not None and bound is not None and bound * k400 <= 2 ** 63 - 1
        ctx.check(ok, 'C10-saturate', 'c4_shift * kSecsPer400Years only for c4_shift <= max/kSecsPer400Years', x,
                  'the 400-year shift count is multiplied by the cycle length without having been bounded so that the product '
                  'fits 64 bits (bound %s)' % bound, construct='saturate:timelocal:mul', detail='c4_shift <= %s' % bound)
    # (the additions may sit in a file-local helper TimeLocal was split into: its parameters are keyed as what every
    #  caller passes for them)
    adds = [(x, ctx.facts(ff)) for (uu, ff) in ctx.scope(f) for x in walk(ff)
            if x.get('kind') in ('CXXOperatorCallExpr',) and callee(x) and callee(x)[0] == 'fn' and
            callee(x)[1].get('name') == 'operator+=' and 'time_point' in (dtype(call_args(x)[0]) or qtype(call_args(x)[0]) or '')]
    for (x, Fx) in adds:
        fs = Fx.facts_at_ast(x) or frozenset()
        tk = Fx.keys.key(call_args(x)[0])
        ok = any(op == '<=' and a == tk and re.search(r'max\(\) - ', Fx.resolve_key(b)) for (op, a, b) in fs)
        ctx.check(ok, 'C10-saturate', 'instant += 400-year offset only when instant <= max - offset', x,
                  'the shifted-back instant is moved forward again without the test against time_point::max() - offset: the '
                  'addition overflows at the end of the range instead of saturating', construct='saturate:timelocal:add')
    ctx.check(len(mults) >= 1 and len(adds) >= 1, 'C10-saturate', 'TimeLocal shift arithmetic found', f,
              'found %d/%d' % (len(mults), len(adds)), construct='saturate:timelocal:count')
    ctx.minimum('C10-saturate', 7)

    # ---- C10-twostep
    k = G.one('cctz::TimeZoneInfo::LocalTime', 'TransitionType')
    u, f = G.defs[k]
    K = Keys(u)
    ps = params_of(f)
    tk = '%s#%s' % (ps[0]['name'], ps[0]['id'])
    bad = [x for x in walk(f) if x.get('kind') == 'BinaryOperator' and x.get('opcode') in ('+', '-') and
           tk in (K.key(kids(x)[0]), K.key(kids(x)[1])) and 'utc_offset' in K.key(x)]
    civil_adds = [x for x in walk(f) if x.get('kind') == 'CXXOperatorCallExpr' and callee(x) and callee(x)[0] == 'fn' and
                  callee(x)[1].get('name') == 'operator+' and 'civil_time' in (qtype(x) + dtype(x))]
    ctx.check(not bad and len(civil_adds) >= 2, 'C10-twostep', 'LocalTime adds instant and offset in the civil domain (two steps)', f,
              'unix_time + utc_offset is formed as a 64-bit integer: it overflows for instants within 24h of the ends of the range',
              construct='twostep', detail='%d civil additions, %d integer sums' % (len(civil_adds), len(bad)))
    ctx.minimum('C10-twostep', 1)
