"""C10 — conversions are total and saturate at the ends of the range (guard clauses only)."""
import re
from ..frontend import kids, walk, qn, qtype, dtype, pos, ancestors, AnalysisBroken, params_of
from ..expr import callee, call_args, peel, Keys, Folder, type_range
from ..callgraph import fname
from . import c12

EXPLANATION = (
    'Only the clauses of C10 that are visible in the shape of the code are decided. C10-sentinel: on every '
    'accepting path of the loader there is a transition in each half of the time line (first transition '
    'negative or the -2^59 sentinel inserted; last non-negative or the 2^31-1 sentinel appended), which is '
    'what keeps "instant minus nearest transition" representable. C10-saturate: in MakeTime the unguarded '
    'additions on 64-bit instants for civil times before the first / after the last transition are '
    'dominated by the civil_min / civil_max tests whose failing edges return time_point::min()/max(); in '
    'TimeLocal the multiplication of the 400-year shift count is dominated by the bound c4_shift <= '
    'max/kSecsPer400Years and every += of the offset by the test against max - offset, with the '
    'saturating assignment on the other edge. C10-twostep: LocalTime adds the instant and the UTC offset '
    'in the civil domain, never as a 64-bit integer sum. C10-bounds: every store to a type\'s civil_max / '
    'civil_min is, as a linear form over the civil epoch, epoch + int64 max / min + the UTC offset of that same type '
    '(LocalTime followed through its returned initialiser). C10-libc: in the libc-backed zone\'s MakeTime, for every '
    '64-bit civil year (interval abstract interpretation with cs.year() one value across its calls), arithmetic on '
    'the year stays within its type and the narrowing to std::tm\'s int year happens only after the saturation '
    'tests have bounded it. C10-shift: BreakTime\'s 400-year shift count, which reaches (2^63-1)/cycle+1 for instants '
    'near time_point::max(), is stored without a narrowing cast and both of its products (seconds stepped back, years '
    'added back) are evaluated in types that hold them (the width clause C01-search reports too). Does not decide '
    'absence of overflow elsewhere '
    '(MakeSkipped/MakeRepeated differences) nor exactness of the last '
    'representable civil second: those rest on relational invariants over zone data.')
LEVEL = ('Dominance proof that the saturation guards and sentinels the design relies on are present on every path; a '
         'necessary part of totality, not the whole of it (most of C10 is arithmetic on runtime zone data).')
LEVEL_NOTE = ('Trusts clang 14 AST and sa/; the arithmetic inside the guarded regions and on zone tables is not analysed; '
              'a known overflow of BreakTime\'s shift product for crafted zone data with an early footer is recorded in DESIGN.md 8.6.')
TECHNIQUE = 'must-hold branch facts (dominance) + path cuts on the CFG; linear forms over the civil epoch; interval abstract interpretation (libc year)'


def _after_refuted_conjunction(f, x, csk, keys):
    """Is x reached only past an `if (A && B) return ..;` (or `if (A || B) {..x..}`) whose condition mentions the civil time?"""
    def top_op(c):
        c = peel(c)
        while c is not None and c.get('kind') in ('ExprWithCleanups', 'ParenExpr', 'ImplicitCastExpr') and kids(c):
            c = peel(kids(c)[0])
        return c.get('opcode') if c is not None and c.get('kind') == 'BinaryOperator' else None

    def leaves(st):
        st_ = st
        while st_ is not None and st_.get('kind') == 'CompoundStmt' and kids(st_):
            st_ = kids(st_)[-1]
        return st_ is not None and st_.get('kind') == 'ReturnStmt'
    chain = [x] + list(ancestors(x))
    for i, a in enumerate(chain):
        if a.get('kind') == 'IfStmt' and i > 0:
            ks = kids(a)
            if top_op(ks[0]) == '||' and chain[i - 1] is ks[1] and csk in keys.key(ks[0]):
                return True
            if top_op(ks[0]) == '&&' and len(ks) > 2 and chain[i - 1] is ks[2] and csk in keys.key(ks[0]):
                return True
        if a.get('kind') == 'CompoundStmt' and i > 0:
            sib = kids(a)
            idx = [j for j, s_ in enumerate(sib) if s_ is chain[i - 1]]
            for s_ in (sib[:idx[0]] if idx else []):
                if s_.get('kind') == 'IfStmt' and top_op(kids(s_)[0]) == '&&' and len(kids(s_)) == 2 and leaves(kids(s_)[1]) and \
                        csk in keys.key(kids(s_)[0]):
                    return True
        if a is f:
            break
    return False


def run(ctx):
    G = ctx.G
    # ---- C10-sentinel (same rule as C12-sentinel, reported under C10)
    saved = len(ctx.obligations)
    c12.check_sentinels(ctx)
    for o in ctx.obligations[saved:]:
        o['rule'] = 'C10-sentinel'
    ctx.minimums.pop('C12-sentinel', None)
    ctx.minimum('C10-sentinel', 2)

    # ---- C10-saturate: MakeTime
    u, f = ctx.fn('cctz::TimeZoneInfo::MakeTime')
    F = ctx.facts(f)
    keys = F.keys
    g = ctx.cfg(f)
    n = 0
    sat = {'min': None, 'max': None}
    for rn in g.returns:
        rk = keys.key(kids(rn.ast)[0])
        fs = F.facts_at(rn)
        # saturating returns
        for which in ('min', 'max'):
            if re.search(r'MakeUnique\(.*::%s\(\)\)$' % which, rk) or rk.endswith('%s())' % which):
                guard = any((op == '<' and 'civil_%s' % which in (b if which == 'min' else a)) for (op, a, b) in fs)
                sat[which] = (rn, guard)
    for which, what in (('min', 'before the first transition'), ('max', 'after the last transition')):
        ok = sat[which] is not None and sat[which][1]
        ctx.check(ok, 'C10-saturate', 'MakeTime returns time_point::%s() for civil times %s beyond civil_%s' % (which, what, which),
                  sat[which][0].ast if sat[which] else f,
                  'no return of time_point::%s() guarded by the comparison with the type\'s civil_%s: civil times whose instant '
                  'lies outside the range are not clamped' % (which, which), construct='saturate:maketime:%s' % which)
    # the unsaturated conversions outside the table are reached only with the guard refuted.  Which return is which is
    # read from guarded symbolic values: the search pointer equals the first entry / one past the last entry.
    from ..symval import SymVal, single, render
    from ..ptrnorm import ladd
    from ..symval import seeded_search
    ss = seeded_search(ctx, f)
    if ss is None:
        raise AnalysisBroken('C10-saturate: the table search of MakeTime was not found')
    sv, base, ubcall, _hf = ss
    size = '%s.size()' % base
    csk = '%s#%s' % (params_of(f)[0]['name'], params_of(f)[0]['id'])
    for rn in sv.cfg.returns:
        if not kids(rn.ast):
            continue
        rk = keys.key(kids(rn.ast)[0])
        if not rk.startswith('cctz::MakeUnique(') or re.search(r'(min|max)\(\)\)$', rk):
            continue
        fs = sv.facts(sv.conds_at(rn))
        lins = [fa for fa in fs if fa[0] == 'lin' and fa[1] == '==']
        before = any(len([k_ for k_ in fa[2] if k_]) == 1 and '' not in fa[2] and not any(size == k_ for k_ in fa[2]) for fa in lins)
        after = any(size in fa[2] and len([k_ for k_ in fa[2] if k_]) == 2 and '' not in fa[2] for fa in lins)
        if before and any(fa[0] == '<=' and fa[1] == csk and fa[2].endswith('.prev_civil_sec') for fa in fs):
            n += 1
            owners = [fa[1][:-len('.civil_min')] for fa in fs if fa[0] == '<=' and fa[1].endswith('.civil_min') and fa[2] == csk]
            ok = bool(owners)
            # the bound belongs to the type whose offset the conversion uses
            same_type = ok and any(('%s.utc_offset' % o) in F.resolve_key(rk) for o in owners)
            ctx.check(same_type or not ok, 'C10-saturate', 'before-first conversion uses the offset of the type whose civil_min bounds it', rn.ast,
                      'the civil time is tested against the civil_min of %s but converted with another type\'s offset (%s): the bound is '
                      'displaced by the difference of the two offsets, so civil times within it overflow or saturate early'
                      % (owners[0] if owners else '?', rk[:120]), construct='saturate:before:type')
            ctx.check(ok, 'C10-saturate', 'before-first conversion happens only for cs >= civil_min', rn.ast,
                      'the instant of a civil time before the first transition is computed without cs >= civil_min having been '
                      'established: the subtraction overflows for civil times near civil_second::min()', construct='saturate:before')
        elif after:
            n += 1
            owners = [fa[2][:-len('.civil_max')] for fa in fs if fa[0] == '<=' and fa[1] == csk and fa[2].endswith('.civil_max')]
            ok = bool(owners)
            # ... and belongs to the type of the transition the conversion is anchored to (the one known to lie before cs)
            anchors = [fa[1][:-len('.prev_civil_sec')] for fa in fs if fa[0] in ('<', '<=') and fa[2] == csk and fa[1].endswith('.prev_civil_sec')]
            anchors += [fa[1][:-len('.civil_sec')] for fa in fs if fa[0] in ('<', '<=') and fa[2] == csk and fa[1].endswith('.civil_sec')]
            m_own = [re.match(r'^(.*?)\[(.+)\.type_index\]$', o) for o in owners]
            same_type = any(m and m.group(2) in anchors for m in m_own)
            ctx.check3((same_type or not ok) if (anchors or not ok) else None, 'C10-saturate',
                       'after-last conversion is bounded by the civil_max of the last transition\'s own type', rn.ast,
                       'the civil time is tested against the civil_max of %s, which is not the type of the transition the conversion is '
                       'anchored to (%s): where the two types\' offsets differ, civil times between the two bounds overflow the instant '
                       'instead of saturating (or saturate although they have an instant)' % (owners[0] if owners else '?', anchors[:1]),
                       construct='saturate:after:type')
            ctx.check(ok, 'C10-saturate', 'after-last conversion happens only for cs <= civil_max', rn.ast,
                      'the instant of a civil time after the last transition is computed without cs <= civil_max having been '
                      'established: the addition overflows for civil times near civil_second::max()', construct='saturate:after')
    if n >= 2:
        ctx.ok('C10-saturate', 'both unguarded conversions of MakeTime found', f, 'found %d' % n)
    else:
        # (the returns are told apart by what is known about the search result where they are made; a case analysis that
        #  reaches them through a refuted conjunction leaves that knowledge as a disjunction the fact engine does not keep)
        ctx.unknown('C10-saturate', 'both unguarded conversions of MakeTime found', f,
                    'only %d of the two conversions made outside the table could be told apart by the facts known at their returns' % n,
                    construct='saturate:count')

    # every difference of civil seconds that MakeTime itself computes with its argument is taken only where the argument is
    # bounded on both sides by table entries or by the type's civil_min / civil_max (an unbounded difference overflows
    # 64 bits for civil times far outside the table)
    from ..frontend import owner_fn
    n_diff = 0
    for x in walk(f):
        if not (x.get('kind') == 'CXXOperatorCallExpr' and callee(x) and callee(x)[0] == 'fn' and callee(x)[1].get('name') == 'operator-'
                and owner_fn(x) is f and len(call_args(x)) == 2):
            continue
        a_, b_ = call_args(x)
        if not all('civil_time' in ((dtype(y) or '') + (qtype(y) or '')) or 'civil_second' in (qtype(y) or '') for y in (a_, b_)):
            continue
        ka, kb = keys.key(a_), keys.key(b_)
        if csk not in (ka, kb):
            continue
        n_diff += 1
        fs = set(F.facts_at_ast(x) or ())
        for n_ in sv.cfg.nodes_for(x):
            fs |= set(fa for fa in sv.facts(sv.conds_at(n_)) if len(fa) == 3 and fa[0] in ('<', '<='))      # (entries named relative to the search result)
        BOUND = ('.civil_sec', '.prev_civil_sec', '.civil_max', '.civil_min')
        upper = any(op in ('<', '<=') and a == csk and F.resolve_key(b).endswith(BOUND) for (op, a, b) in fs)
        lower = any(op in ('<', '<=') and b == csk and F.resolve_key(a).endswith(BOUND) for (op, a, b) in fs)
        verdict_ = upper and lower
        if not verdict_ and _after_refuted_conjunction(f, x, csk, keys):
            verdict_ = None
        ctx.check3(verdict_, 'C10-saturate', 'civil difference at %s only for a bounded civil time' % pos(x), x,
                  'the difference %s is computed without the civil time being bounded %s by a table entry or the type\'s civil_%s: it '
                  'overflows 64 bits for civil times far from the table (up to civil_second::%s())'
                  % (keys.key(x)[:80], 'above' if not upper else 'below', 'max' if not upper else 'min', 'max' if not upper else 'min'),
                  construct='saturate:maketime:diff', detail='upper=%s lower=%s' % (upper, lower),
                   unknown_why='the difference is reached only with a conjunction about the civil time refuted: which of its '
                   'conjuncts failed is a disjunction the fact engine does not keep, so the bound cannot be read off')

    # ---- C10-saturate: TimeLocal
    u, f = ctx.fn('cctz::TimeZoneInfo::TimeLocal')
    F = ctx.facts(f)
    keys = F.keys
    fo = Folder(u)
    # the 400-year shift count (second parameter), keyed as the facts engine keys it (a parameter every caller binds to
    # one value is keyed as that value)
    shk = keys.subst.get(params_of(f)[1]['id'], '%s#%s' % (params_of(f)[1]['name'], params_of(f)[1]['id']))
    mults = [x for x in walk(f) if x.get('kind') == 'BinaryOperator' and x.get('opcode') == '*' and
             any(keys.key(c) == shk for c in kids(x))]
    for x in mults:
        fs = F.facts_at_ast(x) or frozenset()
        other = [keys.key(c) for c in kids(x) if keys.key(c) != shk][0]
        k400 = int(other[2:]) if other.startswith('n:') else None
        bound = None
        for (op, a, b) in fs:
            b = F.resolve_key(b)
            if op == '<=' and a == shk and b.startswith('n:'):
                bound = int(b[2:])
            if op == '<=' and a == shk and k400 is not None and \
                    re.match(r'^\((\w+::)*max\(\)\.count\(\) / n:%d\)$' % k400, b):
                bound = (2 ** 63 - 1) // k400         # seconds::max().count() is the int64 maximum
        ok = k400 is not None and bound is not None and bound * k400 <= 2 ** 63 - 1
        ctx.check(ok, 'C10-saturate', 'c4_shift * kSecsPer400Years only for c4_shift <= max/kSecsPer400Years', x,
                  'the 400-year shift count is multiplied by the cycle length without having been bounded so that the product '
                  'fits 64 bits (bound %s)' % bound, construct='saturate:timelocal:mul', detail='c4_shift <= %s' % bound)
    # (the additions may sit in a file-local helper TimeLocal was split into: its parameters are keyed as what every
    #  caller passes for them)
    adds = [(x, ctx.facts(ff)) for (uu, ff) in ctx.scope(f) for x in walk(ff)
            if x.get('kind') in ('CXXOperatorCallExpr',) and callee(x) and callee(x)[0] == 'fn' and
            callee(x)[1].get('name') == 'operator+=' and 'time_point' in (dtype(call_args(x)[0]) or qtype(call_args(x)[0]) or '')]
    for (x, Fx) in adds:
        fs = Fx.facts_at_ast(x) or frozenset()
        tk = Fx.keys.key(call_args(x)[0])
        ok = any(op == '<=' and a == tk and re.search(r'max\(\) - ', Fx.resolve_key(b)) for (op, a, b) in fs)
        ctx.check(ok, 'C10-saturate', 'instant += 400-year offset only when instant <= max - offset', x,
                  'the shifted-back instant is moved forward again without the test against time_point::max() - offset: the '
                  'addition overflows at the end of the range instead of saturating', construct='saturate:timelocal:add')
    # the same saturation written as  min(instant, max - offset) + offset
    mins = []
    for (uu, ff) in ctx.scope(f):
        Fx = ctx.facts(ff)
        for x in walk(ff):
            if x.get('kind') == 'CXXOperatorCallExpr' and callee(x) and callee(x)[0] == 'fn' and callee(x)[1].get('name') == 'operator+' \
                    and 'time_point' in (dtype(x) or qtype(x) or '') and len(call_args(x)) == 2:
                a0 = peel(call_args(x)[0])
                while a0 is not None and a0.get('kind') in ('MaterializeTemporaryExpr', 'CXXConstructExpr', 'CXXBindTemporaryExpr') and len(kids(a0)) == 1:
                    a0 = peel(kids(a0)[0])
                if a0 is not None and a0.get('kind') == 'CallExpr' and callee(a0) and callee(a0)[0] == 'fn' and \
                        callee(a0)[1].get('name') == 'min' and len(call_args(a0)) == 2:
                    ok_ = Fx.ident_key(call_args(x)[1])
                    lims = [Fx.ident_key(a_) for a_ in call_args(a0)]
                    good = any(re.search(r'max\(\) - %s\)?$' % re.escape(ok_), l_) for l_ in lims)
                    mins.append(x)
                    ctx.check(good, 'C10-saturate', 'instant moved forward as min(instant, max - offset) + offset', x,
                              'the shifted-back instant is moved forward again as min(instant, L) + offset with L = %s, which is not '
                              'time_point::max() - offset: the sum overflows at the end of the range or saturates early' % lims,
                              construct='saturate:timelocal:add')
    # ... or as a plain sum  instant + offset  of the very instant that was tested against max - offset
    mult_keys = set(ctx.facts(ff_).ident_key(m_) for (uu_, ff_) in ctx.scope(f) for m_ in walk(ff_) if any(m_ is mm for mm in mults))
    sums = []
    for (uu, ff) in ctx.scope(f):
        Fx = ctx.facts(ff)
        for x in walk(ff):
            if x.get('kind') == 'CXXOperatorCallExpr' and callee(x) and callee(x)[0] == 'fn' and callee(x)[1].get('name') == 'operator+' \
                    and 'time_point' in (dtype(x) or qtype(x) or '') and len(call_args(x)) == 2 and not any(x is m_ for m_ in mins):
                ok_ = Fx.ident_key(call_args(x)[1])
                if not any(mk_ in ok_ for mk_ in mult_keys):
                    continue            # not the 400-year offset
                tk = Fx.keys.key(call_args(x)[0])
                fs = Fx.facts_at_ast(x) or frozenset()
                good = any(op == '<=' and a == tk and re.search(r'max\(\) - ', Fx.resolve_key(b)) for (op, a, b) in fs)
                sums.append(x)
                ctx.check(good, 'C10-saturate', 'instant + 400-year offset only when that instant <= max - offset', x,
                          'the shifted-back instant %s is moved forward again without having itself been tested against '
                          'time_point::max() - offset: the sum overflows at the end of the range instead of saturating' % tk,
                          construct='saturate:timelocal:add')
    # all three instants of the lookup are moved forward (a field left behind is 400*N years in the past)
    covered, undecided = _fields_moved(ctx, f, [a_[0] for a_ in adds] + mins + sums)
    if adds or mins or sums:
        missing = [fl for fl in ('pre', 'trans', 'post') if fl not in covered]
        ctx.check3(None if (undecided and missing) else not missing, 'C10-saturate', 'TimeLocal moves pre, trans and post forward alike', f,
                   'the instant(s) %s of the shifted-back lookup are not moved forward by the 400-year offset: for a civil time in a '
                   'gap or overlap of a far-future year that field names an instant 400*N years too early'
                   % ', '.join(missing), construct='saturate:timelocal:fields', detail=','.join(sorted(covered)),
                   unknown_why='which fields the saturating addition is applied to could not be followed (%s)' % undecided)
    ctx.check3(None if (len(mults) >= 1 and not adds and not mins and not sums) else (len(mults) >= 1 and len(adds) + len(mins) + len(sums) >= 1), 'C10-saturate',
               'TimeLocal shift arithmetic found', f,
               'found %d/%d' % (len(mults), len(adds) + len(mins) + len(sums)), construct='saturate:timelocal:count',
               unknown_why='the way TimeLocal moves the shifted-back instant forward again was not recognised (neither += under '
                           'a test against max - offset nor min(instant, max - offset) + offset)')
    ctx.minimum('C10-saturate', 13)

    # ---- C10-bounds: the per-type saturation bounds are the civil images of the two ends of the instant range
    _check_bounds(ctx)

    # ---- C10-libc: the libc-backed zone narrows the civil year to tm_year only after bounding it
    _check_libc(ctx)

    # ---- C10-shift: BreakTime's 400-year shift count and its two products (seconds stepped back, years added back) are held
    #      and evaluated in types wide enough for instants up to time_point::max() (the clause C01-search also reports)
    from . import c01
    c01.check_shift_width(ctx, 'C10-shift')
    ctx.minimum('C10-shift', 3)

    # ---- C10-twostep
    k = G.one('cctz::TimeZoneInfo::LocalTime', 'TransitionType')
    u, f = G.defs[k]
    K = Keys(u)
    ps = params_of(f)
    tk = '%s#%s' % (ps[0]['name'], ps[0]['id'])
    bad = [x for x in walk(f) if x.get('kind') == 'BinaryOperator' and x.get('opcode') in ('+', '-') and
           tk in (K.key(kids(x)[0]), K.key(kids(x)[1])) and 'utc_offset' in K.key(x)]
    civil_adds = [x for x in walk(f) if x.get('kind') == 'CXXOperatorCallExpr' and callee(x) and callee(x)[0] == 'fn' and
                  callee(x)[1].get('name') == 'operator+' and 'civil_time' in (qtype(x) + dtype(x))]
    ctx.check(not bad and len(civil_adds) >= 2, 'C10-twostep', 'LocalTime adds instant and offset in the civil domain (two steps)', f,
              'unix_time + utc_offset is formed as a 64-bit integer: it overflows for instants within 24h of the ends of the range',
              construct='twostep', detail='%d civil additions, %d integer sums' % (len(civil_adds), len(bad)))
    ctx.minimum('C10-twostep', 1)


def _ladd(a, b, sb=1):
    if a is None or b is None:
        return None
    r = dict(a)
    for k_, v in b.items():
        r[k_] = r.get(k_, 0) + sb * v
        if r[k_] == 0:
            del r[k_]
    return r


def civ_lin(ctx, u, e, env, depth=0):
    """Linear form {symbol: coefficient, '': constant} of a civil_second / integer expression, in seconds from the civil
    epoch.  Symbols are 'off:<object>' (the utc_offset of a transition type) and keys of other leaves.  env maps a
    parameter or local key 'name#id' to a linear form, or to ('obj', key) for a reference to a transition type.  None when
    the expression is not of a recognised form."""
    G = ctx.G
    keys = Keys(u)
    x = e
    while x is not None and x.get('kind') in ('ImplicitCastExpr', 'ParenExpr', 'MaterializeTemporaryExpr', 'CXXBindTemporaryExpr',
                                              'ExprWithCleanups', 'CXXStaticCastExpr', 'CXXFunctionalCastExpr', 'ConstantExpr') and len(kids(x)) == 1:
        if x.get('kind') != 'ImplicitCastExpr' and x.get('castKind') == 'IntegralCast':
            r = type_range(dtype(x) or qtype(x))
            if r is None or r[1] < 2 ** 63 - 1:
                return None             # an explicit narrowing is not linear
        x = kids(x)[0]
    if x is None or depth > 8:
        return None
    c = Folder(u).fold(x)
    if c is not None:
        return {'': c} if c else {}
    k = x.get('kind')
    if k == 'CXXConstructExpr':
        args = [a for a in kids(x) if a.get('kind') != 'CXXDefaultArgExpr']
        if 'civil_time' in (dtype(x) or qtype(x) or '') or 'civil_second' in (qtype(x) or ''):
            if not args:
                return {}               # civil_second() is the epoch
            if len(args) == 1:
                return civ_lin(ctx, u, args[0], env, depth + 1)     # copy / conversion from an aligned civil time
        return None
    if k == 'CXXTemporaryObjectExpr' and not kids(x) and ('civil_time' in (dtype(x) or qtype(x) or '')):
        return {}
    if k == 'CXXOperatorCallExpr' and callee(x) and callee(x)[0] == 'fn' and callee(x)[1].get('name') in ('operator+', 'operator-') \
            and len(call_args(x)) == 2:
        a, b = call_args(x)
        return _ladd(civ_lin(ctx, u, a, env, depth + 1), civ_lin(ctx, u, b, env, depth + 1), 1 if callee(x)[1]['name'] == 'operator+' else -1)
    if k == 'BinaryOperator' and x.get('opcode') in ('+', '-'):
        a, b = kids(x)
        return _ladd(civ_lin(ctx, u, a, env, depth + 1), civ_lin(ctx, u, b, env, depth + 1), 1 if x['opcode'] == '+' else -1)
    if k == 'UnaryOperator' and x.get('opcode') == '-':
        return _ladd({}, civ_lin(ctx, u, kids(x)[0], env, depth + 1), -1)
    if k == 'DeclRefExpr':
        kk = keys.key(x)
        if kk in env and isinstance(env[kk], dict):
            return env[kk]
        d = u.by_id.get((x.get('referencedDecl') or {}).get('id'))
        if d is not None and d.get('kind') == 'VarDecl' and kids(d) and 'const' in (qtype(d) or '') and '&' not in (qtype(d) or '') \
                and kk not in env:
            return civ_lin(ctx, u, kids(d)[-1], env, depth + 1)     # a const local denotes its initialiser
        return {kk: 1}
    if k == 'MemberExpr':
        b = kids(x)[0] if kids(x) else None
        if x.get('name') == 'utc_offset' and b is not None:
            return {'off:' + _obj(ctx, u, b, env): 1}
        if x.get('name') == 'cs' and b is not None:
            pb = peel(b, explicit=False)
            while pb.get('kind') in ('MaterializeTemporaryExpr', 'CXXBindTemporaryExpr') and kids(pb):
                pb = peel(kids(pb)[0], explicit=False)
            if pb.get('kind') in ('CXXMemberCallExpr', 'CallExpr'):
                return _cs_of_call(ctx, u, pb, env, depth + 1)
            return None
        return {keys.key(x): 1}
    if k in ('CXXMemberCallExpr', 'CallExpr'):
        kk = keys.key(x)
        m = re.match(r'^(\w+::)*(max|min)\(\)\.count\(\)$', kk)
        r = type_range(dtype(x) or qtype(x))
        if m and r is not None and 'duration' in ((dtype(callee(x)[2]) or '') + (qtype(callee(x)[2]) or '') if callee(x)[2] is not None else ''):
            # duration<Rep>::max()/min() hold the extremes of Rep
            return {'': r[1] if m.group(2) == 'max' else r[0]}
        return {kk: 1}
    return None


def _cs_of_call(ctx, u, call, env, depth):
    """Linear form of the cs field of the absolute_lookup a call returns: the callee's single return is followed (an
    initialiser list, or a call of a builder helper that is followed in turn)."""
    G = ctx.G
    if depth > 8 or not callee(call):
        return None
    c = callee(call)
    d = u.by_id.get(c[3]) if c[0] == 'method' else c[1] if c[0] == 'fn' else None
    tg = G.resolve_decl(d) if d is not None else []
    if len(tg) != 1 or tg[0] not in G.defs:
        return None
    cu, cf = G.defs[tg[0]]
    ps = params_of(cf)
    args = call_args(call)
    env2 = {}
    for p_, a_ in zip(ps, args):
        pk = '%s#%s' % (p_.get('name'), p_.get('id'))
        t_ = qtype(p_) or ''
        td_ = (dtype(p_) or t_).replace('const ', '').replace('&', '').strip()
        if 'civil_' in t_ or type_range(td_) is not None or type_range(t_.replace('const ', '').replace('&', '').strip()) is not None:
            env2[pk] = civ_lin(ctx, u, a_, env, depth + 1)
            if env2[pk] is None:
                return None
        else:
            env2[pk] = ('obj', _obj(ctx, u, a_, env))
    rets = [r for r in walk(cf) if r.get('kind') == 'ReturnStmt' and kids(r)]
    if len(rets) != 1:
        return None
    il = peel(kids(rets[0])[0], explicit=False)
    while il.get('kind') in ('ExprWithCleanups', 'CXXConstructExpr', 'MaterializeTemporaryExpr', 'CXXBindTemporaryExpr',
                             'CXXFunctionalCastExpr') and len([c_ for c_ in kids(il) if c_.get('kind') != 'CXXDefaultArgExpr']) == 1:
        il = peel([c_ for c_ in kids(il) if c_.get('kind') != 'CXXDefaultArgExpr'][0], explicit=False)
    if il.get('kind') == 'InitListExpr' and kids(il) and 'absolute_lookup' in (dtype(il) or qtype(il) or ''):
        return civ_lin(ctx, cu, kids(il)[0], env2, depth + 1)
    if il.get('kind') in ('CXXMemberCallExpr', 'CallExpr') and 'absolute_lookup' in (dtype(il) or qtype(il) or ''):
        return _cs_of_call(ctx, cu, il, env2, depth + 1)
    return None


def _obj(ctx, u, e, env):
    k = Keys(u).key(peel(e, explicit=False))
    v = env.get(k)
    if isinstance(v, tuple) and v[0] == 'obj':
        return v[1]
    # a reference local denotes what it is bound to
    x = peel(e, explicit=False)
    if x.get('kind') == 'DeclRefExpr':
        d = u.by_id.get((x.get('referencedDecl') or {}).get('id'))
        if d is not None and d.get('kind') == 'VarDecl' and kids(d) and '&' in (qtype(d) or '') and \
                (d.get('_p') or {}).get('kind') == 'DeclStmt' and ((d.get('_p') or {}).get('_p') or {}).get('kind') != 'CXXForRangeStmt':
            return _obj(ctx, u, kids(d)[-1], env)
    return k


def _check_bounds(ctx):
    G = ctx.G
    n = 0
    for key, (u, f) in sorted(G.defs.items()):
        if u.name != 'time_zone_info.cc':
            continue
        for x in walk(f):
            lhs = rhs = None
            if x.get('kind') == 'BinaryOperator' and x.get('opcode') == '=':
                lhs, rhs = kids(x)
            elif x.get('kind') == 'CXXOperatorCallExpr' and callee(x) and callee(x)[0] == 'fn' and callee(x)[1].get('name') == 'operator=' \
                    and len(call_args(x)) == 2:
                lhs, rhs = call_args(x)
            if lhs is None:
                continue
            l = peel(lhs, explicit=False)
            if l.get('kind') != 'MemberExpr' or l.get('name') not in ('civil_max', 'civil_min') or not kids(l):
                continue
            n += 1
            which = l['name']
            limit = 2 ** 63 - 1 if which == 'civil_max' else -2 ** 63
            obj = _obj(ctx, u, kids(l)[0], {})
            want = {'': limit, 'off:' + obj: 1}
            got = civ_lin(ctx, u, rhs, {})
            from ..symval import lin_str
            ctx.check3(None if got is None else got == want, 'C10-bounds',
                       '%s of a type = civil epoch %+d s + its UTC offset (%s)' % (which, limit, pos(x)), x,
                       '%s is set to %s instead of epoch %+d + the offset of the same type: MakeTime saturates civil times that '
                       'still have an instant, or converts civil times beyond the range with overflow'
                       % (which, lin_str(got) if got is not None else '?', limit), construct='bounds:%s:%s' % (fname_(f), which),
                       detail=lin_str(got) if got is not None else '')
    ctx.minimum('C10-bounds', 4)


def fname_(f):
    return (qn(f) or '').split('::')[-1]


def mentions_year(x, uu=None, depth=0):
    """Does the expression read a civil year (a .year() call, directly or through a local initialised from one)?"""
    for y in walk(x):
        if y.get('kind') == 'CXXMemberCallExpr' and callee(y) and callee(y)[1] == 'year':
            return True
        if y.get('kind') == 'DeclRefExpr' and uu is not None and depth < 3:
            d_ = uu.by_id.get((y.get('referencedDecl') or {}).get('id'))
            if d_ is not None and d_.get('kind') == 'VarDecl' and kids(d_) and mentions_year(kids(d_)[-1], uu, depth + 1):
                return True
    return False


def _check_libc(ctx):
    """TimeZoneLibC::MakeTime for every 64-bit civil year: arithmetic on the year stays in its type, and the narrowing to
    std::tm's int year preserves the value (interval abstract interpretation; cs.year() is one value across the calls)."""
    from ..absint import AI, Observer, St, Int
    G = ctx.G
    ks = [k for k in G.defs if k[0] == 'cctz::TimeZoneLibC::MakeTime']
    if len(ks) != 1:
        raise AnalysisBroken('C10-libc: TimeZoneLibC::MakeTime not found (%d)' % len(ks))
    u, f = G.defs[ks[0]]

    class _O(Observer):
        def __init__(self):
            self.ovf = {}
            self.nar = {}

        def overflow(self, ai, e, val, it, st):
            self.ovf[id(e)] = (e, val, it)

        def narrowing(self, ai, e, val, it, explicit, st):
            self.nar[id(e)] = (e, val, it)
    o = _O()
    R = Int(-2 ** 63, 2 ** 63 - 1)
    assume = {'cctz::detail::civil_time<second_tag>::year': R}
    ai = AI(G, o, assume_returns=assume, pure_memo=True)
    st = St()
    st.refs[params_of(f)[0]['id']] = ('CS',)
    res = ai.analyse(ks[0], st)
    if not res:
        raise AnalysisBroken('C10-libc: TimeZoneLibC::MakeTime could not be analysed')
    ctx.stats['absint_libc'] = dict(ai.stats)

    n = 0
    for (uu, ff) in ctx.scope(f):
        for x in walk(ff):
            if x.get('kind') == 'BinaryOperator' and x.get('opcode') in ('+', '-', '*') and mentions_year(x, uu) and \
                    (type_range(dtype(x) or qtype(x)) or (0, 0))[0] < 0:
                n += 1
                b = o.ovf.get(id(x))
                ctx.check(b is None, 'C10-libc', 'year arithmetic at %s stays within its type for every civil year' % pos(x), x,
                          'for some civil year the result %s of this %s does not fit %s: undefined behaviour before the year has been '
                          'bounded (the saturation tests must not themselves overflow)' % (b[1] if b else '', x.get('opcode'), b[2] if b else ''),
                          construct='libc:ovf:%s' % fname_(ff), detail=str(b[1]) if b else '')
            elif (x.get('kind') in ('CXXStaticCastExpr', 'CStyleCastExpr', 'CXXFunctionalCastExpr') or
                  (x.get('kind') == 'ImplicitCastExpr' and x.get('castKind') == 'IntegralCast' and not x.get('isPartOfExplicitCast'))) \
                    and mentions_year(x, uu) and type_range(dtype(x) or qtype(x)) is not None and \
                    (type_range(dtype(x) or qtype(x)) or (0, 2 ** 64))[1] < 2 ** 63 - 1:
                n += 1
                b = o.nar.get(id(x))
                if b is None:
                    for y in walk(x):
                        if id(y) in o.nar:
                            b = o.nar[id(y)]
                ctx.check(b is None, 'C10-libc', 'year narrowed at %s only after it has been bounded' % pos(x), x,
                          'the civil year can be %s here and is narrowed to %s: mktime() is asked about another year instead of the '
                          'result saturating' % (b[1] if b else '', dtype(x)), construct='libc:narrow:%s' % fname_(ff), detail=str(b[1]) if b else '')
    ctx.minimum('C10-libc', 3)


def _fields_moved(ctx, f, sites):
    """Fields (pre / trans / post) of the civil_lookup that the given addition sites of TimeLocal (or of a helper / lambda
    it is split into) are applied to.  Returns (set of field names, reason when some site could not be followed)."""
    from ..frontend import owner_fn
    covered = set()
    undecided = ''
    FIELDS = ('pre', 'trans', 'post')

    def field_of(e):
        x = peel(e)
        while x is not None and x.get('kind') == 'UnaryOperator' and x.get('opcode') in ('&',):
            x = peel(kids(x)[0])
        if x is not None and x.get('kind') == 'MemberExpr' and x.get('name') in FIELDS:
            return x.get('name')
        return None
    for site in sites:
        fn_ = owner_fn(site)
        # the instant the site operates on
        args = call_args(site)
        tgt = args[0] if args else None
        pt = peel(tgt) if tgt is not None else None
        while pt is not None and pt.get('kind') in ('MaterializeTemporaryExpr', 'CXXConstructExpr', 'CXXBindTemporaryExpr') and len(kids(pt)) == 1:
            pt = peel(kids(pt)[0])
        if pt is not None and pt.get('kind') == 'CallExpr' and callee(pt) and callee(pt)[0] == 'fn' and callee(pt)[1].get('name') == 'min':
            # min(instant, limit): the instant is the argument that is not the limit
            cand = [a for a in call_args(pt)]
            pt = None
            for a in cand:
                pa = peel(a)
                if pa is not None and (field_of(pa) or (pa.get('kind') == 'UnaryOperator' and pa.get('opcode') == '*') or
                                       (pa.get('kind') == 'DeclRefExpr' and (pa.get('referencedDecl') or {}).get('kind') == 'ParmVarDecl')):
                    pt = pa
        if pt is None:
            undecided = 'operand of the addition at %s' % pos(site)
            continue
        fl = field_of(pt)
        if fl:
            covered.add(fl)
            continue
        # *tp with tp the variable of a range-for over a braced list of field addresses
        if pt.get('kind') == 'UnaryOperator' and pt.get('opcode') == '*' and peel(kids(pt)[0]).get('kind') == 'DeclRefExpr':
            vid = (peel(kids(pt)[0]).get('referencedDecl') or {}).get('id')
            loop = next((a for a in ancestors(site) if a.get('kind') == 'CXXForRangeStmt' and
                         any(d.get('kind') == 'VarDecl' and d.get('id') == vid for d in walk(a))), None)
            if loop is not None:
                rng = [d for d in walk(loop) if d.get('kind') == 'VarDecl' and (d.get('name') or '').startswith('__range')]
                lst = [y for y in walk(rng[0]) if y.get('kind') == 'InitListExpr'] if rng else []
                if lst:
                    fls = [field_of(el) for el in kids(lst[0])]
                    if all(fls):
                        covered |= set(fls)
                        continue
            # a pointer parameter of a helper: the fields are those whose addresses the callers pass
            d_ = fn_['_u'].by_id.get(vid) if fn_ is not None else None
            if d_ is not None and d_.get('kind') == 'ParmVarDecl':
                pt = peel(kids(pt)[0])
            else:
                undecided = 'the instant updated at %s' % pos(site)
                continue
        if pt.get('kind') == 'DeclRefExpr' and (pt.get('referencedDecl') or {}).get('kind') == 'ParmVarDecl' and fn_ is not None and fn_ is not f:
            # a helper / lambda taking the instant: look at its call sites in scope
            pidx = [i for i, p_ in enumerate(params_of(fn_)) if p_['id'] == pt['referencedDecl'].get('id')]
            from ..callgraph import fkey as _fk
            found_call = False
            for (uu, ff) in ctx.scope(f):
                for y in walk(ff):
                    if y.get('kind') in ('CallExpr', 'CXXOperatorCallExpr') and callee(y) and callee(y)[0] == 'fn' and \
                            _fk(fn_) in ctx.G.resolve_decl(callee(y)[1]):
                        ca = call_args(y)
                        if y.get('kind') == 'CXXOperatorCallExpr' and fn_.get('name') == 'operator()':
                            ca = ca[1:]
                        if pidx and pidx[0] < len(ca):
                            fl2 = field_of(ca[pidx[0]])
                            # the result must land in the same field (or the helper updates it through the pointer)
                            par = y.get('_p')
                            while par is not None and par.get('kind') in ('ImplicitCastExpr', 'MaterializeTemporaryExpr', 'CXXBindTemporaryExpr',
                                                                          'ExprWithCleanups', 'CXXConstructExpr'):
                                par = par.get('_p')
                            dst = None
                            if par is not None and par.get('kind') == 'CXXOperatorCallExpr' and callee(par) and \
                                    callee(par)[1].get('name') == 'operator=':
                                dst = field_of(call_args(par)[0])
                            if fl2 and (dst == fl2 or dst is None and '*' in (qtype(params_of(fn_)[pidx[0]]) or '')):
                                covered.add(fl2)
                                found_call = True
            if not found_call:
                undecided = 'the call sites of %s' % (qn(fn_) or '?')
            continue
        undecided = 'the instant updated at %s' % pos(site)
    return covered, undecided
