"""C08 — format(): no out-of-bounds access or UB for any format string (memory-safety clause)."""
import re
from ..frontend import kids, walk, qn, qtype, dtype, pos, ancestors, AnalysisBroken, params_of, owner_fn
from ..expr import callee, call_args, peel, Keys, Folder
from ..callgraph import fname
from ..absint import AI, Observer, St, Int, Ptr, I, TOP, vjoin
from . import cursor

EXPLANATION = (
    'Abstract interpretation of detail::format() and its helpers with pointers abstracted as (object, '
    'offset interval). C08-budget: every store and load through the scratch-buffer cursors (bp, cp, ep, '
    'including those made inside the inlined Format02d, FormatOffset and Format64) lands inside char '
    'buf[3 + kDigits10_64]; the digit and pad loops of Format64 are bounded by abstract unrolling '
    '(states partitioned by iteration count and cursor offset, no widening), so the longest '
    'conversions (int64 minimum with sign: 20, %E18S: 21) are computed, not assumed. C08-table: every '
    'subscript of kDigits, kExp10 and any other constant table is in bounds (pointer locals carry value '
    'numbers, so equalities between cursors and the byte known to sit at a cursor survive a copy). '
    'C08-tm: the narrowing of year-1900 into tm_year is '
    'reached only for exactly the years whose difference fits an int (by must-facts where ToTM has the '
    'three-way test; otherwise by abstract runs on the three partitions of the civil year: below, inside '
    'and above the int range around 1900), and FormatTM is never handed '
    'an empty format. C08-escape: the specifier dispatch is reached only when the run of percent signs '
    'before it, counted from its first character, has odd length. C08-cursor: a finite typestate over the scan cursors shows no read or advance '
    'beyond the end of the format string. Assumes the documented precondition 0 <= fs < 1s, the '
    'accessor ranges proved under C04 and |utc offset| < 24h established at load (C12/C15). Does not '
    'decide that the text rendered is the documented rendering, nor what strftime does.')
LEVEL = ('Abstract-interpretation proof over all format strings, instants and sub-second values of the memory-safety '
         'clause (scratch buffer, constant tables, scan cursors); rendering correctness is value semantics.')
LEVEL_NOTE = ('Trusts clang 14 AST and sa/absint.py; assumptions: 0 <= fs < 10^15 fs, civil accessors in their C04 ranges, '
              '|al.offset| < 86400, ToWeek in [0,53]; strftime/FormatTM internals are libc.')
TECHNIQUE = 'interval + pointer-offset abstract interpretation with abstract loop unrolling; must-hold branch facts; cursor typestate'

ACC = {'month': (1, 12), 'day': (1, 31), 'hour': (0, 23), 'minute': (0, 59), 'second': (0, 59)}


class _Obs(Observer):
    def __init__(self, bufid):
        self.bufid = bufid
        self.acc = {}
        self.sub = {}
        self.unknown = []

    def _rec(self, kind, e, ptr, ext):
        if ptr.target is None or ptr.off is None:
            return
        k = (kind, id(e))
        c = self.acc.get(k)
        self.acc[k] = (kind, e, ext, ptr.off if c is None else c[3].join(ptr.off), ptr.target)

    def store(self, ai, e, ptr, ext, st):
        if ext is None and ptr.target is None and re.match(r'^char \*', (dtype(e) or qtype(e)).replace('const ', '') + ' *') and \
                _fn_of(e) in ('format', 'Format64', 'Format02d', 'FormatOffset'):
            self.unknown.append(e)
            return
        self._rec('store', e, ptr, ext)

    def load(self, ai, e, ptr, ext, st):
        self._rec('load', e, ptr, ext)

    def subscript(self, ai, e, ext, idx, st):
        c = self.sub.get(id(e))
        self.sub[id(e)] = (e, ext, idx if c is None else c[2].join(idx))


def run(ctx):
    G = ctx.G
    k = G.one('cctz::detail::format')
    u, f = G.defs[k]
    BUF = r'^(?:char\s*\[(\d+)\]|(?:struct\s+)?std::array<char,\s*(\d+)[uUlL]*>)$'
    bufs = [x for x in walk(f) if x.get('kind') == 'VarDecl' and re.match(BUF, dtype(x) or qtype(x))]
    if len(bufs) != 1:
        raise AnalysisBroken('C08: scratch buffer of format() not found (%d)' % len(bufs))
    buf = bufs[0]
    extent = int([g for g in re.match(BUF, dtype(buf) or qtype(buf)).groups() if g][0])
    obs = _Obs(buf['id'])
    assume = {}
    for acc, rg in ACC.items():
        for tag in ('second_tag', 'day_tag'):
            assume['cctz::detail::civil_time<%s>::%s' % (tag, acc)] = Int(rg[0], rg[1])
    assume['cctz::detail::ToWeek'] = Int(0, 53)
    fmt_unit = ctx.P.unit('time_zone_format.cc')

    def inline(key):
        uu, ff = G.defs[key]
        p = ff.get('_pos') or ('',)
        return (p[0] or '').endswith('time_zone_format.cc') and key[0] not in ('cctz::detail::FormatTM', 'cctz::detail::ToWeek')

    def part(loc, v):
        if isinstance(v, Ptr) and v.off is not None and v.off.const() is not None and v.target is not None and \
                v.target[0] == buf['id'] and len(loc) == 1:
            return ('off', v.off.const())
        return None

    def member(e):
        if e.get('name') == 'offset' and 'absolute_lookup' in (dtype(kids(e)[0]) + qtype(kids(e)[0]) if kids(e) else ''):
            return Int(-86399, 86399)
        return None

    def m_count(ai, e, c, args, st, uu):
        t = (dtype(c[2]) or '') + qtype(c[2]) if c[2] is not None else ''
        if '1000000000000000' in t or 'femtoseconds' in t:
            return [(Int(0, 10 ** 15 - 1), st)]
        return None
    # the scan over the format string: the loop of format() with the largest body, however it is spelled
    loops_ = [x for x in walk(f) if x.get('kind') in ('WhileStmt', 'ForStmt', 'DoStmt') and owner_fn(x) is f]
    outer = max(loops_, key=lambda l: sum(1 for _ in walk(l))) if loops_ else None
    ai = AI(G, obs, partition=part, max_parts=700, inline=inline, loop_once=lambda l: l is outer,
            unroll=lambda fn: qn(fn) == 'cctz::detail::Format64', assume_returns=assume, assume_member=member,
            method_model={'count': m_count}, max_depth=6, auto_unroll=True, value_numbers=True)
    st = St()
    ps = params_of(f)
    for p in ps:
        st.refs[p['id']] = ('ARG', p['name'])
    res = ai.analyse(k, st)
    if res is None or not res:
        raise AnalysisBroken('C08: format() could not be analysed')
    ctx.stats['absint'] = dict(ai.stats)
    ctx.assume('0 <= fs < 10^15 femtoseconds (documented precondition of detail::format; the public template establishes it through split_seconds)')
    ctx.assume('civil accessors month/day/hour/minute/second lie in the ranges proved by C04-range')
    ctx.assume('|absolute_lookup::offset| < 86400 (C12 rejects zone data outside it; fixed offsets are capped at 24h)')
    ctx.assume('ToWeek returns a week number in [0,53] (value semantics of civil-day arithmetic, not interval-provable)')
    for e in obs.unknown:
        ctx.bad('C08-budget', 'store through a scratch cursor of unknown position at %s' % pos(e), e,
                'a scratch-buffer cursor is written through before it is (re)positioned in this iteration', construct='budget:unknown:%s' % _fn_of(e))
    nbuf = 0
    for (kind, e, ext, off, target) in obs.acc.values():
        if target[0] != buf['id']:
            # other arrays (constant tables through pointers) are covered by C08-table
            if kind == 'load' and ext is not None:
                ctx.check(off.lo >= 0 and off.hi < ext, 'C08-table', 'read at %s within [0,%d)' % (pos(e), ext), e,
                          'a constant table is read at offset %s, extent %d' % (off, ext), construct='table:%s' % _fn_of(e), detail=str(off))
            continue
        nbuf += 1
        ctx.check(off.lo >= 0 and off.hi < extent, 'C08-budget', '%s through a scratch cursor at %s stays in buf[%d]: offsets %s'
                  % (kind, pos(e), extent, off), e,
                  'a %s through the scratch-buffer cursor can hit offset %s of the %d-byte buffer: stack memory next to it is '
                  'read or overwritten for some instant/format' % (kind, off, extent), construct='budget:%s:%s' % (_fn_of(e), kind),
                  detail=str(off))
    ctx.minimum('C08-budget', 5)
    for (e, ext, idx) in obs.sub.values():
        ctx.check(idx.lo >= 0 and idx.hi < ext, 'C08-table', 'subscript at %s: %s within [0,%d)' % (pos(e), idx, ext), e,
                  'a constant table of extent %d is subscripted with %s' % (ext, idx), construct='table:%s' % _fn_of(e), detail=str(idx))
    ctx.minimum('C08-table', 6)
    # extent is the declared 3 + kDigits10_64 with kDigits10_64 the number of digits of kExp10's last entry
    from ..table import one_var, table_of
    uu, d = one_var(ctx.P, 'cctz::detail::kExp10')
    vals = table_of(uu, d)[0]
    okp = all(vals[i + 1] == 10 * vals[i] for i in range(len(vals) - 1)) and vals[0] == 1
    uu2, d2 = one_var(ctx.P, 'cctz::detail::kDigits10_64')
    kd = Folder(uu2).fold(kids(d2)[-1])
    ctx.check(okp and kd == len(vals) - 1 and 10 ** kd <= 2 ** 63 - 1 < 10 ** (kd + 1), 'C08-table',
              'kExp10 holds 10^0..10^kDigits10_64 and kDigits10_64 = %s is the decimal capacity of int64' % kd, d,
              'kExp10 / kDigits10_64 are inconsistent: scaled fractions overflow or are mis-scaled', construct='table:kExp10')

    # ---- C08-tm
    kt = G.one('cctz::detail::ToTM')
    ut, ft = G.defs[kt]
    F = ctx.facts(ft)
    decided_by_facts = False
    casts = [x for x in walk(ft) if x.get('kind') == 'CXXStaticCastExpr' and (dtype(x) or qtype(x)) == 'int']
    IMIN, IMAX = -2 ** 31, 2 ** 31 - 1
    for x in casts:
        ek = F.keys.key(kids(x)[-1])
        m = re.match(r'^\((.+) - n:(\d+)\)$', ek)
        fs = F.facts_at_ast(x) or frozenset()
        lo = hi = None
        if m:
            Y, c = m.group(1), int(m.group(2))
            for (op, a, b) in fs:
                if b == Y and a.startswith('n:') and op in ('<=', '<'):
                    v = int(a[2:]) + (1 if op == '<' else 0)
                    lo = v if lo is None else max(lo, v)
                if a == Y and b.startswith('n:') and op in ('<=', '<'):
                    v = int(b[2:]) - (1 if op == '<' else 0)
                    hi = v if hi is None else min(hi, v)
                if a == ek and b.startswith('n:') and op in ('<=', '<'):
                    v = int(b[2:]) - (1 if op == '<' else 0) + c
                    hi = v if hi is None else min(hi, v)
                if b == ek and a.startswith('n:') and op in ('<=', '<'):
                    v = int(a[2:]) + (1 if op == '<' else 0) + c
                    lo = v if lo is None else max(lo, v)
            if lo is None or hi is None:
                continue
            decided_by_facts = True
            safe = lo is not None and hi is not None and lo - c >= IMIN and hi - c <= IMAX
            exact = safe and lo - c == IMIN and hi - c == IMAX
            ctx.check(safe, 'C08-tm', 'static_cast<int>(year - %d) only for years in [%s,%s]' % (c, lo, hi), x,
                      'the narrowing of year-%d to int is reachable for a year whose difference does not fit (years %s..%s)'
                      % (c, lo, hi), construct='tm:cast', detail='fits int')
            ctx.check(exact, 'C08-tm', 'tm_year saturates exactly when year - %d does not fit an int' % c, x,
                      'tm_year is computed exactly only for years in [%s,%s]; every year with year-%d in [INT_MIN,INT_MAX] '
                      'must be, otherwise strftime-delegated year fields render a saturated year' % (lo, hi, c),
                      construct='tm:exact', detail='[%s,%s]' % (lo, hi))
    # tm_year by abstract interpretation on the three partitions of the civil year the specification names: below,
    # inside and above the years whose distance from 1900 fits an int.  cs.year() is one value across its calls.
    BASE = 1900

    class _TmObs(Observer):
        def __init__(self):
            self.nar = []
            self.ovf = []

        def narrowing(self, ai_, e, val, it, explicit, st_):
            self.nar.append((e, val, it))

        def overflow(self, ai_, e, val, it, st_):
            self.ovf.append((e, val, it))

    from ..callgraph import fkey as _fkey
    tm_scope = set(_fkey(ff_)[0] for (uu_, ff_) in ctx.scope(ft) if 'year' not in _fkey(ff_)[0].split('::')[-1].lower() or
                   (ff_.get('_pos') or ('',))[0].endswith('time_zone_format.cc'))

    def tm_year_for(lo, hi):
        o = _TmObs()
        ai2 = AI(G, o, assume_returns={'cctz::detail::civil_time<second_tag>::year': Int(lo, hi)}, pure_memo=True,
                 inline=lambda k_: k_[0] in tm_scope)
        st2 = St()
        st2.refs[params_of(ft)[0]['id']] = ('AL',)
        res2 = ai2.analyse(kt, st2)
        val = None
        rets_ = [r for r in walk(ft) if r.get('kind') == 'ReturnStmt' and kids(r)]
        rid = None
        if len(rets_) == 1:
            rd_ = [y for y in walk(rets_[0]) if y.get('kind') == 'DeclRefExpr' and (y.get('referencedDecl') or {}).get('kind') == 'VarDecl']
            rid = (rd_[0].get('referencedDecl') or {}).get('id') if len(rd_) == 1 else None
        for (v, s_) in res2 or ():
            loc = getattr(v, 'loc', None) or ((rid,) if rid else None)
            ty = s_.mem.get(loc + ('tm_year',)) if loc is not None else None
            if ty is None:
                return None, o
            val = ty if val is None else val.join(ty) if isinstance(ty, Int) and isinstance(val, Int) else None
            if val is None:
                return None, o
        return val, o
    parts = [('below', -2 ** 63, IMIN + BASE - 1, Int(IMIN, IMIN)), ('inside', IMIN + BASE, IMAX + BASE, Int(IMIN, IMAX)),
             ('above', IMAX + BASE + 1, 2 ** 63 - 1, Int(IMAX, IMAX))]
    for (nm, lo, hi, want) in ([] if decided_by_facts else parts):
        got, o = tm_year_for(lo, hi)
        from .c10 import mentions_year
        in_tm = [t for t in o.nar + o.ovf if any(a is ft for a in ancestors(t[0])) and mentions_year(t[0], ut)]
        ctx.check3(None if got is None else (isinstance(got, Int) and got.lo == want.lo and got.hi == want.hi and not in_tm), 'C08-tm',
                   'tm_year for civil years %s the int range around 1900 is %s' % (nm, want), ft,
                   'for civil years in [%d,%d] ToTM stores tm_year = %s%s; exactly %s is required (year - 1900 where it fits an int, '
                   'the nearest int otherwise): strftime-delegated year fields render another year, or the narrowing is undefined'
                   % (lo, hi, got, (' with a value-changing narrowing / overflow of %s' % in_tm[0][1]) if in_tm else '', want),
                   construct='tm:year:%s' % nm, detail=str(got),
                   unknown_why='the value stored in tm_year was not followed by the abstract interpreter')
    n_sites = 0
    for (x, Ff) in [(x_, ctx.facts(f_)) for k_, (u_, f_) in sorted(G.defs.items()) for x_ in walk(f_)
                    if x_.get('kind') == 'CallExpr' and callee(x_) and callee(x_)[0] == 'fn' and callee(x_)[1].get('name') == 'FormatTM'
                    and owner_fn(x_) is f_
                    and (callee(x_)[1].get('_qn') or '').startswith('cctz::')]:
        if True:
            n_sites += 1
            a = peel(call_args(x)[1])
            ok = False
            if a.get('kind') in ('CXXConstructExpr', 'CXXTemporaryObjectExpr', 'CXXFunctionalCastExpr'):
                while a.get('kind') == 'CXXFunctionalCastExpr' or (a.get('kind') in ('CXXConstructExpr',) and len(call_args(a)) == 1 and
                                                                    peel(call_args(a)[0]).get('kind') in ('CXXConstructExpr', 'CXXTemporaryObjectExpr')):
                    a = peel(kids(a)[0] if a.get('kind') == 'CXXFunctionalCastExpr' else call_args(a)[0])
                args = call_args(a)
                if len(args) >= 2:
                    k1, k2 = Ff.keys.key(args[0]), Ff.keys.key(args[1])
                    fs = Ff.facts_at_ast(x) or frozenset()
                    ok = any(op == '!=' and set((p, q)) == set((k1, k2)) for (op, p, q) in fs)
            ctx.check(ok, 'C08-tm', 'FormatTM at %s is given a non-empty format' % pos(x), x,
                      'FormatTM can be called with an empty format: it takes &buf[0] of an empty vector',
                      construct='tm:formattm:%s' % Ff.keys.key(call_args(x)[1])[:40])
    if n_sites < 1:
        raise AnalysisBroken('C08-tm: no call of FormatTM found')
    ctx.minimum('C08-tm', 3)

    # ---- C08-escape: a specifier is interpreted only after an odd-length run of '%'
    Ff = ctx.facts(f)
    gf = ctx.cfg(f)
    raw = Keys(u)
    def _is_spec_set(e):
        # a string literal, a constant char array, or std::begin() of one
        x_ = peel(e)
        if x_ is None:
            return False
        if x_.get('kind') == 'StringLiteral':
            return True
        if x_.get('kind') == 'CallExpr' and callee(x_) and callee(x_)[0] == 'fn' and callee(x_)[1].get('name') in ('begin', 'cbegin') \
                and call_args(x_):
            x_ = peel(call_args(x_)[0])
        if x_ is not None and x_.get('kind') == 'DeclRefExpr':
            d_ = u.by_id.get((x_.get('referencedDecl') or {}).get('id'))
            return bool(d_ is not None and re.search(r'^const char\s*\[', dtype(d_) or qtype(d_) or ''))
        return False
    disp = [x for x in walk(f) if x.get('kind') == 'CallExpr' and callee(x) and callee(x)[0] == 'fn' and
            callee(x)[1].get('name') in ('strchr', 'find', 'memchr') and len(call_args(x)) >= 2 and _is_spec_set(call_args(x)[0])]
    okp = False
    detail = ''
    if len(disp) == 1:
        fs = Ff.facts_at_ast(disp[0]) or frozenset()
        for (op, a, b) in fs:
            m = re.match(r'^\(\((\w+#0x[0-9a-f]+) - (\w+#0x[0-9a-f]+)\) % n:2\)$', a if b == 'n:0' else b)
            if op == '!=' and 'n:0' in (a, b) and m:
                curk, startk = m.group(1), m.group(2)
                sd = u.by_id.get(startk.split('#')[1])
                if sd is None or not kids(sd) or raw.key(kids(sd)[-1]) != curk:
                    continue
                # between the declaration of the run start and the dispatch, the cursor moves only over '%'
                starts = gf.nodes_for(sd)
                seen = set()
                stack = [m_ for s_ in starts for (m_, _) in s_.succs]
                good = True
                dn = set(n.id for n in gf.nodes_for(disp[0]))
                while stack:
                    n = stack.pop()
                    if n.id in seen or n.id in dn or any(n is s_ for s_ in starts):
                        continue
                    seen.add(n.id)
                    if n.kind == 'loop' and n.ast is not None and n.ast.get('kind') == 'WhileStmt' and \
                            not any(a_ is n.ast for a_ in ancestors(sd)):
                        pass
                    if n.kind in ('stmt', 'cond') and n.ast is not None:
                        from ..expr import written_lvalues
                        for lv in written_lvalues(n.ast):
                            if raw.key(lv) == curk:
                                nf = Ff.facts_at(n)
                                if not any(o2 == '==' and set((a2, b2)) == set(('*(%s)' % curk, 'n:37')) for (o2, a2, b2) in nf):
                                    # a write to cur after the dispatch point of an earlier iteration is fine:
                                    # only writes that can reach the dispatch without redefining the run start matter
                                    if gf.reachable_avoiding(gf.nodes_for(disp[0]), cut_nodes=starts) and \
                                            _reaches(gf, n, dn, avoid=starts):
                                        good = False
                    stack.extend(m_ for (m_, _) in n.succs)
                if good:
                    okp = True
                    detail = '%s counted from %s' % (curk.split('#')[0], startk.split('#')[0])
    ctx.check3(okp if len(disp) == 1 else None, 'C08-escape', 'specifier dispatch only after an odd run of percent signs', disp[0] if disp else f,
              'the characters after a run of percent signs are interpreted as a specifier without the length of that run having '
              'been found odd (counted from the start of the run): an escaped "%%" is taken for the start of a specifier',
              construct='escape:parity', detail=detail)
    ctx.minimum('C08-escape', 1)

    # ---- C08-cursor
    cursor.check_function(ctx, 'C08-cursor', k)
    ctx.minimum('C08-cursor', 10)


def _reaches(g, start, targets, avoid=()):
    av = set(n.id for n in avoid)
    seen = set()
    stack = [m for (m, _) in start.succs]
    while stack:
        n = stack.pop()
        if n.id in seen or n.id in av:
            continue
        seen.add(n.id)
        if n.id in targets:
            return True
        stack.extend(m for (m, _) in n.succs)
    return False


def _fn_of(site):
    from ..frontend import enclosing_function
    f = enclosing_function(site)
    return qn(f).split('::')[-1] if f is not None else '?'
