"""C11 — next/prev_transition enumerate the zone's real changes (agreement clauses)."""
import re
from ..frontend import kids, walk, qn, qtype, dtype, pos, ancestors, AnalysisBroken
from ..expr import callee, call_args, peel, Keys
from ..callgraph import fname
from ..ptrnorm import PtrNorm, build_env
from .c14 import _comparator_field

EXPLANATION = (
    'Sibling-agreement and field-coverage analysis. C11-equiv: the TransitionType fields compared '
    'by EquivTransitions are exactly the fields LocalTime reads to build what lookup() reports '
    '(offset, DST flag, abbreviation index): a change of an observable attribute is never filtered '
    'as a no-op, and nothing else is. C11-sib: NextTransition and PrevTransition apply the same '
    'sentinel guard, call the no-op filter with default_transition_type_ as predecessor of the '
    'first real entry and otherwise the previous entry\'s type, and every result site assigns '
    'from = X.prev_civil_sec + 1 and to = X.civil_sec for one and the same entry X. C11-bound: '
    '"strictly after" is std::upper_bound and "strictly before" is std::lower_bound followed by '
    'the predecessor, both ordered by unix_time over [begin,end) with the query instant as key, '
    'and an exhausted search returns false. C11-route: the templated next_transition / prev_transition '
    'overloads (instantiated by a type-checked witness unit for durations finer and coarser than a second) obtain '
    'their whole second from split_seconds, never from a cast of their own (a cast rounds toward the epoch, so a '
    'pre-1970 transition within the same second as the query would be skipped). Does not decide that the two chains enumerate the '
    'same set nor constancy of lookup() between reported transitions.')
LEVEL = ('Structural agreement proof between the two sibling scans and between the no-op filter and the fields '
         'lookup() exposes; complete for those clauses, silent on the value-level enumeration.')
LEVEL_NOTE = 'Trusts clang 14 AST and sa/; std::upper_bound/lower_bound semantics are assumed (standard library).'
TECHNIQUE = 'sibling cross-check + field-coverage comparison + symbolic pointer normal form over clang AST; type-checked witness instantiation for the templated overloads'


def _fields_read(u, f, record_suffix):
    """Names of members of objects of record type *record_suffix read in f."""
    out = {}
    for x in walk(f):
        if x.get('kind') == 'MemberExpr':
            ks = kids(x)
            if ks:
                bt = (dtype(ks[0]) or qtype(ks[0])).replace('const ', '').replace('&', '').replace('*', '').strip()
                if bt.endswith(record_suffix):
                    out.setdefault(x.get('name'), []).append(x)
    return out


def run(ctx):
    G = ctx.G
    # ---- C11-equiv
    u, fe = ctx.fn('cctz::TimeZoneInfo::EquivTransitions')
    ul, fl = G.defs[G.one('cctz::TimeZoneInfo::LocalTime', 'TransitionType')]
    ul2, fl2 = G.defs[G.one('cctz::TimeZoneInfo::LocalTime', 'Transition&')]
    cmp_fields = set()
    tie_fields = {}
    K = Keys(u)
    for x in walk(fe):
        if x.get('kind') == 'CallExpr' and callee(x) and callee(x)[0] == 'fn' and callee(x)[1].get('name') == 'tie':
            # fields compared member-wise through std::tie(a.f, ..) == std::tie(b.f, ..)
            for a_ in call_args(x):
                pa_ = peel(a_)
                if pa_ is not None and pa_.get('kind') == 'MemberExpr':
                    tie_fields.setdefault(K.key(kids(pa_)[0]), []).append(pa_.get('name'))
        if x.get('kind') == 'BinaryOperator' and x.get('opcode') in ('!=', '=='):
            a, b = [peel(c) for c in kids(x)]
            if a.get('kind') == 'MemberExpr' and b.get('kind') == 'MemberExpr' and a.get('name') == b.get('name'):
                ba, bb = K.key(kids(a)[0]), K.key(kids(b)[0])
                if ba != bb:
                    cmp_fields.add(a.get('name'))
    # two ties over different objects compare position-wise: a field is compared when it stands at the same position in both
    objs_ = list(tie_fields.items())
    if len(objs_) == 2 and len(objs_[0][1]) == len(objs_[1][1]):
        for (fa_, fb_) in zip(objs_[0][1], objs_[1][1]):
            if fa_ == fb_:
                cmp_fields.add(fa_)
    read1, read2 = set(), set()
    for (uu_, ff_) in ctx.scope(fl):          # LocalTime and the file-local helpers it may be split into
        read1 |= set(_fields_read(uu_, ff_, 'TransitionType'))
    for (uu_, ff_) in ctx.scope(fl2):
        read2 |= set(_fields_read(uu_, ff_, 'TransitionType'))
    observable = read1 | read2
    if not observable or not cmp_fields:
        raise AnalysisBroken('C11-equiv: could not extract field sets (%s / %s)' % (observable, cmp_fields))
    for fld in sorted(observable | cmp_fields):
        ctx.check(fld in observable and fld in cmp_fields, 'C11-equiv', 'TransitionType::%s: compared by EquivTransitions <=> reported by lookup' % fld, fe,
                  ('lookup() reports TransitionType::%s but EquivTransitions does not compare it: a change of that '
                   'attribute alone is filtered out as a no-op and never reported' % fld) if fld not in cmp_fields else
                  ('EquivTransitions distinguishes transitions by TransitionType::%s, which lookup() does not report: '
                   'transitions that change nothing observable are reported' % fld),
                  construct='equiv:%s' % fld, detail='observable=%s compared=%s' % (sorted(observable), sorted(cmp_fields)))
    # each mismatch returns false, identical index returns true, fall-through returns true
    ctx.minimum('C11-equiv', 3)
    g = ctx.cfg(fe)
    F = ctx.facts(fe)
    for rn in g.returns:
        for (fs, val) in F.return_cases(rn):
            neq = [f_ for f_ in fs if f_[0] == '!=' and '.' in f_[1] and '.' in f_[2] and f_[1].split('.')[-1] == f_[2].split('.')[-1]]
            if neq:
                ctx.check(val is False, 'C11-equiv', 'differing %s => not equivalent' % neq[0][1].split('.')[-1], rn.ast,
                          'EquivTransitions returns true although a compared attribute differs', construct='equiv-ret:%s' % neq[0][1].split('.')[-1])
            else:
                ctx.check(val is True, 'C11-equiv', 'no differing attribute => equivalent', rn.ast,
                          'EquivTransitions returns false although no compared attribute differs: every transition is '
                          'reported, including no-ops', construct='equiv-ret:true')

    # ---- C11-sib / C11-bound
    res = {}
    for name, algo, role in (('cctz::TimeZoneInfo::NextTransition', 'upper_bound', 'upper'),
                             ('cctz::TimeZoneInfo::PrevTransition', 'lower_bound', 'lower')):
        u, f = ctx.fn(name)
        res[name] = _scan(ctx, u, f, name, algo, role)
    a, b = res['cctz::TimeZoneInfo::NextTransition'], res['cctz::TimeZoneInfo::PrevTransition']
    for key, what in (('sentinel', 'sentinel guard (skip a first entry at or before the big-bang instant)'),
                      ('empty', 'empty-table guard'), ('cmp_field', 'search key'), ('query', 'search query')):
        ctx.check(a[key] == b[key] and a[key] is not None, 'C11-sib', 'siblings agree on %s' % what, a['fn'],
                  'NextTransition and PrevTransition disagree on the %s (%s vs %s): the two scans do not enumerate '
                  'the same set' % (what, a[key], b[key]), construct='sib:%s' % key, detail=str(a[key])[:100])
    ctx.minimum('C11-sib', 10)
    ctx.minimum('C11-bound', 6)

    # ---- C11-route: the sub-second overloads floor through split_seconds (witness instantiation shared with C18)
    from . import c18
    wctx, GW = c18.witness(ctx)
    c18.check_route(ctx, wctx, GW, 'C11-route', only=('next_transition', 'prev_transition'), min_n=4)
    ctx.minimum('C11-route', 4)


def _scan(ctx, u, f, name, algo, role):
    """Next/PrevTransition decided on guarded symbolic values (sa/symval.py): what the search range, the
    filter arguments and the reported entry denote relative to the table and to the search result,
    whatever locals, helpers and statement forms the source uses to say it."""
    from ..symval import SymVal, render, single, lin_cmp
    F = ctx.facts(f)
    keys = F.keys
    g = ctx.cfg(f)
    short = name.split('::')[-1]
    out = dict(fn=f, sentinel=None, empty=None, cmp_field=None, query=None)
    # empty-table guard
    for rn in g.returns:
        fs = F.facts_at(rn)
        if any(fa[0] == '!=' and 'this.transitions_.empty()' in (fa[1], fa[2]) for fa in fs) or \
                any(fa[0] == '==' and set((fa[1], fa[2])) == set(('this.transitions_.size()', 'n:0')) for fa in fs):
            if keys.key(kids(rn.ast)[0]) == 'n:0':
                out['empty'] = 'transitions_.empty() -> false'
    # the search
    calls = [x for x in walk(f) if x.get('kind') == 'CallExpr' and callee(x) and callee(x)[0] == 'fn'
             and callee(x)[1].get('name') in ('upper_bound', 'lower_bound', 'equal_range', 'partition_point', 'find_if')]
    ok = len(calls) == 1 and callee(calls[0])[1].get('name') == algo
    sv0 = SymVal(ctx, f)
    base = None
    a0v = a1v = None
    if len(calls) == 1:
        ua = call_args(calls[0])
        a0v, a1v = single(sv0.value_ast(ua[0]) or ()), single(sv0.value_ast(ua[1]) or ())
        if a0v is not None and a0v[0] == 'ptr':
            base = a0v[1]
    # sentinel: the range starts at first+1 exactly when first.unix_time <= K
    sent_sym = None
    if a0v is not None and a0v[0] == 'ptr':
        syms = [k_ for k_ in a0v[2] if k_]
        if len(syms) == 1 and syms[0] in sv0.phis and a0v[2] == {syms[0]: 1}:
            alts = sv0.phis[syms[0]]
            skip = [(sv0.facts(gd), t) for (gd, t) in alts if t[2] == {'': 1}]
            keep = [(sv0.facts(gd), t) for (gd, t) in alts if t[2] == {}]
            if len(alts) == 2 and len(skip) == 1 and len(keep) == 1:
                K = None
                for fa in skip[0][0]:
                    if fa[0] == '<=' and fa[1] == '%s[0].unix_time' % base and fa[2].startswith('n:-'):
                        K = fa[2]
                if K is not None and ('<', K, '%s[0].unix_time' % base) in keep[0][0]:
                    out['sentinel'] = 'first.unix_time <= %s -> skip' % K
                    sent_sym = syms[0]
    ctx.check(out['sentinel'] is not None, 'C11-sib', '%s: sentinel first entry skipped' % short, f,
              'the big-bang sentinel entry is not excluded from the scan: it is reported as a transition',
              construct='sentinel:%s' % short, detail=str(out['sentinel']))
    ctx.check(out['empty'] is not None, 'C11-sib', '%s: empty table answers false' % short, f,
              'a zone without transitions does not answer false', construct='empty:%s' % short)
    ctx.check(ok, 'C11-bound', '%s searches with std::%s' % (short, algo), calls[0] if calls else f,
              '%s must use std::%s: with the other bound a query instant equal to a transition is answered with the '
              'wrong neighbour ("strictly %s" violated)' % (short, algo, 'after' if role == 'upper' else 'before'),
              construct='algo:%s' % short, detail=callee(calls[0])[1].get('name') if calls else 'none')
    if len(calls) != 1:
        return out
    ua = call_args(calls[0])
    if len(ua) == 4:
        out['cmp_field'] = _comparator_field(ctx, ua[3])
        td = u.by_id.get((peel(ua[2]).get('referencedDecl') or {}).get('id'))
        if td is not None and kids(td):
            il = peel(kids(td)[-1])
            if il.get('kind') == 'InitListExpr' and kids(il):
                q_ = peel(kids(il)[0])
                # the instant searched for: what the query local was initialised from (it may be adjusted afterwards)
                if q_ is not None and q_.get('kind') == 'DeclRefExpr':
                    qd_ = u.by_id.get((q_.get('referencedDecl') or {}).get('id'))
                    if qd_ is not None and qd_.get('kind') == 'VarDecl' and kids(qd_):
                        q_ = kids(qd_)[-1]
                out['query'] = re.sub(r'#0x[0-9a-f]+', '', keys.key(q_))
    ctx.check(out['cmp_field'] == 'unix_time', 'C11-bound', '%s orders the search by unix_time' % short, calls[0],
              'the search is not ordered by the transition instant', construct='cmpfield:%s' % short, detail=str(out['cmp_field']))
    size = '%s.size()' % base
    whole = base is not None and (sent_sym is not None or a0v[2] == {}) and a1v is not None and a1v[0] == 'ptr' and \
        a1v[1] == base and a1v[2] == {size: 1}
    ctx.check(whole, 'C11-bound', '%s searches the whole table [first, first+size)' % short, calls[0],
              'the search range is not the whole transition table', construct='range:%s' % short,
              detail='%s .. %s' % (render(a0v), render(a1v)))
    if base is None:
        return out
    sv = SymVal(ctx, f, seed_calls=[(calls[0], ('ptr', base, {'U': 1}))])
    # the candidate: the variable that carries the search result through the skip loop
    Ls = [(sym, info) for sym, info in sv.loops.items()
          if single(info['init'] or ()) in (('ptr', base, {'U': 1}), ('int', None, {'U': 1}))]      # (a pointer or an index into the table)
    want_step = {'': 1} if role == 'upper' else {'': -1}
    Lsym = Ls[0][0] if len(Ls) == 1 else None
    odd_loop = any(y.get('kind') == 'DoStmt' for y in walk(f)) or any(
        y.get('kind') in ('WhileStmt', 'ForStmt') and any(z.get('kind') == 'UnaryOperator' and z.get('opcode') in ('++', '--')
                                                           for z in walk(loops_cond(y) or {})) for y in walk(f))
    if odd_loop and not (Lsym is not None and Ls[0][1]['step'] == want_step):
        # a do-while, or a loop that steps its cursor inside its own condition: the loop-carried value is not summarised
        ctx.unknown('C11-sib', '%s: the skip loop starts at the search result and moves one entry %s per iteration' % (
            short, 'forward' if role == 'upper' else 'backward'), f,
            'the scan is a do-while / steps its cursor inside the loop condition: the value carried round the loop is not followed',
            construct='skiploop:%s' % short)
        return out
    ctx.check(Lsym is not None and Ls[0][1]['step'] == want_step, 'C11-sib',
              '%s: the skip loop starts at the search result and moves one entry %s per iteration' % (
                  short, 'forward' if role == 'upper' else 'backward'), f,
              'no loop carries the search result one entry at a time in the direction of the scan (found %s)' % (
                  [(render(single(i['init'] or ()) or None), i['step']) for (_, i) in Ls],),
              construct='skiploop:%s' % short)
    if Lsym is None:
        return out
    begin_sym = [k_ for k_ in a0v[2] if k_]
    bl = {begin_sym[0]: 1} if begin_sym else {}
    # begin as seen by the seeded analysis (phi symbols are numbered per run)
    b2 = single(sv.value_ast(ua[0]) or ())
    bl = dict(b2[2]) if b2 is not None else bl
    off = 0 if role == 'upper' else -1
    cand = {Lsym: 1}
    if off:
        cand[''] = off
    # results: every `from = X.prev_civil_sec + 1; to = X.civil_sec`
    assigns = {}
    for x in walk(f):
        if x.get('kind') == 'CXXOperatorCallExpr' and callee(x) and callee(x)[1].get('name') == 'operator=':
            args = call_args(x)
            l = peel(args[0])
            if l.get('kind') == 'MemberExpr' and l.get('name') in ('from', 'to') and 'civil_transition' in (qtype(kids(l)[0]) + dtype(kids(l)[0])):
                assigns.setdefault(l.get('name'), []).append((x, args[1]))
    nfrom, nto = len(assigns.get('from', [])), len(assigns.get('to', []))
    entries = []
    from ..symval import lin_str
    # a file-local helper that reports one entry through its civil_transition parameter: each call reports its argument
    n_helper = 0
    for (uu_, hf) in ctx.scope(f)[1:]:
        hp = _report_helper(ctx, hf)
        if hp is None:
            continue
        from ..callgraph import fkey as _fkey
        for x in walk(f):
            if x.get('kind') == 'CallExpr' and callee(x) and callee(x)[0] == 'fn' and \
                    _fkey(hf) in (ctx.G.resolve_decl(callee(x)[1]) if callee(x)[1].get('_qn') else ()):
                if re.search(r'civil_transition$', (qtype(hf) or '').split('(')[0].replace('const ', '').strip()):
                    # the value built is what is stored through the civil_transition out-parameter
                    pa = x.get('_p')
                    while pa is not None and pa.get('kind') in ('ImplicitCastExpr', 'MaterializeTemporaryExpr', 'ExprWithCleanups',
                                                                'CXXBindTemporaryExpr', 'CXXConstructExpr'):
                        pa = pa.get('_p')
                    stored = pa is not None and pa.get('kind') == 'CXXOperatorCallExpr' and callee(pa) and \
                        callee(pa)[1].get('name') == 'operator=' and peel(call_args(pa)[0]).get('kind') == 'UnaryOperator' and \
                        peel(call_args(pa)[0]).get('opcode') == '*' and \
                        (peel(kids(peel(call_args(pa)[0]))[0]).get('referencedDecl') or {}).get('kind') == 'ParmVarDecl' and \
                        'civil_transition' in (qtype(call_args(pa)[0]) or '')
                    if not stored:
                        continue
                t_ = single(sv.value_ast(call_args(x)[hp]) or ())
                n_helper += 1
                if t_ is not None and t_[0] == 'ptr':
                    t_ = ('elem', t_[1], t_[2])
                entries.append((x, render(t_) if t_ is not None else '?'))
    ctx.check(nfrom == nto and nfrom + n_helper >= 1, 'C11-sib', '%s: from/to assigned in pairs' % short, f,
              'from and to are not assigned together', construct='pairs:%s' % short, detail='%d/%d' % (nfrom, nto))
    for (xf, vf), (xt, vt) in zip(assigns.get('from', []), assigns.get('to', [])):
        tf, tt = single(sv.value_ast(vf) or ()), single(sv.value_ast(vt) or ())
        kf, kt = render(tf), render(tt)
        m1 = re.match(r'^\((.+)\.prev_civil_sec \+ int:1\)$', kf)
        if m1 is None and tf is not None and tf[0] == 'int' and tf[2].get('') == 1:
            syms_ = [k_ for k_ in tf[2] if k_]
            if len(syms_) == 1 and tf[2][syms_[0]] == 1:
                m1 = re.match(r'^(.+)\.prev_civil_sec$', syms_[0])      # X.prev_civil_sec + 1 as a linear form
        m2 = re.match(r'^(.+)\.civil_sec$', kt)
        same = bool(m1 and m2 and m1.group(1) == m2.group(1))
        ctx.check(same, 'C11-sib', '%s: from = X.prev_civil_sec + 1, to = X.civil_sec for one entry X' % short, xf,
                  'the reported transition mixes two table entries or is not (previous civil second + 1, civil second): '
                  'from=%s to=%s' % (kf, kt), construct='fromto:%s' % short, detail='%s | %s' % (kf[:60], kt[:60]))
        if same:
            entries.append((xf, m1.group(1)))
    want_entry = '%s[%s]' % (base, lin_str(cand))
    last_entry = '%s[%s]' % (base, lin_str({size: 1, '': -1}))
    via_L = [e for (x, e) in entries if e == want_entry]
    others = [(x, e) for (x, e) in entries if e != want_entry]
    good = bool(via_L)
    for (x, e) in others:
        # the only other entry that may be reported is the last one, when the query lies beyond every instant
        nodes = g.nodes_for(x)
        facts_here = sv.facts(sv.conds_at(nodes[0])) if nodes else []
        nonempty = any(lin_cmp(fa, '!=', ladd_({size: 1}, bl, -1)) for fa in facts_here)
        if not (role == 'lower' and e == last_entry and nonempty):
            good = False
    ctx.check(good, 'C11-bound', ('PrevTransition reports the predecessor of the lower bound' if role == 'lower' else
                                  'NextTransition reports the upper bound itself'), f,
              'the entry reported is not %s (reported: %s)' % (
                  'the one just before the first entry at or after the query' if role == 'lower' else 'the first entry after the query',
                  ', '.join(e for (_, e) in entries)), construct=('pred:%s' if role == 'lower' else 'succ:%s') % short,
              detail=want_entry)
    # filter call: EquivTransitions(type in force before the candidate, type of the candidate)
    eqc = [x for x in walk(f) if x.get('kind') == 'CXXMemberCallExpr' and callee(x) and callee(x)[1] == 'EquivTransitions']
    ctx.check(len(eqc) == 1, 'C11-sib', '%s filters no-op transitions through EquivTransitions' % short, f,
              'no-op transitions are not filtered (or filtered more than once)', construct='filter:%s' % short)
    if len(eqc) == 1:
        a0, a1 = call_args(eqc[0])
        v0, v1 = sv.value_ast(a0), sv.value_ast(a1)
        cur_ok = single(v1 or ()) is not None and render(single(v1)) == '%s.type_index' % want_entry
        first_lin = ladd_(cand, bl, -1)          # candidate - begin
        pred_entry = '%s[%s].type_index' % (base, lin_str(ladd_(cand, {'': 1}, -1)))
        dflt = other = False
        got = []
        # a merged value (phi symbol) is looked up; plain alternatives are taken as they are
        alts = list(v0 or ())
        for (gd, t) in alts:
            fs = sv.facts(gd)
            got.append('%s when %s' % (render(t), fs))
            if render(t) == 'this.default_transition_type_' and any(lin_cmp(fa, '==', first_lin) for fa in fs):
                dflt = True
            elif render(t) == pred_entry and any(lin_cmp(fa, '!=', first_lin) for fa in fs):
                other = True
        ok = cur_ok and dflt and other and len(alts) == 2
        if not ok and cur_ok and len(alts) == 1 and role == 'upper':
            # the type in force before the candidate may be carried through the scan in a local of its own: it starts as
            # (default type when the candidate is the first real entry, else the type of the entry before it) and every
            # iteration hands it the candidate's own type before the candidate moves on by one
            t0 = alts[0][1]
            S2 = None
            if t0[0] in ('int', 'key'):
                names = [k_ for k_ in (t0[2] if t0[0] == 'int' else {t0[2]: 1}) if k_ in sv.loops]
                if len(names) == 1 and (t0[2] == {names[0]: 1} if t0[0] == 'int' else True):
                    S2 = names[0]
            if S2 is not None and sv.loops[S2]['node'] is sv.loops[Lsym]['node']:
                i2 = sv.loops[S2]
                d0 = o0 = False
                first0 = ladd_({'U': 1}, bl, -1)
                for (gd, t) in (i2['init'] or ()):
                    fs = sv.facts(gd)
                    if render(t) == 'this.default_transition_type_' and any(lin_cmp(fa, '==', first0) for fa in fs):
                        d0 = True
                    elif render(t) == '%s[%s].type_index' % (base, lin_str({'U': 1, '': -1})) and any(lin_cmp(fa, '!=', first0) for fa in fs):
                        o0 = True
                carried = True
                n_back = 0
                for (p, lab) in i2['node'].preds:
                    st_ = sv.after.get(p.id)
                    if st_ is None or sv.at.get(p.id) is None:
                        continue
                    tc = single(st_['vals'].get(sv.loops[Lsym]['var']) or ())
                    tv = single(st_['vals'].get(i2['var']) or ())
                    if tc is None or tc[2].get(Lsym) != 1 or tc[2] == {Lsym: 1}:
                        continue        # (not a back edge of the scan)
                    n_back += 1
                    if not (tc[2] == {Lsym: 1, '': 1} and tv is not None and render(tv) == '%s[%s].type_index' % (base, lin_str({Lsym: 1}))):
                        carried = False
                if d0 and o0 and len(i2['init'] or ()) == 2 and carried and n_back >= 1:
                    ok = True
                    got.append('carried through the scan in a local: starts as default / predecessor type, updated to the candidate\'s type each step')
        ctx.check(ok, 'C11-sib', '%s: filter compares the candidate entry with its predecessor (default type before the first)' % short,
                  eqc[0], 'the no-op filter does not compare the candidate entry (the %s) with the type in force just before it '
                  '(default_transition_type_ when the candidate is the first real entry): current=%s, previous=%s' % (
                      'search result' if role == 'upper' else 'entry before the search result',
                      render(single(v1 or ()) or None), '; '.join(got)[:300]),
                  construct='filterargs:%s' % short, detail='; '.join(got)[:200])
        # the scan moves on only past an equivalent entry
        okb = False
        info = sv.loops[Lsym]
        for (p, lab) in info['node'].preds:
            st_ = sv.after.get(p.id)
            if st_ is None or sv.at.get(p.id) is None:
                continue
            t_ = single(st_['vals'].get(info['var']) or ())
            if t_ is not None and t_[2].get(Lsym) == 1 and t_[2] != {Lsym: 1}:
                fs = sv.facts(st_['conds'])
                okb = any(fa[0] == '!=' and 'EquivTransitions(' in fa[1] + fa[2] and 'n:0' in (fa[1], fa[2]) for fa in fs)
        ctx.check(okb, 'C11-sib', '%s: scan stops at the first entry that differs from its predecessor' % short, eqc[0],
                  'the skip loop does not move on exactly when EquivTransitions is true', construct='filterbreak:%s' % short)
    # exhausted search returns false
    endk = None
    lim = ladd_({Lsym: 1}, {size: 1}, -1) if role == 'upper' else ladd_({Lsym: 1}, bl, -1)
    for rn in g.returns:
        fs = sv.facts(sv.conds_at(rn))
        # the cursor as it stands at this return (it may have been stepped inside the iteration that found the end)
        lims = [lim]
        st_here = sv.at.get(rn.id)
        cur_t = single((st_here or {}).get('vals', {}).get(sv.loops[Lsym]['var']) or ()) if st_here else None
        if cur_t is not None and cur_t[0] in ('ptr', 'int') and cur_t[2].get(Lsym) == 1:
            lims.append(ladd_(cur_t[2], {size: 1}, -1) if role == 'upper' else ladd_(cur_t[2], bl, -1))
        # (a pointer scan leaves with cursor == end; a counted scan with !(i < size), i.e. size <= i, resp. i <= first)
        if any(lin_cmp(fa, '==', l_) or lin_cmp(fa, '>=' if role == 'upper' else '<=', l_) for fa in fs for l_ in lims):
            rk = keys.key(kids(rn.ast)[0])
            endk = rk
            ctx.check(rk == 'n:0', 'C11-bound', '%s: exhausted search answers false' % short, rn.ast,
                      'when no transition lies strictly %s the query the function does not answer false' % (
                          'after' if role == 'upper' else 'before'), construct='exhausted:%s' % short)
    if endk is None:
        ctx.bad('C11-bound', '%s: exhausted search answers false' % short, f,
                'no return is guarded by the search having run off the %s of the table' % ('end' if role == 'upper' else 'start'),
                construct='exhausted:%s' % short)
    return out


def loops_cond(loop):
    ks = loop.get('inner') or []
    if loop.get('kind') == 'ForStmt' and len(ks) == 5:
        return ks[2] if ks[2].get('kind') else None
    if loop.get('kind') == 'WhileStmt' and len(ks) >= 2:
        return ks[-2]
    return None


def _report_helper(ctx, hf):
    """Index of the parameter X of a helper whose whole effect is  out->from = X.prev_civil_sec + 1; out->to = X.civil_sec
    (None when hf is not such a helper)."""
    from ..symval import SymVal, render, single
    from ..frontend import params_of
    assigns = {}
    for x in walk(hf):
        if x.get('kind') == 'CXXOperatorCallExpr' and callee(x) and callee(x)[1].get('name') == 'operator=':
            args = call_args(x)
            l = peel(args[0])
            if l.get('kind') == 'MemberExpr' and l.get('name') in ('from', 'to') and 'civil_transition' in (qtype(kids(l)[0]) + dtype(kids(l)[0])):
                assigns.setdefault(l.get('name'), []).append(args[1])
    if not assigns:
        # a helper that returns the civil_transition {from, to} it builds (members in declaration order)
        rets = [x for x in walk(hf) if x.get('kind') == 'ReturnStmt' and kids(x)]
        ils = [y for r in rets for y in walk(r) if y.get('kind') == 'InitListExpr' and
               re.search(r'civil_transition$', (dtype(y) or qtype(y) or '').replace('const ', '').strip())]
        if len(rets) == 1 and len(ils) == 1 and len(kids(ils[0])) == 2 and \
                re.search(r'civil_transition$', (qtype(hf) or '').split('(')[0].replace('const ', '').strip()):
            assigns = {'from': [kids(ils[0])[0]], 'to': [kids(ils[0])[1]]}
    if len(assigns.get('from', [])) != 1 or len(assigns.get('to', [])) != 1:
        return None
    sv = SymVal(ctx, hf, helpers=False)
    tf, tt = single(sv.value_ast(assigns['from'][0]) or ()), single(sv.value_ast(assigns['to'][0]) or ())
    if tf is None or tt is None or tf[0] != 'int' or tf[2].get('') != 1:
        return None
    syms = [k_ for k_ in tf[2] if k_]
    m1 = re.match(r'^(.+)\.prev_civil_sec$', syms[0]) if len(syms) == 1 and tf[2][syms[0]] == 1 else None
    m2 = re.match(r'^(.+)\.civil_sec$', render(tt))
    if not (m1 and m2 and m1.group(1) == m2.group(1)):
        return None
    X = m1.group(1)
    ps = params_of(hf)
    subst = ctx.facts(hf).keys.subst
    for i, p in enumerate(ps):
        own = '%s#%s' % (p.get('name'), p.get('id'))
        if X in (own, '*(%s)' % own, subst.get(p.get('id')), 'param:%s[0]' % own):
            return i
    return None


def ladd_(a, b, sign=1):
    from ..ptrnorm import ladd
    return ladd(a, b, sign)
