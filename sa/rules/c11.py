"""C11 — next/prev_transition enumerate the zone's real changes (agreement clauses)."""
import re
from ..frontend import kids, walk, qn, qtype, dtype, pos, ancestors, AnalysisBroken
from ..expr import callee, call_args, peel, Keys
from ..callgraph import fname
from ..ptrnorm import PtrNorm, build_env
from .c14 import _comparator_field

EXPLANATION = (
    'Sibling-agreement and field-coverage analysis. C11-equiv: the TransitionType fields compared '
    'by EquivTransitions are exactly the fields LocalTime reads to build what lookup() reports '
    '(offset, DST flag, abbreviation index): a change of an observable attribute is never filtered '
    'as a no-op, and nothing else is. C11-sib: NextTransition and PrevTransition apply the same '
    'sentinel guard, call the no-op filter with default_transition_type_ as predecessor of the '
    'first real entry and otherwise the previous entry\'s type, and every result site assigns '
    'from = X.prev_civil_sec + 1 and to = X.civil_sec for one and the same entry X. C11-bound: '
    '"strictly after" is std::upper_bound and "strictly before" is std::lower_bound followed by '
    'the predecessor, both ordered by unix_time over [begin,end) with the query instant as key, '
    'and an exhausted search returns false. Does not decide that the two chains enumerate the '
    'same set nor constancy of lookup() between reported transitions.')
LEVEL = ('Structural agreement proof between the two sibling scans and between the no-op filter and the fields '
         'lookup() exposes; complete for those clauses, silent on the value-level enumeration.')
LEVEL_NOTE = 'Trusts clang 14 AST and sa/; std::upper_bound/lower_bound semantics are assumed (standard library).'
TECHNIQUE = 'sibling cross-check + field-coverage comparison + symbolic pointer normal form over clang AST'


def _fields_read(u, f, record_suffix):
    """Names of members of objects of record type *record_suffix read in f."""
    out = {}
    for x in walk(f):
        if x.get('kind') == 'MemberExpr':
            ks = kids(x)
            if ks:
                bt = (dtype(ks[0]) or qtype(ks[0])).replace('const ', '').replace('&', '').replace('*', '').strip()
                if bt.endswith(record_suffix):
                    out.setdefault(x.get('name'), []).append(x)
    return out


def run(ctx):
    G = ctx.G
    # ---- C11-equiv
    u, fe = ctx.fn('cctz::TimeZoneInfo::EquivTransitions')
    ul, fl = G.defs[G.one('cctz::TimeZoneInfo::LocalTime', 'TransitionType')]
    ul2, fl2 = G.defs[G.one('cctz::TimeZoneInfo::LocalTime', 'Transition&')]
    cmp_fields = set()
    K = Keys(u)
    for x in walk(fe):
        if x.get('kind') == 'BinaryOperator' and x.get('opcode') in ('!=', '=='):
            a, b = [peel(c) for c in kids(x)]
            if a.get('kind') == 'MemberExpr' and b.get('kind') == 'MemberExpr' and a.get('name') == b.get('name'):
                ba, bb = K.key(kids(a)[0]), K.key(kids(b)[0])
                if ba != bb:
                    cmp_fields.add(a.get('name'))
    read1 = set(_fields_read(ul, fl, 'TransitionType'))
    read2 = set(_fields_read(ul2, fl2, 'TransitionType'))
    observable = read1 | read2
    if not observable or not cmp_fields:
        raise AnalysisBroken('C11-equiv: could not extract field sets (%s / %s)' % (observable, cmp_fields))
    for fld in sorted(observable | cmp_fields):
        ctx.check(fld in observable and fld in cmp_fields, 'C11-equiv', 'TransitionType::%s: compared by EquivTransitions <=> reported by lookup' % fld, fe,
                  ('lookup() reports TransitionType::%s but EquivTransitions does not compare it: a change of that '
                   'attribute alone is filtered out as a no-op and never reported' % fld) if fld not in cmp_fields else
                  ('EquivTransitions distinguishes transitions by TransitionType::%s, which lookup() does not report: '
                   'transitions that change nothing observable are reported' % fld),
                  construct='equiv:%s' % fld, detail='observable=%s compared=%s' % (sorted(observable), sorted(cmp_fields)))
    # each mismatch returns false, identical index returns true, fall-through returns true
    ctx.minimum('C11-equiv', 3)
    g = ctx.cfg(fe)
    F = ctx.facts(fe)
    for rn in g.returns:
        for (fs, val) in F.return_cases(rn):
            neq = [f_ for f_ in fs if f_[0] == '!=' and '.' in f_[1] and '.' in f_[2] and f_[1].split('.')[-1] == f_[2].split('.')[-1]]
            if neq:
                ctx.check(val is False, 'C11-equiv', 'differing %s => not equivalent' % neq[0][1].split('.')[-1], rn.ast,
                          'EquivTransitions returns true although a compared attribute differs', construct='equiv-ret:%s' % neq[0][1].split('.')[-1])
            else:
                ctx.check(val is True, 'C11-equiv', 'no differing attribute => equivalent', rn.ast,
                          'EquivTransitions returns false although no compared attribute differs: every transition is '
                          'reported, including no-ops', construct='equiv-ret:true')

    # ---- C11-sib / C11-bound
    res = {}
    for name, algo, role in (('cctz::TimeZoneInfo::NextTransition', 'upper_bound', 'upper'),
                             ('cctz::TimeZoneInfo::PrevTransition', 'lower_bound', 'lower')):
        u, f = ctx.fn(name)
        res[name] = _scan(ctx, u, f, name, algo, role)
    a, b = res['cctz::TimeZoneInfo::NextTransition'], res['cctz::TimeZoneInfo::PrevTransition']
    for key, what in (('sentinel', 'sentinel guard (skip a first entry at or before the big-bang instant)'),
                      ('empty', 'empty-table guard'), ('cmp_field', 'search key'), ('query', 'search query')):
        ctx.check(a[key] == b[key] and a[key] is not None, 'C11-sib', 'siblings agree on %s' % what, a['fn'],
                  'NextTransition and PrevTransition disagree on the %s (%s vs %s): the two scans do not enumerate '
                  'the same set' % (what, a[key], b[key]), construct='sib:%s' % key, detail=str(a[key])[:100])
    ctx.minimum('C11-sib', 10)
    ctx.minimum('C11-bound', 6)


def _scan(ctx, u, f, name, algo, role):
    F = ctx.facts(f)
    keys = F.keys
    g = ctx.cfg(f)
    short = name.split('::')[-1]
    out = dict(fn=f, sentinel=None, empty=None, cmp_field=None, query=None)
    # empty-table guard: first statement returns false when transitions_ is empty
    for rn in g.returns:
        fs = F.facts_at(rn)
        if any(fa[0] == '!=' and 'this.transitions_.empty()' in (fa[1], fa[2]) for fa in fs):
            if keys.key(kids(rn.ast)[0]) == 'n:0':
                out['empty'] = 'transitions_.empty() -> false'
    # sentinel guard:  if (begin->unix_time <= -(1<<59)) ++begin;
    env = build_env(f, keys, set())
    for x in walk(f):
        if x.get('kind') == 'UnaryOperator' and x.get('opcode') == '++':
            tgt = peel(kids(x)[0])
            if tgt.get('kind') == 'DeclRefExpr' and 'Transition' in qtype(tgt):
                fs = F.facts_at_ast(x) or frozenset()
                for (op, a1, b1) in fs:
                    if op == '<=' and a1.endswith('.unix_time') and b1.startswith('n:-'):
                        out['sentinel'] = 'first.unix_time <= %s -> skip' % b1
    ctx.check(out['sentinel'] is not None, 'C11-sib', '%s: sentinel first entry skipped' % short, f,
              'the big-bang sentinel entry is not excluded from the scan: it is reported as a transition',
              construct='sentinel:%s' % short, detail=str(out['sentinel']))
    ctx.check(out['empty'] is not None, 'C11-sib', '%s: empty table answers false' % short, f,
              'a zone without transitions does not answer false', construct='empty:%s' % short)
    # the search
    calls = [x for x in walk(f) if x.get('kind') == 'CallExpr' and callee(x) and callee(x)[0] == 'fn'
             and callee(x)[1].get('name') in ('upper_bound', 'lower_bound', 'equal_range', 'partition_point', 'find_if')]
    ok = len(calls) == 1 and callee(calls[0])[1].get('name') == algo
    ctx.check(ok, 'C11-bound', '%s searches with std::%s' % (short, algo), calls[0] if calls else f,
              '%s must use std::%s: with the other bound a query instant equal to a transition is answered with the '
              'wrong neighbour ("strictly %s" violated)' % (short, algo, 'after' if role == 'upper' else 'before'),
              construct='algo:%s' % short, detail=callee(calls[0])[1].get('name') if calls else 'none')
    if len(calls) != 1:
        return out
    ua = call_args(calls[0])
    if len(ua) == 4:
        out['cmp_field'] = _comparator_field(ctx, ua[3])
        td = u.by_id.get((peel(ua[2]).get('referencedDecl') or {}).get('id'))
        if td is not None and kids(td):
            il = peel(kids(td)[-1])
            if il.get('kind') == 'InitListExpr' and kids(il):
                out['query'] = re.sub(r'#0x[0-9a-f]+', '', keys.key(kids(il)[0]))
    ctx.check(out['cmp_field'] == 'unix_time', 'C11-bound', '%s orders the search by unix_time' % short, calls[0],
              'the search is not ordered by the transition instant', construct='cmpfield:%s' % short, detail=str(out['cmp_field']))
    # range [begin, end): begin..begin+size after the optional sentinel skip
    raw = Keys(u)                      # no alias substitution: name the locals themselves

    def init_key(arg):
        d = u.by_id.get((peel(arg).get('referencedDecl') or {}).get('id'))
        if d is not None and d.get('kind') == 'VarDecl' and kids(d):
            return raw.key(kids(d)[-1])
        return raw.key(arg)
    rb, re_ = raw.key(ua[0]), raw.key(ua[1])
    begin_ok = init_key(ua[0]) == '&(this.transitions_[n:0])'
    end_ok = init_key(ua[1]) == '(%s + this.transitions_.size())' % rb
    ctx.check(begin_ok and end_ok, 'C11-bound', '%s searches the whole table [first, first+size)' % short, calls[0],
              'the search range is not the whole transition table', construct='range:%s' % short, detail='%s .. %s' % (rb, re_))
    # results: every `trans->from = X.prev_civil_sec + 1; trans->to = X.civil_sec`
    ubvar = None
    for an in ancestors(calls[0]):
        if an.get('kind') == 'VarDecl':
            ubvar = an
            break
    assigns = {}
    for x in walk(f):
        if x.get('kind') == 'CXXOperatorCallExpr' and callee(x) and callee(x)[1].get('name') == 'operator=':
            args = call_args(x)
            l = peel(args[0])
            if l.get('kind') == 'MemberExpr' and l.get('name') in ('from', 'to') and 'civil_transition' in (qtype(kids(l)[0]) + dtype(kids(l)[0])):
                assigns.setdefault(l.get('name'), []).append((x, args[1]))
    nfrom, nto = len(assigns.get('from', [])), len(assigns.get('to', []))
    ctx.check(nfrom == nto and nfrom >= 1, 'C11-sib', '%s: from/to assigned in pairs' % short, f,
              'from and to are not assigned together', construct='pairs:%s' % short, detail='%d/%d' % (nfrom, nto))
    for (xf, vf), (xt, vt) in zip(assigns.get('from', []), assigns.get('to', [])):
        kf, kt = keys.key(vf), keys.key(vt)
        # from = (E.prev_civil_sec + 1) ; to = E'.civil_sec with E' the entry E denotes after E's side effect
        m1 = re.match(r'^\((.+)\.prev_civil_sec \+ n:1\)$', kf)
        m2 = re.match(r'^(.+)\.civil_sec$', kt)
        same = False
        if m1 and m2:
            e1, e2 = m1.group(1), m2.group(1)
            e1n = re.sub(r'^--', '', e1)       # (--tr)->x then tr->y : same entry
            same = e1n == e2
        ctx.check(same, 'C11-sib', '%s: from = X.prev_civil_sec + 1, to = X.civil_sec for one entry X' % short, xf,
                  'the reported transition mixes two table entries or is not (previous civil second + 1, civil second): '
                  'from=%s to=%s' % (kf, kt), construct='fromto:%s' % short, detail='%s | %s' % (kf[:60], kt[:60]))
    # filter call: EquivTransitions(prev_type, cur_type) with default type for the first real entry
    eqc = [x for x in walk(f) if x.get('kind') == 'CXXMemberCallExpr' and callee(x) and callee(x)[1] == 'EquivTransitions']
    ctx.check(len(eqc) == 1, 'C11-sib', '%s filters no-op transitions through EquivTransitions' % short, f,
              'no-op transitions are not filtered (or filtered more than once)', construct='filter:%s' % short)
    if len(eqc) == 1:
        a0, a1 = call_args(eqc[0])
        # name-independent normal form: every Transition* local is a symbolic pointer
        env = {}
        for x in walk(f):
            if x.get('kind') == 'VarDecl' and re.search(r'Transition\s*\*$', qtype(x)):
                env[x['id']] = ('ptr', 'T', {'p%d' % len(env): 1})
        pn = PtrNorm(Keys(u), env)

        def entry_of(e):
            """(offset linear form) of the table entry whose .type_index is read by e"""
            x = peel(e)
            d0 = u.by_id.get((x.get('referencedDecl') or {}).get('id')) if x.get('kind') == 'DeclRefExpr' else None
            if d0 is not None and d0.get('kind') == 'VarDecl' and kids(d0):
                x = peel(kids(d0)[-1])
            return x
        cur = entry_of(a1)
        pred = entry_of(a0)
        cur_n = pn.norm(kids(cur)[0]) if cur.get('kind') == 'MemberExpr' and cur.get('name') == 'type_index' else None
        ok = False
        got = 'unrecognised'
        if cur_n is not None and pred.get('kind') == 'ConditionalOperator':
            c, t_, e_ = kids(pred)
            c = peel(c)
            tk = Keys(u).key(t_)
            en = pn.norm(kids(peel(e_))[0]) if peel(e_).get('kind') == 'MemberExpr' and peel(e_).get('name') == 'type_index' else None
            first = None
            if c.get('kind') == 'BinaryOperator' and c.get('opcode') == '==':
                l, r = pn.norm(kids(c)[0]), pn.norm(kids(c)[1])
                first = (l, r)
            from ..ptrnorm import ladd
            want_cur_off = {} if role == 'upper' else {'': -1}
            res_sym = [k_ for k_ in cur_n[2] if k_][0] if [k_ for k_ in cur_n[2] if k_] else None
            if res_sym and en is not None and first and first[0] and first[1]:
                cur_off = {k_: v for k_, v in cur_n[2].items() if k_ == ''}
                pred_off = ladd(en[2], cur_n[2], -1)
                cand = first[0] if res_sym in first[0][2] else first[1]
                other = first[1] if cand is first[0] else first[0]
                ok = (cur_off == want_cur_off and pred_off == {'': -1} and tk == 'this.default_transition_type_' and
                      cand[0] == 'ptr' and ladd(cand[2], cur_n[2], -1) == {} and other[0] == 'ptr' and res_sym not in other[2]
                      and Keys(u).key(ua[0]) == Keys(u).key(kids(c)[0 if cand is first[1] else 1]))
                got = 'current=result%+d, predecessor=current%+d, first-entry test on current, default=%s' % (
                    cur_off.get('', 0), pred_off.get('', 99), tk)
        ctx.check(ok, 'C11-sib', '%s: filter compares the candidate entry with its predecessor (default type before the first)' % short,
                  eqc[0], 'the no-op filter does not compare the candidate entry (the %s) with the type in force just before it '
                  '(default_transition_type_ when the candidate is the first real entry): %s' % (
                      'search result' if role == 'upper' else 'entry before the search result', got),
                  construct='filterargs:%s' % short, detail=got)
        # loop exits on the first non-equivalent entry
        fs_break = [x for x in walk(f) if x.get('kind') == 'BreakStmt']
        okb = False
        for bnode in fs_break:
            fs = F.facts_at_ast(bnode) or frozenset()
            if any(fa[0] == '==' and 'EquivTransitions(' in fa[1] + fa[2] and 'n:0' in (fa[1], fa[2]) for fa in fs):
                okb = True
        ctx.check(okb, 'C11-sib', '%s: scan stops at the first entry that differs from its predecessor' % short, eqc[0],
                  'the skip loop does not stop exactly when EquivTransitions is false', construct='filterbreak:%s' % short)
    # exhausted search returns false
    endk = None
    for rn in g.returns:
        fs = F.facts_at(rn)
        rk = keys.key(kids(rn.ast)[0])
        lim = keys.key(ua[1]) if role == 'upper' else keys.key(ua[0])
        tv = '%s#%s' % (ubvar['name'], ubvar['id']) if ubvar is not None else '?'
        if any(fa[0] == '==' and set((fa[1], fa[2])) == set((tv, lim)) for fa in fs):
            endk = rk
            ctx.check(rk == 'n:0', 'C11-bound', '%s: exhausted search answers false' % short, rn.ast,
                      'when no transition lies strictly %s the query the function does not answer false' % (
                          'after' if role == 'upper' else 'before'), construct='exhausted:%s' % short)
    if endk is None:
        ctx.bad('C11-bound', '%s: exhausted search answers false' % short, f,
                'no return is guarded by the search having run off the %s of the table' % ('end' if role == 'upper' else 'start'),
                construct='exhausted:%s' % short)
    # selected entry relative to the search result
    if role == 'lower':
        # result is the predecessor of the lower bound
        good = any(keys.key(v).startswith('(--') for (x, v) in assigns.get('from', [])[-1:])
        ctx.check(good, 'C11-bound', 'PrevTransition reports the predecessor of the lower bound', f,
                  'the entry reported is not the one just before the first entry at or after the query',
                  construct='pred:%s' % short)
    else:
        good = all(not keys.key(v).startswith('(--') and '[n:' not in keys.key(v) for (x, v) in assigns.get('from', []))
        ctx.check(good, 'C11-bound', 'NextTransition reports the upper bound itself', f,
                  'the entry reported is not the first entry after the query', construct='succ:%s' % short)
    return out
