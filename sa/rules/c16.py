"""C16 — POSIX-TZ strings: exact acceptance, fully determined result."""
import re
from ..frontend import kids, walk, qn, qtype, dtype, pos, ancestors, AnalysisBroken, params_of
from ..expr import callee, call_args, peel, Keys, Folder
from ..callgraph import fname
from ..absint import AI, Observer, St, Int, Ptr, I, UNINIT, MAYBE_UNINIT, TOP, vjoin
from . import nul

EXPLANATION = (
    'Abstract interpretation of ParsePosixSpec and its helpers on the AST, with the result struct '
    'entered as "every field unassigned". States are partitioned by the nullness of the cursor and '
    'by the value of each date format discriminant, and calls are abstractly inlined, so each '
    'accepting exit state says exactly which fields were assigned and with which interval. C16-da: '
    'on every accepting exit std_offset is assigned; if the DST abbreviation was assigned then so '
    'are dst_offset, and for dst_start and dst_end the discriminant fmt, the union member it '
    'selects and time.offset; no field is read before being assigned. C16-range: the hull over all '
    'accepting exits of each field equals the documented range (month 1-12, week 1-5, weekday 0-6, '
    'Jn 1-365, n 0-365, offsets up to 24:59:59, rule times up to 167:59:59 in magnitude). '
    'C16-default: the one-hour DST default and the 02:00 rule-time default are assigned before the '
    'optional parse that may overwrite them. C16-sign: both zone offsets are parsed with the '
    'inverted sign, rule times with the natural sign. C16-end: every accepting return requires the '
    'cursor to be at the terminating NUL; a leading colon is rejected; an unquoted abbreviation has '
    'at least three characters and a quoted <...> one is subject to no minimum length (acceptance is '
    'exact in both directions). C16-nul: digit lookups exclude the terminating NUL. C16-ovf: the '
    'digit accumulation is guarded against int overflow before each multiply/add (or, written as one '
    'fused step value*10+d, bounded as a whole by dominating tests). C16-lex: the parser '
    'reaches no C-library conversion routine (strtol, sscanf, isspace, ...) whose acceptance rules '
    'differ from the grammar. Does not decide '
    'equivalence of the accepted language with the grammar beyond these clauses.')
LEVEL = ('Abstract-interpretation proof over all input strings that an accepted string determines every field the '
         'consumer reads, with the documented numeric bounds; the full language equivalence is not decided.')
LEVEL_NOTE = ('Trusts clang 14 AST and sa/absint.py; characters of the input are arbitrary bytes; strchr is modelled as '
              '"null or a pointer into its first argument".')
TECHNIQUE = 'partitioned interval abstract interpretation with definite-assignment tracking + must-hold branch facts'

EXPECT = {
    ('date', 'm', 'month'): (1, 12), ('date', 'm', 'week'): (1, 5), ('date', 'm', 'weekday'): (0, 6),
    ('date', 'j', 'day'): (1, 365), ('date', 'n', 'day'): (0, 365),
}
MAX_OFF = 24 * 3600 + 59 * 60 + 59          # offset = hh[:mm[:ss]], hh in 0..24
MAX_TIME = 167 * 3600 + 59 * 60 + 59        # time up to +-167 hours
MEMBER = {0: ('j', ('day',)), 1: ('n', ('day',)), 2: ('m', ('month', 'week', 'weekday'))}


class _Obs(Observer):
    def __init__(self):
        self.uninit = []

    def uninit_read(self, ai, e, loc, maybe, st):
        if loc and loc[0] == 'RES':
            self.uninit.append((e, loc, maybe))


def _part(loc, v):
    if loc and loc[0] == 'RES':
        if loc[-1] == 'fmt' and isinstance(v, Int) and v.const() is not None:
            return v.const()
        if loc[-1] == 'dst_abbr':
            return 'set' if v is not UNINIT else 'unset'
    return None


def analyse_parser(ctx):
    """Accepting exit states of ParsePosixSpec entered with an all-unassigned result."""
    if hasattr(ctx, '_posix'):
        return ctx._posix
    G = ctx.G
    k = G.one('cctz::ParsePosixSpec')
    u, f = G.defs[k]
    obs = _Obs()
    ai = AI(G, obs, partition=_part, max_parts=400, auto_unroll=True)
    ps = params_of(f)
    st = St()
    st.refs[ps[0]['id']] = ('SPEC',)
    st.mem[(ps[1]['id'],)] = Ptr('NN', ('RES',), I(0))
    rec = ai._record(u, 'cctz::PosixTimeZone')
    if rec is None:
        raise AnalysisBroken('C16: struct PosixTimeZone not found')
    ai._uninit_record(rec, ('RES',), st, u)
    st.mem[('RES', 'dst_abbr')] = UNINIT
    st.mem[('RES', 'std_abbr')] = UNINIT
    fields0 = sorted(kk for kk in st.mem if kk[0] == 'RES')
    if len(fields0) < 18:
        raise AnalysisBroken('C16: only %d fields found in PosixTimeZone' % len(fields0))
    res = ai.analyse(k, st)
    if not res:
        raise AnalysisBroken('C16: abstract interpretation of ParsePosixSpec produced no exit state')
    acc = [(v, s) for (v, s) in res if isinstance(v, Int) and v.hi >= 1]
    rej = [(v, s) for (v, s) in res if isinstance(v, Int) and v.lo <= 0]
    ctx._posix = dict(fn=f, unit=u, accept=acc, reject=rej, obs=obs, stats=dict(ai.stats), fields=fields0)
    return ctx._posix


def check_da(ctx, rule):
    R = analyse_parser(ctx)
    f = R['fn']
    if not R['accept']:
        raise AnalysisBroken('%s: no accepting exit state' % rule)
    seen = set()
    n_dst = 0
    for (v, s) in R['accept']:
        dst = s.mem.get(('RES', 'dst_abbr')) is not UNINIT
        case = 'with DST rule' if dst else 'standard time only'
        need = [('std_offset',), ('std_abbr',)]
        if dst:
            n_dst += 1
            need += [('dst_offset',)]
            for tr in ('dst_start', 'dst_end'):
                need += [(tr, 'date', 'fmt'), (tr, 'time', 'offset')]
                fm = s.mem.get(('RES', tr, 'date', 'fmt'))
                if isinstance(fm, Int) and fm.const() in MEMBER:
                    mem, flds = MEMBER[fm.const()]
                    need += [(tr, 'date', mem, x) for x in flds]
        for path in need:
            val = s.mem.get(('RES',) + path)
            ok = val is not UNINIT and val is not MAYBE_UNINIT and val is not None
            fm = ''
            if len(path) > 2:
                fmv = s.mem.get(('RES', path[0], 'date', 'fmt'))
                fm = ' (fmt=%s)' % (fmv.const() if isinstance(fmv, Int) else fmv)
            inst = '%s: %s assigned%s' % (case, '.'.join(path), fm)
            if ok and inst in seen:
                continue
            seen.add(inst)
            ctx.check(ok, rule, inst, f,
                      'ParsePosixSpec returns true on a path that never assigns %s%s: the result is not determined by '
                      'the string (the consumer reads an indeterminate value)' % ('.'.join(path), fm),
                      construct='da:%s' % '.'.join(path), detail=str(val))
    ctx.check(n_dst > 0, rule, 'an accepting exit with a DST rule exists', f,
              'no accepting path assigns the DST abbreviation', construct='da:nodst')
    for (e, loc, maybe) in R['obs'].uninit:
        ctx.bad(rule, 'read of %s before assignment' % '.'.join(str(x) for x in loc[1:]), e,
                'a field of the result is read on a path where it has not been assigned', construct='da-read:%s' % '.'.join(loc[1:]))
    return R


def _sign_param(G):
    """Index of the parameter of the POSIX offset scanner that multiplies the value it stores through its out-parameter
    (`*offset = sign * (...)`, the factor possibly cast), or None."""
    ks = [k for k in G.defs if k[0] == 'cctz::ParseOffset' and G.defs[k][0].name == 'time_zone_posix.cc']
    if len(ks) != 1:
        return None
    u, f = G.defs[ks[0]]
    ps = params_of(f)
    for x in walk(f):
        if x.get('kind') == 'BinaryOperator' and x.get('opcode') == '=' and peel(kids(x)[0]).get('kind') == 'UnaryOperator' and \
                peel(kids(x)[0]).get('opcode') == '*':
            r = peel(kids(x)[1])
            if r is None or r.get('kind') != 'BinaryOperator' or r.get('opcode') != '*':
                continue
            for fac in kids(r):
                y = peel(fac, explicit=True)
                if y is not None and y.get('kind') == 'DeclRefExpr' and (y.get('referencedDecl') or {}).get('kind') == 'ParmVarDecl':
                    idx = [i for i, p_ in enumerate(ps) if p_['id'] == y['referencedDecl'].get('id')]
                    if idx:
                        return idx[0]
    return None


def run(ctx):
    G = ctx.G
    # ---- C16-da
    R = check_da(ctx, 'C16-da')
    ctx.stats['absint'] = R['stats']
    ctx.stats['accepting_states'] = len(R['accept'])
    ctx.minimum('C16-da', 14)
    f, u = R['fn'], R['unit']

    # ---- C16-range
    hull = {}
    for (v, s) in R['accept']:
        for kk, val in s.mem.items():
            if kk[0] == 'RES' and isinstance(val, Int):
                hull[kk[1:]] = val if kk[1:] not in hull else hull[kk[1:]].join(val)
    want = {('std_offset',): (-MAX_OFF, MAX_OFF), ('dst_offset',): (-MAX_OFF, MAX_OFF + 3600)}
    for tr in ('dst_start', 'dst_end'):
        for suffix, rg in EXPECT.items():
            want[(tr,) + suffix] = rg
        want[(tr, 'time', 'offset')] = (-MAX_TIME, MAX_TIME)
        want[(tr, 'date', 'fmt')] = (0, 2)
    for path, rg in sorted(want.items()):
        got = hull.get(path)
        ok = isinstance(got, Int) and (got.lo, got.hi) == rg
        ctx.check(ok, 'C16-range', '%s ranges over [%d,%d] on acceptance' % ('.'.join(path), rg[0], rg[1]), f,
                  'accepted strings can set %s to %s; the documented range is [%d,%d]: the parser accepts a value '
                  'outside the grammar or rejects one inside it' % ('.'.join(path), got, rg[0], rg[1]),
                  construct='range:%s' % '.'.join(path), detail=str(got))
    ctx.minimum('C16-range', 16)

    # ---- C16-default / C16-sign (structure of the driver and of ParseDateTime)
    K = Keys(u)
    ctxf = ctx.facts(f)
    g = ctx.cfg(f)
    dom = g.dominators()
    # On every path to an accepting return the last writer of the field is either the
    # explicit parse or the default constant; when both occur the explicit parse is last.
    calls = [x for (u2_, f2_) in ctx.scope(f) if f2_ is not G.defs[G.one('cctz::ParseDateTime')][1]
             for x in walk(f2_) if x.get('kind') == 'CallExpr' and callee(x) and callee(x)[0] == 'fn' and
             callee(x)[1].get('name') == 'ParseOffset']
    kd = G.one('cctz::ParseDateTime')
    ud, fd = G.defs[kd]
    t_calls = [x for x in walk(fd) if x.get('kind') == 'CallExpr' and callee(x) and callee(x)[0] == 'fn' and
               callee(x)[1].get('name') == 'ParseOffset']
    for (fn_, un_, suffix, is_default, what, construct) in (
            (f, u, '.dst_offset', lambda k_: bool(re.match(r'^\(.*\.std_offset \+ n:3600\)$', k_)),
             'dst_offset is the explicit offset, else std_offset + 1h', 'default:dst_offset'),
            (fd, ud, '.time.offset', lambda k_: k_ == 'n:7200',
             'rule time is the explicit /time, else 02:00:00', 'default:time')):
        if fn_ is f:
            # the driver may have been split: analyse the part (file-local helper) that writes the field
            for (u2_, f2_) in ctx.scope(f):
                if any(x_.get('kind') == 'BinaryOperator' and x_.get('opcode') == '=' and Keys(u2_).key(kids(x_)[0]).endswith(suffix)
                       for x_ in walk(f2_)):
                    fn_, un_ = f2_, u2_
                    break
        Kx = Keys(un_)
        gx = ctx.cfg(fn_)
        acc_nodes = [rn for rn in gx.returns if Kx.key(kids(rn.ast)[0]) not in ('n:0', 'null')]
        Fx = ctx.facts(fn_)
        bad = None
        n_def = n_exp = 0
        for (now, ever, path) in Fx.path_facts(acc_nodes, nodes=True):
            rk_ = Fx.keys.key(kids(path[-1].ast)[0])
            if any(op == '==' and set((a_, b_)) == set((rk_, 'null')) for (op, a_, b_) in now):
                continue          # this path returns a null cursor: not an acceptance
            events = []
            for nd in path:
                if nd.kind not in ('stmt', 'cond') or nd.ast is None:
                    continue
                for x in walk(nd.ast):
                    if x.get('kind') == 'BinaryOperator' and x.get('opcode') == '=' and Kx.key(kids(x)[0]).endswith(suffix):
                        events.append(('default' if is_default(Kx.key(kids(x)[1])) else 'other', x))
                    elif x.get('kind') == 'CallExpr' and callee(x) and callee(x)[0] == 'fn' and \
                            callee(x)[1].get('name') == 'ParseOffset' and Kx.key(call_args(x)[-1]).endswith(suffix + ')'):
                        events.append(('explicit', x))
            if construct == 'default:dst_offset' and not any(Kx.key(call_args(c_)[-1]).endswith('dst_start)') for nd in path if nd.ast is not None
                                    for c_ in walk(nd.ast) if c_.get('kind') == 'CallExpr' and callee(c_) and callee(c_)[0] == 'fn'
                                    and callee(c_)[1].get('name') == 'ParseDateTime'):
                continue      # standard-time-only acceptance: the field is not part of the result
            kinds = [e_[0] for e_ in events]
            if not kinds or kinds[-1] == 'other' or ('explicit' in kinds and kinds[-1] != 'explicit'):
                bad = (kinds, events[-1][1] if events else fn_)
            n_def += kinds[-1:] == ['default']
            n_exp += kinds[-1:] == ['explicit']
        ctx.check(bad is None and n_def > 0 and n_exp > 0, 'C16-default', what, bad[1] if bad else fn_,
                  'on an accepting path the field is written %s: the documented default is missing, wrong, or overwrites an '
                  'explicitly given value' % (bad[0] if bad else '(no default / no explicit path)'), construct=construct,
                  detail='%d paths end with the default, %d with the explicit value' % (n_def, n_exp))
    fo = Folder(u)
    sign_idx = _sign_param(G)
    for c in calls + t_calls:
        args = call_args(c)
        sign = fo.fold(args[sign_idx]) if sign_idx is not None and sign_idx < len(args) else None
        if sign is None and sign_idx is not None and sign_idx < len(args):
            # an enumerator of a scoped enumeration (cast to int where it is applied)
            a_ = peel(args[sign_idx])
            if a_ is not None and a_.get('kind') == 'DeclRefExpr' and (a_.get('referencedDecl') or {}).get('kind') == 'EnumConstantDecl':
                sign = fo.enum_value(a_['referencedDecl'].get('id'))
        dest = Keys(c['_u']).key(args[-1])
        is_zone = dest.endswith('_offset)')
        want_sign = -1 if is_zone else 1
        ctx.check(sign == want_sign, 'C16-sign', 'ParseOffset into %s uses sign %+d' % (dest.split('.')[-1].rstrip(')'), want_sign), c,
                  'the %s is parsed with sign %s; POSIX zone offsets are inverted (west positive) and rule times are not'
                  % ('zone offset' if is_zone else 'rule time', sign), construct='sign:%s' % dest.split('#')[-1][12:],
                  detail='sign argument %s' % sign)
    ctx.minimum('C16-default', 2)
    ctx.minimum('C16-sign', 3)

    # ---- C16-end
    F = ctx.facts(f)
    n_acc = 0
    for rn in g.returns:
        e = kids(rn.ast)[0]
        cases = [(fs, val) for (fs, val) in F.return_cases(rn) if val is not False and val != 'n:0']
        if not cases:
            continue
        n_acc += 1
        # every way this return can yield true has the cursor at the NUL (tests written here, or implied by a
        # file-local helper the decision is delegated to)
        at_end = all(val is True and any(op == '==' and 'n:0' in (a, b) and re.match(r'^\*\(\w+#0x[0-9a-f]+\)$', a if b == 'n:0' else b)
                                         for (op, a, b) in fs) for (fs, val) in cases)
        conj = _conjuncts(e)
        ctx.check(at_end, 'C16-end', 'accepting return requires the cursor at the terminating NUL', rn.ast,
                  'ParsePosixSpec can return true with input left over: trailing bytes after a complete rule are accepted',
                  construct='end:%s' % ('final' if len(conj) > 1 or peel(e).get('kind') == 'CallExpr' else 'stdonly'))
    ctx.check(n_acc >= 2, 'C16-end', 'two accepting returns (standard-only and with rule)', f, 'found %d' % n_acc, construct='end:count')
    colon = [rn for rn in g.returns if F.keys.key(kids(rn.ast)[0]) == 'n:0' and
             any(op == '==' and 'n:58' in (a, b) for (op, a, b) in F.facts_at(rn))]
    ctx.check(len(colon) >= 1, 'C16-end', 'a leading ":" is rejected', f,
              'no rejecting return is taken when the string starts with ":"', construct='end:colon')
    ka = G.one('cctz::ParseAbbr')
    ua, fa = G.defs[ka]
    Fa = ctx.facts(fa)
    ga = ctx.cfg(fa)
    def _is_len(b_):
        rb = Fa.resolve_key(b_)
        if ' - ' in rb or rb.startswith('strcspn(') or rb.startswith('strspn(') or '.size()' in rb or '.length()' in rb:
            return True
        # an index local that counts the characters scanned: stepped by ++ only, and used to subscript the cursor
        m_ = re.match(r'^(\w+)#(0x[0-9a-f]+)$', rb)
        d_ = ua.by_id.get(m_.group(2)) if m_ else None
        if d_ is not None and d_.get('kind') == 'VarDecl':
            ws_ = [y for y in walk(fa) if y.get('kind') in ('UnaryOperator', 'BinaryOperator', 'CompoundAssignOperator') and
                   any((peel(l_).get('referencedDecl') or {}).get('id') == d_['id'] for l_ in _written(y))]
            subs_ = [y for y in walk(fa) if y.get('kind') == 'ArraySubscriptExpr' and
                     (peel(kids(y)[1]).get('referencedDecl') or {}).get('id') == d_['id']]
            return bool(ws_) and all(y.get('kind') == 'UnaryOperator' and y.get('opcode') == '++' for y in ws_) and bool(subs_)
        return False
    from ..expr import written_lvalues as _written
    seen_kind = {'plain': [], 'quoted': []}
    for rn in ga.returns:
        rk = Fa.keys.key(kids(rn.ast)[0])
        if rk == 'null':
            continue
        for (now, ever) in Fa.path_facts([rn], history=True):
            quoted = any(op == '==' and 'n:60' in (a, b) for (op, a, b) in ever)
            mins = [int(a[2:]) + (1 if op == '<' else 0) for (op, a, b) in now
                    if op in ('<=', '<') and a.startswith('n:') and re.match(r'^n:-?\d+$', a) and _is_len(b)]
            seen_kind['quoted' if quoted else 'plain'].append((rn, max(mins) if mins else 0))
    pl, qu = seen_kind['plain'], seen_kind['quoted']
    short = [rn for (rn, m_) in pl if m_ < 3]
    ctx.check(bool(pl) and not short, 'C16-end', 'an unquoted abbreviation has at least three characters', short[0].ast if short else fa,
              'ParseAbbr succeeds with an unquoted abbreviation shorter than three characters' if pl else
              'no accepting path of ParseAbbr for the unquoted form was found', construct='abbr:plain',
              detail='%d accepting path(s)' % len(pl))
    limited = [(rn, m_) for (rn, m_) in qu if m_ > 0]
    ctx.check(bool(qu) and not limited, 'C16-end', 'a quoted <...> abbreviation may have any length', limited[0][0].ast if limited else fa,
              ('ParseAbbr accepts a quoted abbreviation only when it has at least %d characters: the grammar puts no minimum on the '
               '<...> form, so valid strings such as <+1>-1 are refused' % (limited[0][1] if limited else 0)) if qu else
              'no accepting path of ParseAbbr for the <...> form was found', construct='abbr:quoted',
              detail='%d accepting path(s)' % len(qu))
    ctx.minimum('C16-end', 6)

    # ---- C16-nul
    n = 0
    sites_ = nul.strchr_sites(ctx, lambda k2, u2, f2: u2.name == 'time_zone_posix.cc')
    for (k2, u2, f2, call) in sites_:
        if nul.check_site(ctx, 'C16-nul', k2, u2, f2, call):
            n += 1
    if not sites_:
        # digits classified without a set lookup (range tests, a switch): there is no search that could match the set's
        # own terminator; that such tests exclude the NUL of the input is C16-cursor's obligation
        ctx.ok('C16-nul', 'no strchr/memchr lookup in time_zone_posix.cc', ctx.fn('cctz::ParsePosixSpec')[1],
               'nothing to exclude: no character-set lookup is made')
    ctx.minimum('C16-nul', 1)

    # ---- C16-lex: the scanner sees every byte itself
    reach = G.reachable([G.one('cctz::ParsePosixSpec')])
    ALLOW = {'strchr', 'strcspn', 'strspn', 'strpbrk', 'memchr', 'strlen',      # byte-set scans: no locale, no sign, no radix
             'max', 'min', 'std-method:assign', 'std-method:c_str', 'std-method:data', 'std-method:size',
             'std-method:length', 'std-method:empty', 'std-method:push_back', 'std-method:append', 'std-method:clear'}
    n_ext = 0
    for kk in sorted(reach):
        for (kind, t, site) in G.edges.get(kk, ()):
            if kind != 'extern':
                continue
            n_ext += 1
            base = t if t.startswith('std-method:') else t.split('::')[-1]
            ctx.check(base in ALLOW or t.startswith('ctor:'), 'C16-lex', '%s uses only its own character tests (%s)' % (fname(kk), base), site,
                      'the parser hands input to %s, whose acceptance rules (leading white space, signs, locale, radix) '
                      'are not those of the POSIX-TZ grammar' % t, construct='lex:%s:%s' % (fname(kk), base))
    ctx.minimum('C16-lex', 4)

    # ---- C16-cursor: the scanners never read or step beyond the terminating NUL, and use no search result untested
    from . import cursor as _cursor
    n_cur = 0
    for k2, (u2, f2) in sorted(G.defs.items()):
        if u2.name == 'time_zone_posix.cc' and k2 in G.reachable([G.one('cctz::ParsePosixSpec')]) | {G.one('cctz::ParsePosixSpec')}:
            n_cur += _cursor.check_function(ctx, 'C16-cursor', k2)
    ctx.minimum('C16-cursor', 10)

    # ---- C16-ovf: guarded accumulate in ParseInt
    n_acc_ = check_guarded_accumulate(ctx, 'C16-ovf', G.one('cctz::ParseInt', 'int*'))
    ctx.minimum('C16-ovf', 1)


def _conjuncts(e):
    x = peel(e)
    if x.get('kind') == 'BinaryOperator' and x.get('opcode') == '&&':
        return _conjuncts(kids(x)[0]) + _conjuncts(kids(x)[1])
    return [x]


def _is_nul_test(F, c):
    for (op, a, b) in F.cond_facts(c, True):
        if op == '==' and 'n:0' in (a, b) and (a if b == 'n:0' else b).startswith('*('):
            return True
    return False


def _fused_accumulate(keys, tgt, pr):
    """(c, d-expression) when pr is  tgt * c + d  /  d + tgt * c  /  c * tgt + d."""
    if pr is None or pr.get('kind') != 'BinaryOperator' or pr.get('opcode') != '+':
        return None
    tk = keys.key(tgt)
    for (m_, d_) in ((kids(pr)[0], kids(pr)[1]), (kids(pr)[1], kids(pr)[0])):
        pm = peel(m_)
        if pm is not None and pm.get('kind') == 'BinaryOperator' and pm.get('opcode') == '*':
            ka, kb = keys.key(kids(pm)[0]), keys.key(kids(pm)[1])
            if ka == tk and re.match(r'^n:\d+$', kb):
                return int(kb[2:]), d_
            if kb == tk and re.match(r'^n:\d+$', ka):
                return int(ka[2:]), d_
    return None


def check_guarded_accumulate(ctx, rule, fkey):
    """value *= 10 under value <= MAX/10 ; value += d under value <= MAX - d  (and the
    mirrored forms for negative accumulation)."""
    u, f = ctx.G.defs[fkey]
    F = ctx.facts(f)
    keys = F.keys
    from ..expr import type_range, int_type
    n = 0
    for x in walk(f):
        op_ = None
        if x.get('kind') == 'CompoundAssignOperator' and x.get('opcode') in ('*=', '+=', '-='):
            tgt, rhs = kids(x)
            op_ = x.get('opcode')
        elif x.get('kind') == 'BinaryOperator' and x.get('opcode') == '=':
            # the spelled-out form  v = v * c / v = v + d / v = v - d
            tgt, r_ = kids(x)
            pr = peel(r_)
            if pr is not None and pr.get('kind') == 'BinaryOperator' and pr.get('opcode') in ('*', '+', '-') and \
                    keys.key(kids(pr)[0]) == keys.key(tgt) and peel(tgt).get('kind') == 'DeclRefExpr':
                rhs = kids(pr)[1]
                op_ = pr.get('opcode') + '='
            elif pr is not None and pr.get('kind') == 'BinaryOperator' and pr.get('opcode') in ('*', '+') and \
                    keys.key(kids(pr)[1]) == keys.key(tgt) and peel(tgt).get('kind') == 'DeclRefExpr':
                rhs = kids(pr)[0]
                op_ = pr.get('opcode') + '='
            else:
                # the fused form  v = v * c + d  (either operand order): one step that must fit as a whole
                fused = _fused_accumulate(keys, tgt, pr)
                if fused is not None and peel(tgt).get('kind') == 'DeclRefExpr':
                    c_, dexpr = fused
                    tk = keys.key(tgt)
                    it = int_type(dtype(tgt))
                    if it and it[0] >= 32:
                        lo, hi = type_range(it)
                        fs = F.facts_at_ast(x) or frozenset()
                        dk = keys.key(dexpr)
                        vb = [int(b[2:]) - (1 if o == '<' else 0) for (o, a, b) in fs if o in ('<=', '<') and a == tk and re.match(r'^n:-?\d+$', b)]
                        db = [int(b[2:]) - (1 if o == '<' else 0) for (o, a, b) in fs if o in ('<=', '<') and a == dk and re.match(r'^n:-?\d+$', b)]
                        ok = bool(vb) and bool(db) and min(vb) * c_ + min(db) <= hi
                        ok = ok or any(o == '<=' and a == tk and b in ('((n:%d - %s) / n:%d)' % (hi, dk, c_),) for (o, a, b) in fs)
                        n += 1
                        ctx.check(ok, rule, '%s = %s * %d + %s is guarded against overflow in %s' % (tk.split('#')[0], tk.split('#')[0], c_, dk.split('#')[0], fname(fkey)), x,
                                  'the accumulation step can overflow: no dominating tests bound %s and %s so that %s * %d + %s stays '
                                  'representable (a range check after the loop comes too late: the overflow is undefined behaviour, and a '
                                  'wrapped value can pass it)' % (tk.split('#')[0], dk.split('#')[0], tk.split('#')[0], c_, dk.split('#')[0]),
                                  construct='ovf:%s:fused' % fname(fkey), detail='guard present on every path')
        if op_ is None:
            continue
        tk, rk = keys.key(tgt), keys.key(rhs)
        it = int_type(dtype(tgt))
        if not it or it[0] < 32 or peel(tgt).get('kind') != 'DeclRefExpr':
            continue
        d = u.by_id.get((peel(tgt).get('referencedDecl') or {}).get('id'))
        if d is None or d.get('kind') != 'VarDecl' or 'width' in (d.get('name') or '') or 'exp' == d.get('name'):
            continue
        lo, hi = type_range(it)
        fs = F.facts_at_ast(x) or frozenset()
        op = op_
        ok = False
        if op == '*=' and rk.startswith('n:'):
            c = int(rk[2:])
            ok = any((o == '<=' and a == tk and b == 'n:%d' % (hi // c)) or (o == '<' and a == tk and b == 'n:%d' % (hi // c + 1)) or
                     (o == '<=' and b == tk and a.startswith('n:') and int(a[2:]) == -((-lo) // c)) for (o, a, b) in fs)
            # negative accumulation: kmin/10 <= value
            ok = ok or any(o == '<=' and b == tk and a in ('n:%d' % int(lo / c), 'n:%d' % -((-lo) // c)) for (o, a, b) in fs)
        elif op == '+=':
            ok = any(o == '<=' and a == tk and b == '(n:%d - %s)' % (hi, rk) for (o, a, b) in fs)
        elif op == '-=':
            ok = any(o == '<=' and b == tk and a == '(n:%d + %s)' % (lo, rk) for (o, a, b) in fs)
        n += 1
        ctx.check(ok, rule, '%s %s %s is guarded against overflow in %s' % (tk.split('#')[0], op, rk.split('#')[0], fname(fkey)), x,
                  'the accumulation step can overflow: no dominating test bounds %s so that %s %s stays representable'
                  % (tk.split('#')[0], op, rk.split('#')[0]), construct='ovf:%s:%s' % (fname(fkey), op),
                  detail='guard present on every path')
    return n
