"""C18 — sub-second time points floor toward the past (shape clauses, on a witness instantiation)."""
import re
from ..frontend import kids, walk, qn, qtype, dtype, pos, ancestors, AnalysisBroken, params_of, Program, CONTROLS
from ..expr import callee, call_args, peel, Keys, int_type, type_range
from ..callgraph import CallGraph, fname
from ..facts import canon
from .. import core
from .loader import _reach_from

EXPLANATION = (
    'The templates of include/cctz/time_zone.h are instantiated by a witness unit (type-checked only) for durations '
    'finer than, equal to and coarser than a second, and the clauses of C18 that are visible in the shape of the '
    'instantiated code are decided. C18-floor: split_seconds<D> for D finer than a second truncates with '
    'time_point_cast<seconds> and then, exactly on the paths where the remainder is negative, moves the second back by '
    'one and the remainder forward by one (or uses std::chrono::floor); join_seconds for a period of Num > 1 seconds '
    'divides and then subtracts one exactly on the paths where the count is negative and not a multiple of Num. '
    'C18-narrow: every join_seconds that narrows the count to Rep does so only under min(Rep) <= count <= max(Rep), the '
    'failing edges returning false. C18-route: the templated lookup / convert / format obtain their whole second from '
    'split_seconds, and parse hands its result to join_seconds and returns its verdict. C18-trunc: the value format() '
    'hands to the digit formatter for %E#S / %E#f / %E*S / %E*f is the femtosecond count scaled by a power of ten only '
    '(no additive rounding term). Does not decide the arithmetic inside std::chrono nor representability for durations '
    'finer than a second (documented as unchecked upstream, TODO #199).')
LEVEL = ('Dominance proof, per instantiation, that truncation is turned into flooring on exactly the negative-remainder '
         'paths and that narrowing is range-guarded: the part of C18 that is in the shape of the code.')
LEVEL_NOTE = ('Trusts clang 14 AST and sa/, and the contracts of std::chrono casts; the witness covers ten duration types, '
              'not all; sub-second representability (finer than a second) is outside the property.')
TECHNIQUE = 'template instantiation witness + must-hold branch facts (dominance) + path cuts on the CFG'


def _ratio(t):
    """(num, den) of the period of a duration type spelled in a (normalised) signature."""
    m = re.search(r'ratio<(\d+)L?(?:,(\d+)L?)?>', t)
    if m:
        return int(m.group(1)), int(m.group(2) or 1)
    if re.search(r'duration<[^,<>]+>', t) or 'seconds' in t:
        return 1, 1
    return None


def run(ctx):
    wctx, GW = witness(ctx)
    splits = [k for k in GW.defs if k[0] == 'cctz::detail::split_seconds']
    joins = [k for k in GW.defs if k[0] == 'cctz::detail::join_seconds']
    if len(splits) < 5 or len(joins) < 5:
        raise AnalysisBroken('C18: witness instantiations of split_seconds/join_seconds not found (%d/%d)' % (len(splits), len(joins)))

    # ---- C18-floor: split_seconds
    n_fine = 0
    for k in sorted(splits):
        r = _ratio(k[1][0])
        if r is None:
            raise AnalysisBroken('C18-floor: period of %s not recognised' % (k[1][0],))
        if r[1] == 1:
            continue                            # whole seconds or coarser: the conversion to seconds is exact
        n_fine += 1
        u, f = GW.defs[k]
        F = wctx.facts(f)
        g = wctx.cfg(f)
        label = 'split_seconds<%s>' % re.sub(r'^consttime_point<|>&$', '', k[1][0])[:50]
        floors = [x for x in walk(f) if x.get('kind') == 'CallExpr' and callee(x) and callee(x)[0] == 'fn' and
                  callee(x)[1].get('name') == 'floor']
        truncs = [x for x in walk(f) if x.get('kind') == 'CallExpr' and callee(x) and callee(x)[0] == 'fn' and
                  callee(x)[1].get('name') == 'time_point_cast']
        if floors and not truncs:
            ctx.ok('C18-floor', '%s floors with std::chrono::floor' % label, f, 'floor')
            continue
        # adjustments:  X -= seconds(1)  /  Y += seconds(1)
        adj = []
        for x in walk(f):
            if x.get('kind') == 'CXXOperatorCallExpr' and callee(x) and callee(x)[0] == 'fn' and \
                    callee(x)[1].get('name') in ('operator-=', 'operator+='):
                args = call_args(x)
                if len(args) == 2 and F.keys.key(args[1]) == 'n:1':
                    adj.append((callee(x)[1].get('name'), x))
        minus = [x for (nm, x) in adj if nm == 'operator-=']
        plus = [x for (nm, x) in adj if nm == 'operator+=']
        ok = len(truncs) >= 1 and len(minus) == 1 and len(plus) == 1
        why = 'expected one truncating cast, one "-= 1s" and one "+= 1s" (found %d/%d/%d)' % (len(truncs), len(minus), len(plus))
        if ok:
            remk = F.keys.key(call_args(plus[0])[0])           # the remainder that is moved forward
            neg = ('<', '%s.count()' % remk, 'n:0')
            fm = F.facts_at_ast(minus[0]) or frozenset()
            fp = F.facts_at_ast(plus[0]) or frozenset()
            if neg not in fm or neg not in fp:
                ok, why = False, 'the borrow is not made exactly under %s.count() < 0' % remk.split('#')[0]
            else:
                # every path on which the remainder is negative passes both adjustments
                adjn = [n for x in (minus[0], plus[0]) for n in g.nodes_for(x)]
                for n in g.live:
                    if n.kind != 'cond':
                        continue
                    for lab in ('T', 'F'):
                        if neg in set(F.cond_facts(n.ast, lab == 'T')):
                            starts = [m for (m, l) in n.succs if l == lab]
                            for a_ in (minus[0], plus[0]):
                                if _reach_from(g, starts, [g.exit] + list(g.returns), cut=g.nodes_for(a_)):
                                    ok, why = False, 'a path with a negative remainder leaves without the borrow'
                        if canon('<=', 'n:0', '%s.count()' % remk) in set(F.cond_facts(n.ast, lab == 'T')):
                            starts = [m for (m, l) in n.succs if l == lab]
                            if _reach_from(g, starts, adjn):
                                ok, why = False, 'the borrow is also made for a non-negative remainder'
                # the remainder is  tp - (truncated second)
        ctx.check(ok, 'C18-floor', '%s: truncation corrected to floor exactly for a negative remainder' % label, f,
                  'split_seconds does not turn the truncating conversion to seconds into a floor (%s): instants before the epoch '
                  'with a fractional part are attributed to the following second' % why, construct='floor:split:%s' % k[1][0][:60],
                  detail='sec -= 1s and sub += 1s iff sub.count() < 0')
    if n_fine < 3:
        raise AnalysisBroken('C18-floor: fewer than 3 sub-second instantiations of split_seconds in the witness')

    # ---- C18-floor / C18-narrow: join_seconds
    n_coarse = n_narrow = 0
    for k in sorted(joins):
        t = k[1][-1]
        r = _ratio(t)
        if r is None:
            raise AnalysisBroken('C18: period of %s not recognised' % t)
        u, f = GW.defs[k]
        F = wctx.facts(f)
        g = wctx.cfg(f)
        label = 'join_seconds -> %s' % re.sub(r'^time_point<|>\*$', '', t)[:50]
        num, den = r
        if num > 1 and den == 1:
            n_coarse += 1
            divs = [x for x in walk(f) if x.get('kind') in ('CompoundAssignOperator', 'BinaryOperator') and x.get('opcode') in ('/=', '/')
                    and F.keys.key(kids(x)[1]) == 'n:%d' % num]
            decs = [x for x in walk(f) if (x.get('kind') == 'CompoundAssignOperator' and x.get('opcode') == '-=' and F.keys.key(kids(x)[1]) == 'n:1')
                    or (x.get('kind') == 'UnaryOperator' and x.get('opcode') == '--')]
            ok = bool(divs) and len(decs) == 1
            why = 'expected a division by %d and one decrement (found %d/%d)' % (num, len(divs), len(decs))
            if ok:
                ck = F.keys.key(kids(decs[0])[0])
                modk = '(%s %% n:%d)' % (ck, num)
                ok, why = _floor_guard(wctx, f, F, g, decs[0], divs, ck, modk, num)
            ctx.check(ok, 'C18-floor', '%s: division corrected to floor exactly for a negative non-multiple' % label, f,
                      'join_seconds for a period of %d s does not floor (%s): instants before the epoch are attributed to the '
                      'following period' % (num, why), construct='floor:join:%s' % t[:60], detail='count / %d, -1 iff count < 0 and count %% %d != 0' % (num, num))
        # narrowing casts of the count (in join_seconds itself, or in a detail:: helper template it hands the count to)
        cast_sites = [(f, F, x) for x in walk(f) if x.get('kind') == 'CXXStaticCastExpr']
        for hk in sorted(GW.reachable([k])):
            if hk != k and hk in GW.defs and hk[0].startswith('cctz::detail::') and hk[0] not in ('cctz::detail::join_seconds',):
                hu_, hf_ = GW.defs[hk]
                HF_ = wctx.facts(hf_)
                cast_sites += [(hf_, HF_, x) for x in walk(hf_) if x.get('kind') == 'CXXStaticCastExpr']
        for (f_, F_, x) in cast_sites:
            if int_type(dtype(x) or qtype(x)):
                F = F_
                it = int_type(dtype(x) or qtype(x))
                src = int_type(dtype(peel(kids(x)[-1])) or '')
                if src and src[0] <= it[0] and src[1] == it[1]:
                    continue            # not narrowing
                lo, hi = type_range(it)
                ck = F.keys.key(kids(x)[-1])
                fs = F.facts_at_ast(x) or frozenset()
                n_narrow += 1
                up = any((op == '<=' and a == ck and b.startswith('n:') and int(b[2:]) <= hi) or
                         (op == '<' and a == ck and b.startswith('n:') and int(b[2:]) <= hi + 1) for (op, a, b) in fs)
                dn_ = any((op == '<=' and b == ck and a.startswith('n:') and int(a[2:]) >= lo) or
                          (op == '<' and b == ck and a.startswith('n:') and int(a[2:]) >= lo - 1) for (op, a, b) in fs)
                wide = src is not None and type_range(src)[0] >= lo and type_range(src)[1] <= hi
                ctx.check((up and dn_) or wide, 'C18-narrow', '%s: static_cast<%s>(count) only for counts that fit' % (label, dtype(x) or qtype(x)), x,
                          'the second count is narrowed to %s without min <= count <= max having been established (upper %s, lower %s): '
                          'a count that does not fit wraps instead of the conversion reporting failure' % (dtype(x) or qtype(x), up, dn_),
                          construct='narrow:join:%s' % t[:60], detail='[%d, %d]' % (lo, hi))
                # the failing edges answer false
        F = wctx.facts(f)
        for rn in g.returns:
            fs = F.facts_at(rn)
            outside = [fa for fa in fs if (fa[0] == '<' and (fa[1].startswith('n:') or fa[2].startswith('n:')) and 'count' in fa[1] + fa[2])]
            if outside and F.keys.key(kids(rn.ast)[0]) != 'n:0':
                ctx.bad('C18-narrow', '%s: out-of-range count answers false' % label, rn.ast,
                        'a count outside the target representation does not make join_seconds return false', construct='narrow:ret:%s' % t[:60])
    ctx.check(n_coarse >= 3 and n_narrow >= 3, 'C18-narrow', 'witness covers coarser periods and narrower representations', None,
              'found %d coarser-than-second and %d narrowing instantiations' % (n_coarse, n_narrow), construct='narrow:count')
    ctx.minimum('C18-floor', 6)
    ctx.minimum('C18-narrow', 4)

    check_route(ctx, wctx, GW, 'C18-route')
    ctx.minimum('C18-route', 12)

    # ---- C18-trunc (library unit: format())
    from ..symval import SymVal, render, lin_str
    from ..ptrnorm import ladd as ladd_
    from ..table import table_of
    kf = [k for k in ctx.G.defs if k[0] == 'cctz::detail::format']
    if len(kf) != 1:
        raise AnalysisBroken('C18-trunc: detail::format not found')
    u, f = ctx.G.defs[kf[0]]
    fsp = [p for p in params_of(f) if 'femtoseconds' in (qtype(p) + (dtype(p) or ''))]
    if len(fsp) != 1:
        raise AnalysisBroken('C18-trunc: femtoseconds parameter of format() not found')
    fk = '%s#%s' % (fsp[0]['name'], fsp[0]['id'])
    sv = SymVal(ctx, f)
    n_t = 0
    for x in walk(f):
        if x.get('kind') == 'CallExpr' and callee(x) and callee(x)[0] == 'fn' and callee(x)[1].get('name') == 'Format64':
            arg = call_args(x)[2]
            val = sv.value_ast(arg)
            rend = [render(t) for (_, t) in (val or ())]
            if not any(fk in r for r in rend):
                continue
            n_t += 1
            bad = []
            wv = sv.value_ast(call_args(x)[1])
            wt = wv[0][1] if wv is not None and len(wv) == 1 else None
            if wt is not None and wt[0] == 'key' and re.match(r'^\w+#0x[0-9a-f]+$', wt[2]):
                wt = ('int', None, {wt[2]: 1})          # a plain (untracked) integer local: stands for itself
            wstr = lin_str(wt[2]) if wt is not None and wt[0] == 'int' else None
            for r in rend:
                flat = re.sub(r'\[[^\]]*\]', '[]', r)
                if re.search(r'[+-]', flat) or re.search(r'\b(l?l?round|ceil|nearbyint|rint)\(', flat):
                    bad.append(r)
                    continue
                # the scale matches the digit count W: fs (W == 15), fs * 10^(W-15), fs / 10^(15-W); fs counts 10^-15 s
                m_ = re.match(r'^\((?P<a>.+\.count\(\)) (?P<op>[*/]) (?P<tab>\w+#0x[0-9a-f]+)\[(?P<idx>[^\]]+)\]\)$', r)
                if wstr is None:
                    bad.append(r + ' (digit count not a linear value)')
                elif m_ is None:
                    if not (re.match(r'^.+\.count\(\)$', r) and wstr == '15'):
                        bad.append(r + ' for %s digits' % wstr)
                else:
                    want = ladd_(wt[2], {'': 15}, -1) if m_.group('op') == '*' else ladd_({'': 15}, wt[2], -1)
                    td = u.by_id.get(m_.group('tab').split('#')[1])
                    try:
                        tab = table_of(u, td)[0] if td is not None else None
                    except Exception:
                        tab = None
                    pow10 = isinstance(tab, list) and all(isinstance(v_, int) and v_ == 10 ** i_ for i_, v_ in enumerate(tab))
                    if m_.group('idx') != lin_str(want) or not pow10:
                        bad.append(r + ' for %s digits' % wstr)
            ctx.check(not bad and val is not None, 'C18-trunc', 'fraction digits at %s: femtoseconds scaled by a power of ten only' % pos(x), x,
                      'the value rendered as fractional digits is %s: it is not the femtosecond count scaled by exactly the power of ten '
                      'that leaves the requested number of digits (an additive term rounds; another scale drops or shifts digits)'
                      % (bad[:1] or rend[:1]), construct='trunc:%s' % pos(x).split(':')[-1], detail='; '.join(rend)[:120])
    if n_t < 2:
        raise AnalysisBroken('C18-trunc: fewer than 2 renderings of the femtosecond count found in format() (%d)' % n_t)
    ctx.minimum('C18-trunc', 2)


def _floor_guard(wctx, f, F, g, dec, divs, ck, modk, num):
    """The decrement runs exactly when the count, as it was before the division, is negative and not a multiple:
    the tests that control it (written inline or as a named bool) are read where the count is still the original one."""
    from ..symval import SymVal
    sv = SymVal(wctx, f, helpers=False)
    dnodes = g.nodes_for(dec)
    if not dnodes:
        return False, 'decrement not in the CFG'
    divnodes = [n for d_ in divs for n in g.nodes_for(d_)]
    after_div = set()
    stack = [m for n in divnodes for (m, _) in n.succs]
    while stack:
        n = stack.pop()
        if n.id in after_div:
            continue
        after_div.add(n.id)
        stack.extend(m for (m, _) in n.succs)
    byid = {n.id: n for n in g.live}
    edges = [e for e in sv.conds_at(dnodes[0]) if e[0] in byid]
    yes, no = [], []          # fact sets under which the decrement runs / does not run
    for (nid, lab) in edges:
        n = byid[nid]
        x = peel(n.ast)
        test, where = x, n
        if x.get('kind') == 'DeclRefExpr':
            d = f['_u'].by_id.get((x.get('referencedDecl') or {}).get('id'))
            if d is not None and d.get('kind') == 'VarDecl' and d['id'] in F.never_written and kids(d) and \
                    (dtype(d) or '').replace('const ', '').strip() == 'bool':
                test = kids(d)[-1]
                wn = g.nodes_for(d)
                where = wn[0] if wn else n
        if where.id in after_div:
            continue            # evaluated on the divided count: says nothing about the original one
        cases = F.bool_cases(test)
        if any(not isinstance(v, bool) for (_, v) in cases):
            continue
        mine = [set(fs) for (fs, v) in cases if v is (lab == 'T')]
        # the decrement runs under the conjunction of its controlling edges, and does not run when any one fails
        yes = [a | b for a in (yes or [set()]) for b in mine]
        no += [set(fs) for (fs, v) in cases if v is not (lab == 'T')]
    if not yes:
        return False, 'the decrement is not controlled by a test of the undivided count'
    neg = lambda fs: ('<', ck, 'n:0') in fs or ('<=', ck, 'n:0') in fs
    nonmult = lambda fs: any(op == '!=' and set((a, b)) == set((modk, 'n:0')) for (op, a, b) in fs)
    if not all(neg(fs) and nonmult(fs) for fs in yes):
        return False, 'the decrement is not made exactly for a negative count that is not a multiple of %d' % num
    pos = lambda fs: ('<=', 'n:0', ck) in fs or ('<', 'n:0', ck) in fs
    mult = lambda fs: any(op == '==' and set((a, b)) == set((modk, 'n:0')) for (op, a, b) in fs)
    if not all(pos(fs) or mult(fs) for fs in no):
        return False, 'a negative count that is not a multiple of %d is divided without the decrement' % num
    if not any(n.id in after_div for n in dnodes):
        return False, 'the decrement does not follow a division'
    return True, ''


def _is_template_inst(f):
    p = f.get('_p') or {}
    return p.get('kind') == 'FunctionTemplateDecl'


ENTRY_ALL = ('lookup', 'convert', 'format', 'next_transition', 'prev_transition', 'parse')


def witness(ctx):
    W = Program(tag='witness18-' + ctx.P.std.replace('+', 'p'), std=ctx.P.std,
                sources=[CONTROLS + '/seconds_instantiate.cc'], prefixes=(ctx.P.repo + '/', CONTROLS + '/'), repo=ctx.P.repo)
    GW = CallGraph(W)
    wctx = core.Ctx(ctx.prop, ctx.tier, W, GW, config=ctx.config)
    wctx.obligations = ctx.obligations          # obligations are recorded on the property's context
    return wctx, GW


def check_route(ctx, wctx, GW, rule, only=ENTRY_ALL, min_n=4):
    """Templated entry points take their whole second from split_seconds (never from a cast of their own)."""
    n_route = 0
    for k in sorted(GW.defs):
        u, f = GW.defs[k]
        nm = k[0]
        targs = k[1]
        if nm.split('::')[-1] not in only:
            continue
        if nm in ('cctz::time_zone::lookup', 'cctz::convert', 'cctz::format', 'cctz::time_zone::next_transition',
                  'cctz::time_zone::prev_transition') and targs and 'time_point<' in ''.join(targs) and \
                not any(a.startswith('consttime_point<seconds>') or a == 'consttime_point<seconds>&' for a in targs) and \
                f.get('_p', {}).get('kind') == 'FunctionTemplateDecl' or (nm in ('cctz::time_zone::lookup', 'cctz::convert', 'cctz::format') and
                                                                           _is_template_inst(f)):
            callx = [x for x in walk(f) if x.get('kind') in ('CallExpr', 'CXXMemberCallExpr') and callee(x)]
            calls = [callee(x)[1].get('name') if callee(x)[0] == 'fn' else callee(x)[1] for x in callx]
            casts = []
            for x in callx:
                if callee(x)[0] != 'fn' or callee(x)[1].get('name') not in ('time_point_cast', 'duration_cast', 'floor', 'ceil', 'round'):
                    continue
                r_ = _ratio(u.expand_type(dtype(x) or qtype(x)).replace(' ', ''))
                if r_ is None or r_[1] == 1:
                    casts.append(callee(x)[1].get('name'))      # a conversion to whole seconds or coarser
            n_route += 1
            if nm == 'cctz::format':
                # the sub-second part rendered is the remainder split_seconds hands back, converted as it is (truncation):
                # arithmetic on it before the conversion (rounding) changes the last digit shown
                from ..facts import FactEngine
                Ff = wctx.facts(f)
                dcs = [x for x in callx if callee(x)[0] == 'fn' and callee(x)[1].get('name') in ('duration_cast', 'floor', 'round', 'ceil')
                       and 'femto' in (u.expand_type(dtype(x) or qtype(x)) + (dtype(x) or '') + (qtype(x) or '')).replace(' ', '').lower() or
                       (callee(x)[0] == 'fn' and callee(x)[1].get('name') in ('duration_cast', 'floor', 'round', 'ceil') and
                        '1000000000000000' in u.expand_type(dtype(x) or qtype(x)).replace(' ', ''))]
                for x in dcs:
                    ak = Ff.ident_key(call_args(x)[0])
                    plain = bool(re.match(r'^cctz::detail::split_seconds\(.*\)\.second$', ak)) and callee(x)[1].get('name') == 'duration_cast'
                    ctx.check(plain, rule, 'format(%s) renders the remainder of split_seconds as it is' % ','.join(targs)[:50], x,
                              'the sub-second part handed to the formatter is %s(%s), not the plain conversion of split_seconds(tp).second: '
                              'the fraction is rounded or shifted instead of truncated' % (callee(x)[1].get('name'), ak[:120]),
                              construct='route:format:fraction')
            via = 'split_seconds' in calls or (nm == 'cctz::convert' and 'lookup' in calls)
            ctx.check(via and not casts, rule, '%s(%s) takes its second from split_seconds' % (nm.split('::')[-1], ','.join(targs)[:60]), f,
                      'a templated entry point converts the time point to seconds itself (%s) instead of through split_seconds: '
                      'the floor correction is bypassed' % (casts or 'no split_seconds call'), construct='route:%s' % nm.split('::')[-1])
        if nm == 'cctz::parse' and _is_template_inst(f):
            calls = [callee(x)[1].get('name') for x in walk(f) if x.get('kind') == 'CallExpr' and callee(x) and callee(x)[0] == 'fn']
            F = wctx.facts(f)
            g = wctx.cfg(f)
            ok = 'join_seconds' in calls
            for rn in g.returns:
                cases = F.return_cases(rn)
                # true only when both the text parse and join_seconds said true
                for (fs, val) in cases:
                    if val is True and not any(op == '!=' and 'join_seconds(' in a + b and 'n:0' in (a, b) for (op, a, b) in fs):
                        ok = False
            n_route += 1
            ctx.check(ok, rule, 'parse(%s) succeeds only if join_seconds accepts the result' % ','.join(targs)[-50:], f,
                      'parse<D> can return true without join_seconds having accepted the parsed instant: a count that does not fit the '
                      'target representation is not reported as a failure', construct='route:parse')
    if n_route < min_n:
        raise AnalysisBroken('%s:' % rule + ' templated entry points not instantiated in the witness (%d)' % n_route)
    return n_route
