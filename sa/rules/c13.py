"""C13 — concurrent loading and use of zones is race-free and schedule-independent."""
import re
from ..frontend import kids, walk, qn, qtype, dtype, pos, ancestors, AnalysisBroken, control_program
from ..expr import callee, call_args, peel, Keys
from ..callgraph import fname, CallGraph
from ..lock import LockRegions
from ..effects import extern_calls
from ..state import entries
from .c20 import cache_refs, map_access, is_cache_map
from . import loader

EXPLANATION = (
    'Ownership / lockset analysis of library-owned shared state. Every variable with static '
    'storage duration and every mutable member declared in /repo is enumerated from the AST and '
    'classified by type and initialiser (immutable, init-once magic static, atomic, mutex, '
    'link-time constant, lock-guarded); every reference to a lock-guarded variable must sit inside '
    'an RAII hold of one static mutex (C13-inventory, C13-lockset). No library function drops '
    'const with a cast or calls a non-const method through a pointer member from a const method '
    '(C13-const). In the loader the cache slot is written only when absent and the value handed to '
    'the caller is read back from the cache, so every thread receives the winner (C13-pub). No '
    'non-reentrant libc function is named (C13-libc). Decides data-race freedom of library state '
    'and identity of the Impl returned for a name under every interleaving; does not decide '
    'equality of answers with a sequential run beyond C14.')
LEVEL = ('Lockset/ownership proof over all functions and all static-storage variables: race freedom is a '
         'who-touches-what-under-which-lock property, which static analysis decides for every schedule.')
LEVEL_NOTE = ('Trusts clang 14 AST and sa/; RAII guards only; std:: containers are assumed to follow the '
              'standard const = thread-compatible contract; user factories and libc internals are out of scope.')
TECHNIQUE = 'shared-state inventory + RAII lockset + const-correctness escape analysis + dominance (must-facts)'

NONREENTRANT = {'localtime', 'gmtime', 'asctime', 'ctime', 'strtok', 'setlocale', 'tzset', 'rand',
                'srand', 'strerror', 'readdir', 'getpwnam', 'getpwuid', 'tmpnam', 'setenv', 'putenv',
                'unsetenv'}


def libc_effects(G, k):
    out = []
    for (name, site) in extern_calls(G, k):
        base = name.split('::')[-1]
        if base in NONREENTRANT:
            out.append((base, site))
    return out


def run(ctx):
    G = ctx.G
    # ---- C13-inventory / C13-lockset
    ents = entries(ctx)
    if len(ents) < 10:
        raise AnalysisBroken('C13: shared-state inventory found only %d entries' % len(ents))
    for e in ents:
        ok = e['kind'] in ('immutable', 'init-once', 'atomic', 'mutex', 'link-constant', 'lock-guarded',
                           'atomic-member', 'thread-local')
        ctx.check(ok, 'C13-inventory', '%s : %s' % (e['qn'], e['type']), e['pos'],
                  'shared state that is neither immutable, init-once, atomic, nor consistently guarded by '
                  'one static mutex (%s): concurrent calls race on it' % (e['why'] or e['kind']),
                  construct='state:%s' % e['qn'], detail='%s %s' % (e['kind'], e['why']))
        if e['kind'] == 'lock-guarded':
            for r in e['refs']:
                ctx.ok('C13-lockset', '%s referenced in %s' % (e['qn'], fname(r['fn'])), r['node'],
                       'held: ' + ','.join(r['held']))
        elif e['kind'] == 'unclassified':
            for r in e['refs']:
                if not r['held']:
                    ctx.bad('C13-lockset', '%s referenced in %s' % (e['qn'], fname(r['fn'])), r['node'],
                            'reference to shared mutable state with no static mutex held',
                            construct='unlocked-ref:%s:%s' % (e['qn'], fname(r['fn'])))
    ctx.minimum('C13-inventory', 15)
    ctx.minimum('C13-lockset', 1)    # references may be folded into helpers; an unguarded one is reported above

    # ---- C13-const
    n_fn = 0
    for k, (u, f) in G.defs.items():
        n_fn += 1
        for x in walk(f):
            kd = x.get('kind')
            if kd in ('CXXConstCastExpr', 'CStyleCastExpr', 'CXXReinterpretCastExpr', 'CXXFunctionalCastExpr'):
                ks = kids(x)
                if not ks:
                    continue
                src, dst = dtype(ks[-1]) or qtype(ks[-1]), dtype(x) or qtype(x)
                if _drops_const(src, dst):
                    exempt = (qn(f) == 'cctz::detail::strptime')   # !HAS_STRPTIME shim, caller-local string
                    ctx.check(exempt, 'C13-const', 'cast %s -> %s in %s' % (src, dst, fname(k)), x,
                              'a cast removes const: an operation documented as const (concurrently '
                              'callable) may write through it', construct='constcast:%s' % fname(k),
                              detail='named exemption: strptime shim operates on its own caller-local input')
        # (d) non-const member call through a pointer member inside a const method
        if _is_const_method(f):
            for x in walk(f):
                if x.get('kind') == 'CXXMemberCallExpr':
                    c = callee(x)
                    if not c or c[0] != 'method' or c[2] is None:
                        continue
                    d = u.by_id.get(c[3])
                    if d is None or d.get('kind') != 'CXXMethodDecl':
                        continue
                    base = peel(c[2])
                    through_member = any(y.get('kind') == 'MemberExpr' and
                                         _this_member(y) for y in walk(c[2]))
                    if through_member and not _decl_is_const(d) and d.get('storageClass') != 'static':
                        ctx.bad('C13-const', 'non-const %s called through a member in const %s' % (qn(d), fname(k)),
                                x, 'a const (concurrently callable) operation mutates an object reached '
                                'through a pointer member', construct='nonconst-call:%s:%s' % (fname(k), qn(d)))
    ctx.ok('C13-const', 'no const-dropping cast and no non-const call through a pointer member in const '
           'methods (%d functions scanned)' % n_fn, None, '')

    # ---- C13-pub (shared with C14/C19: loader.analyse)
    L = loader.analyse(ctx)
    for w in L['slot_writes']:
        ctx.check(w['absent_fact'], 'C13-pub', 'cache slot write in %s' % L['fname'], w['node'],
                  'the cache slot is overwritten without having been found absent (null) on every path: '
                  'a thread that loses a load race replaces the Impl other threads already hold, so equal '
                  'names yield time_zones that compare unequal', construct='slot-overwrite:%s' % L['fname'],
                  detail='written only under slot == nullptr')
        for arm in w['arms']:
            ctx.check(arm['ok'], 'C13-pub', 'value stored in cache slot: %s' % arm['text'], arm['node'],
                      arm['why'], construct='slot-value:%s:%s' % (L['fname'], arm['kind']),
                      detail=arm['kind'])
    for a in L['out_assigns']:
        ctx.check(a['source'] in ('cache', 'utc'), 'C13-pub', 'value handed to caller: %s' % a['text'], a['node'],
                  'the time_zone returned to the caller is not read back from the cache (or the UTC '
                  'singleton): a thread that loses a load race returns its own private Impl, so two loads of '
                  'one name compare unequal', construct='out-value:%s:%s' % (L['fname'], a['source']),
                  detail='source: ' + a['source'])
    ctx.minimum('C13-pub', 4)

    # ---- C13-libc
    n = 0
    for k, (u, f) in G.defs.items():
        n += 1
        for (name, site) in libc_effects(G, k):
            ctx.bad('C13-libc', '%s called in %s' % (name, fname(k)), site,
                    'non-reentrant libc function: concurrent callers share its static buffer/state',
                    construct='libc:%s:%s' % (fname(k), name))
    ctx.ok('C13-libc', 'no non-reentrant libc call in %d library functions' % n, None,
           'deny-list: ' + ' '.join(sorted(NONREENTRANT)))
    cp = control_program(['thread.cc'], std=ctx.P.std)
    cg = CallGraph(cp)
    fired = sum(len(libc_effects(cg, k)) for k in cg.defs)
    if fired < 1:
        raise AnalysisBroken('C13-libc positive control did not fire')
    ctx.ok('C13-libc', 'positive control controls/thread.cc fires (%d)' % fired, None, 'control')


def _drops_const(src, dst):
    def pointee_const(t):
        t = t.strip()
        if not (t.endswith('*') or t.endswith('&')):
            return None
        inner = t[:-1].strip()
        return inner.startswith('const ') or inner.endswith(' const')
    a, b = pointee_const(src), pointee_const(dst)
    return a is True and b is False


def _is_const_method(f):
    if f.get('kind') != 'CXXMethodDecl':
        return False
    t = re.sub(r'\s*noexcept(\(.*\))?\s*$', '', qtype(f))
    t = re.sub(r'\s*->.*$', '', t)
    return bool(re.search(r'\)\s*const\s*&{0,2}$', t))


def _decl_is_const(d):
    t = re.sub(r'\s*noexcept(\(.*\))?\s*$', '', qtype(d))
    t = re.sub(r'\s*->.*$', '', t)
    return bool(re.search(r'\)\s*const\s*&{0,2}$', t))


def _this_member(me):
    ks = kids(me)
    if not ks:
        return True
    b = peel(ks[0])
    return b is not None and b.get('kind') == 'CXXThisExpr'
