"""Shared constant-table rules (C17, C01, C04)."""
from ..frontend import kids, walk, qn, qtype, dtype, pos, AnalysisBroken
from ..expr import callee, call_args, peel, Keys, Folder
from ..table import const_arrays_in, table_of, one_var, enum_decl

# The Gregorian rule (the calendar, not a copy of any table of the library)
GREG = [31, 28, 31, 30, 31, 30, 31, 31, 30, 31, 30, 31]


def _arrays(ctx, fname_):
    u, f = ctx.fn(fname_)
    return u, f, const_arrays_in(u, f)


def weekday_tables(ctx):
    u, d, names, vals = enum_decl(ctx.P, 'cctz::detail::weekday')
    out = dict(enum_decl=d, enum_names=names, enum_vals=vals)
    u, f, arrs = _arrays(ctx, 'cctz::detail::get_weekday')
    en = [a for a in arrs if 'weekday' in (dtype(a) or qtype(a))]
    it = [a for a in arrs if 'weekday' not in (dtype(a) or qtype(a))]
    if len(en) != 1 or len(it) != 1:
        raise AnalysisBroken('get_weekday: expected one weekday table and one integer table, found %d/%d' % (len(en), len(it)))
    out['by_mon_off'] = (en[0], table_of(u, en[0])[0])
    out['weekday_offsets'] = (it[0], table_of(u, it[0])[0])
    for key, fn_ in (('forw', 'cctz::detail::next_weekday'), ('back', 'cctz::detail::prev_weekday')):
        u, f, arrs = _arrays(ctx, fn_)
        if len(arrs) > 1:
            raise AnalysisBroken('%s: expected one table, found %d' % (fn_, len(arrs)))
        # a search written without a table of its own (say, in terms of its sibling) has no table clause; what it
        # computes is still decided by the abstract executions of C17-window
        out[key] = (arrs[0], table_of(u, arrs[0])[0]) if arrs else None
    for k in ('by_mon_off', 'forw', 'back'):
        if out[k] is not None and not all(isinstance(v, int) for v in out[k][1]):
            raise AnalysisBroken('weekday table %s does not fold to constants' % k)
    return out


def month_tables(ctx):
    out = {}
    u, f, arrs = _arrays(ctx, 'cctz::detail::impl::days_per_month')
    if len(arrs) != 1:
        raise AnalysisBroken('days_per_month: expected one table')
    out['days_per_month'] = (arrs[0], table_of(u, arrs[0])[0])
    u, f, arrs = _arrays(ctx, 'cctz::detail::get_yearday')
    if len(arrs) != 1:
        raise AnalysisBroken('get_yearday: expected one table')
    out['month_offsets'] = (arrs[0], table_of(u, arrs[0])[0])
    out['weekday_offsets'] = weekday_tables(ctx)['weekday_offsets']
    u, d = one_var(ctx.P, 'cctz::kMonthOffsets')
    out['kMonthOffsets'] = (d, table_of(u, d)[0])
    u, d = one_var(ctx.P, 'cctz::kDaysPerYear')
    out['kDaysPerYear'] = (d, table_of(u, d)[0])
    return out


def check_month_tables(ctx, rule, civil=True, tz=True):
    M = month_tables(ctx)
    prefix = [sum(GREG[:m - 1]) for m in range(1, 13)]      # days before month m in a common year
    d, t = M['days_per_month']
    d2, o = M['month_offsets']
    o_full = o
    if o and all(isinstance(r, list) for r in o):
        o = o[0]                 # row for common years (the leap row is checked below)
    if civil:
        ctx.check(len(t) == 13, rule, '%s has 1+12 entries' % d['name'], d, 'wrong extent', construct='extent:days_per_month')
        for m in range(1, 13):
            ctx.check(len(t) > m and t[m] == GREG[m - 1], rule, '%s[%d] == %d (Gregorian month length)' % (d['name'], m, GREG[m - 1]), d,
                      'month %d has %s days in this table; the Gregorian calendar has %d' % (m, t[m] if len(t) > m else '?', GREG[m - 1]),
                      construct='days_per_month[%d]' % m)
        rows = [(o, 0)]
        if o_full is not o:
            # one row per kind of year: common, leap
            rows = [(o_full[0], 0)] + ([(o_full[1], 1)] if len(o_full) > 1 else [])
            ctx.check(len(o_full) == 2, rule, '%s has one row for common and one for leap years' % d2['name'], d2, 'wrong extent',
                      construct='extent:month_offsets')
        for (row, leap) in rows:
            tag = '[%d]' % leap if len(rows) > 1 else ''
            for m in range(1, 13):
                want = prefix[m - 1] + (1 if leap and m > 2 else 0)
                ctx.check(len(row) > m and row[m] == want, rule, '%s%s[%d] == %d (days before month %d)' % (d2['name'], tag, m, want, m), d2,
                          'get_yearday\'s offset for month %d is %s; the month lengths sum to %d' % (m, row[m] if len(row) > m else '?', want),
                          construct='month_offsets%s[%d]' % (tag, m))
            for m in range(1, 12):
                ctx.check(len(row) > m + 1 and row[m + 1] - row[m] == t[m] + (1 if leap and m == 2 else 0), rule,
                          '%s%s[%d]-[%d] == %s[%d]' % (d2['name'], tag, m + 1, m, d['name'], m), d2,
                          'successive difference of the yearday offsets disagrees with days_per_month for month %d' % m,
                          construct='diff:month_offsets%s[%d]' % (tag, m))
        d3, w = M['weekday_offsets']
        for m in range(1, 13):
            want = (prefix[m - 1] - (1 if m > 2 else 0)) % 7
            ctx.check(len(w) > m and w[m] % 7 == want, rule,
                      '%s[%d] == (days before month %d - [m>2]) mod 7 == %d' % (d3['name'], m, m, want), d3,
                      'get_weekday\'s month constant for month %d is %s; the month lengths give %d (mod 7): every date of that '
                      'month gets the wrong weekday' % (m, w[m] if len(w) > m else '?', want), construct='weekday_offsets[%d]' % m)
    if tz:
        d4, k = M['kMonthOffsets']
        ok_shape = len(k) == 2 and all(len(r) == 14 for r in k)
        ctx.check(ok_shape, rule, 'kMonthOffsets is 2 x (1+12+1)', d4, 'wrong extent', construct='extent:kMonthOffsets')
        if ok_shape:
            for m in range(1, 14):
                want0 = sum(GREG[:m - 1])
                ctx.check(k[0][m] == want0, rule, 'kMonthOffsets[0][%d] == %d' % (m, want0), d4,
                          'non-leap month offset %d is %d, month lengths give %d' % (m, k[0][m], want0),
                          construct='kMonthOffsets[0][%d]' % m)
                ctx.check(k[1][m] == want0 + (1 if m > 2 else 0), rule,
                          'kMonthOffsets[1][%d] == kMonthOffsets[0][%d] + [m>2]' % (m, m), d4,
                          'leap-year month offset %d is %d, expected %d' % (m, k[1][m], want0 + (1 if m > 2 else 0)),
                          construct='kMonthOffsets[1][%d]' % m)
            for m in range(1, 13):
                ctx.check(k[0][m] == o[m], rule, 'kMonthOffsets[0][%d] == %s[%d]' % (m, d2['name'], m), d4,
                          'the time-zone module and get_yearday disagree on the days before month %d' % m,
                          construct='agree:kMonthOffsets[0][%d]' % m)
        d5, y = M['kDaysPerYear']
        ctx.check(y == [365, 366], rule, 'kDaysPerYear == {365, 366}', d5, 'wrong year lengths', construct='kDaysPerYear')
        if ok_shape:
            ctx.check([k[0][13], k[1][13]] == y, rule, 'kMonthOffsets[.][13] == kDaysPerYear', d4,
                      'the end-of-year sentinel of kMonthOffsets disagrees with kDaysPerYear', construct='kMonthOffsets[.][13]')
    return M


def switch_map(unit, fn):
    """{case value: returned constant} for a function that is one switch of returns;
    also returns the enumerator names of the case labels."""
    F = Folder(unit)
    sw = [x for x in walk(fn) if x.get('kind') == 'SwitchStmt']
    if len(sw) != 1:
        return None
    m = {}

    def ret_of(stmt):
        for x in walk(stmt):
            if x.get('kind') == 'ReturnStmt':
                return x
        return None
    pending = []
    body = kids(sw[0])[-1]

    def visit(s):
        k = s.get('kind')
        if k == 'CaseStmt':
            ks = kids(s)
            pending.append(F.fold(ks[0]))
            visit(ks[-1])
        elif k == 'DefaultStmt':
            pending.append('default')
            if kids(s):
                visit(kids(s)[-1])
        elif k == 'ReturnStmt':
            v = F.fold(kids(s)[0]) if kids(s) else None
            for p in pending:
                m[p] = v
            del pending[:]
        elif k == 'BreakStmt':
            for p in pending:
                m[p] = 'break'
            del pending[:]
        elif k == 'CompoundStmt':
            for c in kids(s):
                visit(c)
    visit(body)
    return m


def check_weekday_switches(ctx, rule, fnames):
    """weekday -> int switches: exhaustive, Sunday=0 .. Saturday=6 (i.e. (enum+1) mod 7);
    int -> weekday switch: the inverse."""
    u, d, names, vals = enum_decl(ctx.P, 'cctz::detail::weekday')
    idx = {n: v for n, v in zip(names, vals)}
    if 'sunday' not in idx:
        raise AnalysisBroken('weekday::sunday not found')
    sun = idx['sunday']
    for fn_ in fnames:
        uu, f = ctx.fn(fn_)
        m = switch_map(uu, f)
        if m is None:
            ctx.bad(rule, '%s is a single switch' % fn_, f, 'not a single switch of returns', construct='switch:%s' % fn_)
            continue
        to_int = 'weekday' in qtype(f).split('(')[1]
        for v in vals:
            tm = (v - sun) % 7          # Sunday=0, Monday=1, ...
            if to_int:
                ctx.check(m.get(v) == tm, rule, '%s(%s) == %d' % (fn_, names[v], tm), f,
                          '%s maps %s to %s; Sunday=0..Saturday=6 requires %d' % (fn_, names[v], m.get(v), tm),
                          construct='%s:%s' % (fn_, names[v]))
            else:
                ctx.check(m.get(tm) == v, rule, '%s(%d) == %s' % (fn_, tm, names[v]), f,
                          '%s maps %d to %s; the inverse of ToTmWday requires %s' % (
                              fn_, tm, names[m[tm]] if isinstance(m.get(tm), int) and 0 <= m[tm] < 7 else m.get(tm), names[v]),
                          construct='%s:%d' % (fn_, tm))


def loop_search_shape(ctx, u, f, table_decl):
    """for (int i = 0;; ++i) if (base == T[i]) for (int j = i + 1;; ++j) if (wd == T[j]) return cd +/- (j - i);"""
    K = Keys(u)
    fors = [x for x in walk(f) if x.get('kind') == 'ForStmt']
    if len(fors) != 2:
        return dict(ok=False, why='%d for-loops' % len(fors), detail='')
    outer, inner = fors
    if not any(x is inner for x in walk(outer)):
        return dict(ok=False, why='loops not nested', detail='')

    def parts(s):
        p = s.get('inner', [])
        return [c if isinstance(c, dict) and 'kind' in c else None for c in p]

    def ivar(s):
        init = parts(s)[0]
        vs = [x for x in walk(init)] if init else []
        vs = [x for x in vs if x.get('kind') == 'VarDecl']
        return vs[0] if len(vs) == 1 else None
    iv, jv = ivar(outer), ivar(inner)
    if iv is None or jv is None:
        return dict(ok=False, why='induction variables not declared in the loops', detail='')
    ik = '%s#%s' % (iv['name'], iv['id'])
    jk = '%s#%s' % (jv['name'], jv['id'])
    why = []
    if K.key(kids(iv)[-1]) != 'n:0':
        why.append('outer index does not start at 0')
    if K.key(kids(jv)[-1]) not in ('(%s + n:1)' % ik, '(n:1 + %s)' % ik):
        why.append('inner index does not start at i+1')
    for s, k in ((outer, ik), (inner, jk)):
        p = parts(s)
        if p[2] is not None:
            why.append('loop has an exit condition other than the match')
        inc = peel(p[3]) if p[3] else None
        if not (inc is not None and inc.get('kind') == 'UnaryOperator' and inc.get('opcode') == '++' and K.key(kids(inc)[0]) == k):
            why.append('index %s is not incremented by one' % k.split('#')[0])
    # every subscript of the table uses i (outer test) or j (inner test)
    tk = '%s#%s' % (table_decl['name'], table_decl['id'])
    subs = [x for x in walk(f) if x.get('kind') == 'ArraySubscriptExpr' and K.key(kids(x)[0]) == tk]
    idxs = sorted(K.key(kids(x)[1]) for x in subs)
    if idxs != sorted([ik, jk]):
        why.append('table subscripts are %s' % idxs)
    # no write to i / j in the bodies other than the increments
    from ..expr import written_lvalues
    for s, k in ((outer, ik), (inner, jk)):
        body = parts(s)[4]
        for lv in written_lvalues(body):
            if K.key(lv) == k:
                why.append('index %s modified in the loop body' % k.split('#')[0])
    # return expression: cd +/- (j - i)
    sign = None
    rets = [x for x in walk(inner) if x.get('kind') == 'ReturnStmt']
    if len(rets) == 1:
        rk = K.key(kids(rets[0])[0])
        diff = '(%s - %s)' % (jk, ik)
        if ' + %s)' % diff in rk:
            sign = 1
        elif ' - %s)' % diff in rk:
            sign = -1
    else:
        why.append('%d returns in the inner loop' % len(rets))
    return dict(ok=not why, why='; '.join(why), sign=sign, detail='i from 0, j from i+1, ++ only, match-exit only')
