"""C15 — fixed-offset zones and their names (shape clauses)."""
import re
from ..frontend import kids, walk, qn, qtype, dtype, pos, ancestors, AnalysisBroken, params_of
from ..absint import AI, Observer, St, Int
from ..expr import callee, call_args, peel, Keys, Folder
from ..callgraph import fname
from ..effects import extern_calls
from . import loader, nul
from .c20 import FACTORY

EXPLANATION = (
    'Shape clauses of the fixed-offset name protocol decided from the AST. C15-noio: every call chain '
    'to the data-source factory passes the failed fixed-offset-name test, the fixed-offset branch of '
    'the loader reaches no I/O or environment call, and the zero offset short-circuits to the UTC '
    'singleton. C15-nul: each digit lookup strchr(kDigits, c) excludes the terminating NUL. C15-shape: '
    'on every path on which FixedOffsetFromName accepts a non-UTC name, per-path branch facts show the '
    'exact length, the prefix comparison, a sign at the sign position, colons at both separator '
    'positions, three successful two-digit parses at the digit positions and a total of at most 24h. '
    'C15-bound: the 24h limit of FixedOffsetFromName and of FixedOffsetToName fold to the same constant '
    'on both sides of zero. C15-abbr: abstract execution of FixedOffsetToAbbr over names made of tokens '
    '(each digit either "the digit 0" or "another digit", sign + or -, literal prefix and colons; 128 '
    'runs cover every name of the long form, one more the short form) shows the abbreviation is sign+hh, '
    'then mm, then ss, dropping ss only when it is "00" and mm only when both are "00"; an edit the '
    'interpreter has no exact transfer function for ends as "not interpreted". C15-buf: the forward writes into FixedOffsetToName\'s buffer '
    'sum to exactly its extent. Does not decide the digit arithmetic (offset<->name bijection).')
LEVEL = ('Structural proof of the accept-shape, of the no-I/O routing and of the string-edit layout for all '
         'offsets and names; the value-level bijection over the 172801 offsets is not decided statically.')
LEVEL_NOTE = 'Trusts clang 14 AST and sa/; std::equal / std::string::erase semantics assumed.'
TECHNIQUE = 'per-path branch-fact analysis + call-graph effects + abstract execution over token-class strings + constant agreement'

IO_CALLS = {'fopen', 'fread', 'fseek', 'fclose', 'getenv', 'open', 'read', 'ifstream', 'fopen_s', '_dupenv_s'}


def run(ctx):
    G = ctx.G
    # ---- C15-noio
    L = loader.analyse(ctx)
    found = False
    for r in L['returns']:
        F = ctx.facts(L['fn'])
        n = [x for x in ctx.cfg(L['fn']).returns if x.ast is r['node']]
        fs = F.facts_at(n[0]) if n else frozenset()
        fixed = any(op == '!=' and 'cctz::FixedOffsetFromName(' in F.resolve_key(a) + F.resolve_key(b) and 'n:0' in (a, b) for (op, a, b) in fs)
        zero = any(op == '==' and 'zero()' in a + b for (op, a, b) in fs)
        if fixed and zero:
            found = True
            ctx.check(r['retkey'] == 'n:1' and r['out'] is not None and r['out'][2] == 'utc', 'C15-noio',
                      'UTC names short-circuit to the UTC singleton', r['node'],
                      'a name that spells a zero fixed offset does not return true with the UTC singleton',
                      construct='utc-shortcircuit', detail='FixedOffsetFromName && offset == zero -> utc, true')
    if not found:
        ctx.bad('C15-noio', 'UTC names short-circuit to the UTC singleton', L['fn'],
                'no return of the loader is taken under "fixed-offset name with zero offset"', construct='utc-shortcircuit')
    chains = G.paths_to(G.roots(), lambda k, e: e[0] == 'indirect' and e[1] == FACTORY)
    for (steps, edge) in chains:
        ok = False
        for (k, site) in steps:
            u, f = G.defs[k]
            for (op, a, b) in (ctx.facts(f).facts_at_ast(site) or ()):
                if op == '==' and 'n:0' in (a, b) and 'cctz::FixedOffsetFromName(' in a + b:
                    ok = True
        ctx.check(ok, 'C15-noio', 'data source not consulted for fixed-offset names (chain from %s)' % fname(steps[0][0]),
                  steps[-1][1], 'the data source factory is reachable for a name FixedOffsetFromName accepts',
                  construct='noio:%s' % fname(steps[0][0]))
    kl = G.one('cctz::TimeZoneInfo::Load', 'string')
    u, f = G.defs[kl]
    F = ctx.facts(f)
    g = ctx.cfg(f)
    n_fixed = 0
    for rn in g.returns:
        fs = F.facts_at(rn)
        if any(op == '!=' and 'cctz::FixedOffsetFromName(' in a + b and 'n:0' in (a, b) for (op, a, b) in fs):
            n_fixed += 1
            calls = [x for x in walk(rn.ast) if x.get('kind') in ('CXXMemberCallExpr', 'CallExpr')]
            targets = []
            for c in calls:
                cc = callee(c)
                if cc and cc[0] == 'method':
                    d = u.by_id.get(cc[3])
                    if d is not None:
                        targets += G.resolve_decl(d)
            reach = G.reachable(targets)
            io = []
            for kk in reach:
                for (name, site) in extern_calls(G, kk):
                    if name.split('::')[-1] in IO_CALLS or 'ifstream' in name:
                        io.append((name, site))
                for (kind, t, site) in G.edges.get(kk, ()):
                    if kind == 'indirect' and t == FACTORY:
                        io.append((t, site))
            ctx.check(bool(targets) and not io, 'C15-noio', 'fixed-offset branch builds the zone without I/O (%d functions reachable)' % len(reach),
                      rn.ast, 'the fixed-offset branch reaches %s' % (io[0][0] if io else 'nothing resolvable'),
                      construct='fixed-io', detail=', '.join(sorted(fname(t) for t in targets))[:100])
    if n_fixed == 0:
        ctx.bad('C15-noio', 'fixed-offset branch of TimeZoneInfo::Load(name)', f, 'no return under a successful fixed-offset test',
                construct='fixed-io')
    ctx.minimum('C15-noio', 4)

    # ---- C15-nul
    n = 0
    for (k, u, f, call) in nul.strchr_sites(ctx, lambda k, u, f: u.name == 'time_zone_fixed.cc'):
        if nul.check_site(ctx, 'C15-nul', k, u, f, call):
            n += 1
    # (the lookups may be folded into a helper, or replaced by range tests: C15-digits decides that both
    #  characters are established as digits; C15-nul only that a strchr lookup, where used, excludes NUL)

    # ---- C15-digits: a two-digit field is accepted only when each of its characters is a decimal digit
    kp = [k_ for k_ in G.defs if k_[0] == 'cctz::Parse02d' and G.defs[k_][0].name == 'time_zone_fixed.cc']
    if len(kp) != 1:
        raise AnalysisBroken('C15-digits: the two-digit field parser of time_zone_fixed.cc not found')
    worst, sites = digit_count(ctx, kp[0])
    looped = any(y.get('kind') in ('ForStmt', 'WhileStmt', 'DoStmt', 'CXXForRangeStmt') for y in walk(G.defs[kp[0]][1]))
    ctx.check3(None if (looped and not (worst is not None and worst >= 2)) else (worst is not None and worst >= 2), 'C15-digits', 'Parse02d yields a value only after two characters are established as digits',
              sites[0] if sites else G.defs[kp[0]][1],
              'Parse02d can return a non-negative value on a path where fewer than two characters have been established as '
              'decimal digits (%s): strings that are not of the shape +hh:mm:ss are taken for fixed-offset names' % worst,
              construct='digits:Parse02d', detail='at least %s digit tests before every accepting return' % worst,
              unknown_why='the two digit tests are made in a loop: the per-path count of established digits does not follow loops')
    ctx.minimum('C15-digits', 1)

    # ---- C15-shape / C15-bound
    u, f = ctx.fn('cctz::FixedOffsetFromName')
    F = ctx.facts(f)
    g = ctx.cfg(f)
    keys = F.keys
    fold = Folder(u)
    params = [p for p in kids(f) if p.get('kind') == 'ParmVarDecl']
    namek = '%s#%s' % (params[0]['name'], params[0]['id'])
    prefix = None
    for x in walk(f):
        if x.get('kind') == 'CallExpr' and callee(x) and callee(x)[0] == 'fn' and callee(x)[1].get('name') == 'equal':
            a0 = peel(call_args(x)[0])
            d = u.by_id.get((a0.get('referencedDecl') or {}).get('id'))
            if d is not None:
                from ..table import table_of
                prefix = table_of(u, d)[0]
                eq_key = keys.key(x)
                a1 = keys.key(call_args(x)[1])
                a2 = keys.key(call_args(x)[2])
    if prefix is None:
        raise AnalysisBroken('C15-shape: prefix comparison (std::equal) not found')
    plen = len(prefix) - 1
    accept = [rn for rn in g.returns if keys.key(kids(rn.ast)[0]) == 'n:1']
    # the accepting return that is not one of the literal UTC spellings
    acc = [rn for rn in accept if any(op == '!=' and 's:"UTC' in a + b for (op, a, b) in F.facts_at(rn))]
    if len(acc) != 1:
        raise AnalysisBroken('C15-shape: expected one non-literal accepting return, found %d' % len(acc))
    hp = F.path_facts(acc, history=True)
    paths = [ever for (now, ever) in hp]
    now_paths = [now for (now, ever) in hp]
    ctx.stats['accept_paths'] = len(paths)
    chpat = re.compile(r'^\(%s\.data\(\) \+ n:(\d+)\)\[n:(\d+)\]$' % re.escape(namek))
    chpat2 = re.compile(r'^%s\[n:(\d+)\]$' % re.escape(namek))        # the same character keyed as an element of the string

    def char_facts(fs):
        out = {}
        for (op, a, b) in fs:
            for (x, y) in ((a, b), (b, a)):
                m = chpat.match(x)
                m2 = chpat2.match(x)
                if m and y.startswith('n:'):
                    out.setdefault(int(m.group(1)) + int(m.group(2)), []).append((op, int(y[2:])))
                elif m2 and y.startswith('n:'):
                    out.setdefault(int(m2.group(1)), []).append((op, int(y[2:])))
        return out
    reqs = [
        ('length == prefix + 9', lambda fs, cf: ('==', '%s.size()' % namek, 'n:%d' % (plen + 9)) in fs or
         ('==', 'n:%d' % (plen + 9), '%s.size()' % namek) in fs),
        ('prefix compared with std::equal over its whole length', lambda fs, cf: any(
            op == '!=' and eq_key in (a, b) and 'n:0' in (a, b) for (op, a, b) in fs) and a2 == '%s.begin()' % namek),
        ('sign at position %d' % plen, lambda fs, cf: any(o == '==' and v in (43, 45) for (o, v) in cf.get(plen, []))),
        ('":" at position %d' % (plen + 3), lambda fs, cf: ('==', 58) in cf.get(plen + 3, [])),
        ('":" at position %d' % (plen + 6), lambda fs, cf: ('==', 58) in cf.get(plen + 6, [])),
    ]
    for j, off in enumerate((1, 4, 7)):
        want = 'cctz::Parse02d((%s.data() + n:%d))' % (namek, plen + off)
        alt = 'cctz::Parse02d(((%s.data() + n:%d) + n:%d))' % (namek, plen, off)
        reqs.append(('two digits parsed at position %d' % (plen + off),
                     (lambda w, al: lambda fs, cf: any(op == '!=' and 'n:-1' in (a, b) and _parse_of(F, a if b == 'n:-1' else b) in (w, al)
                                                        for (op, a, b) in fs))(want, alt)))
    for (what, pred) in reqs:
        okall = bool(paths) and all(pred(fs, char_facts(fs)) for fs in paths)
        ctx.check(okall, 'C15-shape', 'accepted name: %s (on all %d accepting paths)' % (what, len(paths)), acc[0].ast,
                  'FixedOffsetFromName accepts a string on a path where "%s" has not been established: names of '
                  'another shape (or spelling more than 24 hours) are treated as fixed-offset zones' % what,
                  construct='shape:%s' % what)
    vals = accepted_offsets(ctx)
    total_ok = bool(vals) and all(-86400 <= v.lo and v.hi <= 86400 for (_, v) in vals)
    ctx.check(total_ok, 'C15-shape', 'accepted name: total of at most 24h (every offset handed back lies in [-86400, 86400])', acc[0].ast,
              'FixedOffsetFromName can hand back an offset beyond 24 hours: %s' % ', '.join(str(v) for (_, v) in vals),
              construct='shape:total')
    ctx.minimum('C15-shape', 9)

    # ---- C15-complete: a name is refused only for a reason the shape allows (length, prefix, sign, colons,
    # a field that is not two digits, total beyond 24h) -- any other refusal sends a well-formed name elsewhere
    rejects = [rn for rn in g.returns if keys.key(kids(rn.ast)[0]) == 'n:0']
    n_rej = 0
    for rn in rejects:
        bad_paths = 0
        tot = 0
        for (now, ever) in F.path_facts([rn], history=True):
            tot += 1
            cf = char_facts(ever)
            why = None
            if any(op == '!=' and set((a, b)) == set(('%s.size()' % namek, 'n:%d' % (plen + 9))) for (op, a, b) in ever):
                why = 'length'
            elif any(op == '==' and eq_key in (a, b) and 'n:0' in (a, b) for (op, a, b) in ever):
                why = 'prefix'
            elif ('!=', 43) in cf.get(plen, []) and ('!=', 45) in cf.get(plen, []):
                why = 'sign'
            elif ('!=', 58) in cf.get(plen + 3, []) or ('!=', 58) in cf.get(plen + 6, []):
                why = 'colon'
            elif any(op == '==' and 'n:-1' in (a, b) and _parse_of(F, a if b == 'n:-1' else b).startswith('cctz::Parse02d(')
                     for (op, a, b) in ever):
                why = 'digits'
            elif any((op == '<' and a == 'n:86400') or (op == '<=' and a == 'n:86401') for (op, a, b) in ever):
                why = 'total'
            if why is None:
                bad_paths += 1
        n_rej += 1
        ctx.check(bad_paths == 0 and tot > 0, 'C15-complete', 'refusal at %s is for a reason the name shape allows' % pos(rn.ast), rn.ast,
                  'FixedOffsetFromName refuses a string on a path (%d of %d) where none of: wrong length, wrong prefix, no sign, '
                  'missing colon, a field that is not two digits, total beyond 24 hours has been established: a well-formed '
                  'fixed-offset name within 24 hours is not recognised as one (and is handed to the zone-data loader)'
                  % (bad_paths, tot), construct='complete:%s' % keys.key(kids(rn.ast)[0]))
    if n_rej < 1:
        raise AnalysisBroken('C15-complete: FixedOffsetFromName has no refusing return')
    ctx.minimum('C15-complete', 1)

    # ---- C15-bound: the 24h limits of the two directions agree
    u2, f2 = ctx.fn('cctz::FixedOffsetToName')
    check_bounds(ctx, 'C15-bound')
    ctx.minimum('C15-bound', 2)

    # ---- C15-abbr
    _check_abbr(ctx, plen)

    # ---- C15-buf
    _check_buf(ctx, u2, f2, plen)


def _duration_unit(u, t):
    """Seconds per tick of a std::chrono::duration type (None when not a whole number of seconds)."""
    t = u.expand_type(t or '')
    m = re.search(r'duration<[^,<>]+(?:,\s*(?:std::)?ratio<\s*(\d+)(?:\s*,\s*(\d+))?\s*>)?\s*>', t)
    if not m:
        return None
    if m.group(1) is None:
        return 1
    n, d = int(m.group(1)), int(m.group(2) or 1)
    return n // d if d and n % d == 0 else None


class _OffsetObs(Observer):
    def __init__(self):
        self.vals = []

    def construct(self, ai, site, cls, argvals, st):
        if 'duration' in cls and argvals and isinstance(argvals[-1], Int):
            self.vals.append((site, argvals[-1]))


def accepted_offsets(ctx):
    """Hull of the second counts FixedOffsetFromName can hand to its caller, by abstract interpretation
    of the function (helpers inlined): every duration it constructs from a computed value."""
    G = ctx.G
    k = G.one('cctz::FixedOffsetFromName')
    u, f = G.defs[k]
    obs = _OffsetObs()
    ai = AI(G, obs, auto_unroll=True)
    res = ai.analyse(k, St())
    if not res or not any(isinstance(v, Int) and v.hi >= 1 for (v, s) in res):
        raise AnalysisBroken('FixedOffsetFromName could not be analysed')
    vals = [(site, v) for (site, v) in obs.vals if any(a is f for a in ancestors(site))]
    return vals


def check_bounds(ctx, rule, exact=True):
    """The 24h limit of FixedOffsetFromName and of FixedOffsetToName agree on both sides of zero."""
    u, f = ctx.fn('cctz::FixedOffsetFromName')
    u2, f2 = ctx.fn('cctz::FixedOffsetToName')
    F2 = ctx.facts(f2)
    g2 = ctx.cfg(f2)
    pk = '%s#%s' % (params_of(f2)[0]['name'], params_of(f2)[0]['id'])
    unit_of = {}
    for x in walk(f2):
        if x.get('kind') == 'CXXOperatorCallExpr' and callee(x) and callee(x)[0] == 'fn' and \
                callee(x)[1].get('name') in ('operator<', 'operator>', 'operator<=', 'operator>='):
            args = call_args(x)
            for (me, other) in ((args[0], args[1]), (args[1], args[0])):
                if F2.keys.key(me) == pk:
                    unit_of.setdefault(F2.keys.key(other), set()).add(_duration_unit(u2, dtype(other) or qtype(other)))
    rets = [rn for rn in g2.returns if 's:' not in F2.keys.key(kids(rn.ast)[0])]
    lo = hi = None
    for rn in rets:
        for (op, a, b) in F2.facts_at(rn):
            for (cst, var, side) in ((a, b, 'lo'), (b, a, 'hi')):
                if op in ('<=', '<') and cst.startswith('n:') and var == pk and len(unit_of.get(cst, ())) == 1:
                    unit = list(unit_of[cst])[0]
                    if unit is None:
                        continue
                    v = int(cst[2:]) * unit
                    if op == '<':
                        v += 1 if side == 'lo' else -1
                    if side == 'lo':
                        lo = v
                    else:
                        hi = v
    ctx.check(lo is not None and hi is not None and lo == -hi and hi == 86400, rule,
              'FixedOffsetToName names offsets in [-24h, +24h] (both ends included)', f2,
              'the range of offsets FixedOffsetToName names is not the symmetric closed range of 24 hours (%s, %s)' % (lo, hi),
              construct='bound:toname', detail='%s..%s seconds' % (lo, hi))
    vals = accepted_offsets(ctx)
    alo = min([v.lo for (_, v) in vals]) if vals else None
    ahi = max([v.hi for (_, v) in vals]) if vals else None
    if exact:
        cond = vals and alo == -86400 and ahi == 86400 and lo == alo and hi == ahi
    else:
        cond = vals and hi is not None and lo is not None and alo <= lo and ahi >= hi
    ctx.check(bool(cond), rule,
              'FixedOffsetFromName accepts magnitudes up to the same 24h, sign applied after the bound',
              vals[0][0] if vals else f,
              'the offsets FixedOffsetFromName can hand back span [%s, %s] seconds, which differs from the range [%s, %s] '
              'FixedOffsetToName produces names for: some name the library generates is not accepted back, or a name '
              'beyond 24h is' % (alo, ahi, lo, hi), construct='bound:fromname', detail='[%s, %s]' % (alo, ahi))


def digit_count(ctx, fk, _depth=0):
    """(minimum over the returns that can yield a non-negative value of the number of distinct characters
    established as decimal digits on arrival, the offending returns).  A character is established as a digit
    by a successful strchr lookup in a table of the ten digits, by a range test '0' <= c <= '9', or by a
    helper call (itself analysed the same way) yielding a non-negative value."""
    from ..table import table_of
    G = ctx.G
    u, f = G.defs[fk]
    F = ctx.facts(f)
    g = ctx.cfg(f)
    keys = F.keys

    def init_key(k):
        m = re.match(r'^(\w+)#(0x[0-9a-f]+)$', k)
        if m:
            d = u.by_id.get(m.group(2))
            if d is not None and d.get('kind') == 'VarDecl' and kids(d):
                return peel(kids(d)[-1])
        return None
    calls = {}
    for x in walk(f):
        if x.get('kind') == 'CallExpr' and callee(x) and callee(x)[0] == 'fn':
            calls[keys.key(x)] = x
    worst = None
    sites = []
    for rn in g.returns:
        for (fs, val) in F.return_cases(rn):
            if isinstance(val, str) and re.match(r'^n:-\d+$', val):
                continue
            if val is False or val is None:
                continue
            chars = set()
            extra = 0
            for (op, a, b) in fs:
                for (x_, y_) in ((a, b), (b, a)):
                    call = calls.get(x_)
                    if call is None and init_key(x_) is not None and init_key(x_).get('kind') == 'CallExpr':
                        call = init_key(x_)
                    if call is None or not callee(call) or callee(call)[0] != 'fn':
                        continue
                    nm = callee(call)[1].get('name')
                    args = call_args(call)
                    if nm in ('strchr', 'memchr') and op == '!=' and y_ == 'null' and args:
                        a0 = peel(args[0])
                        d0 = u.by_id.get((a0.get('referencedDecl') or {}).get('id')) if a0.get('kind') == 'DeclRefExpr' else None
                        try:
                            tab = table_of(u, d0)[0] if d0 is not None else None
                        except Exception:
                            tab = None
                        if tab is not None and [c for c in tab if c][:10] == [ord(c) for c in '0123456789'] and len([c for c in tab if c]) == 10:
                            chars.add(keys.key(args[1]))
                    elif callee(call)[1].get('_qn') and _depth < 3 and \
                            ((op == '!=' and y_ == 'n:-1') or (op in ('<=', '<') and a == ('n:0' if op == '<=' else 'n:-1') and x_ == b)):
                        tg = G.resolve_decl(callee(call)[1])
                        if len(tg) == 1 and tg[0] != fk:
                            sub, _ = digit_count(ctx, tg[0], _depth + 1)
                            if sub:
                                chars.add(keys.key(call))
                                extra += sub - 1
            # range tests 48 <= c <= 57
            lows = set(b for (op, a, b) in fs if (op == '<=' and a == 'n:48') or (op == '<' and a == 'n:47'))
            highs = set(a for (op, a, b) in fs if (op == '<=' and b == 'n:57') or (op == '<' and b == 'n:58'))
            chars |= (lows & highs)
            n = len(chars) + extra
            if worst is None or n < worst:
                worst = n
            if n < 2:
                sites.append(rn.ast)
    return worst, sites


def _parse_of(F, key):
    """key of the initialiser of a local named in a fact (hours#.. -> Parse02d(...))."""
    m = re.match(r'^(\w+)#(0x[0-9a-f]+)$', key)
    if not m:
        return key
    d = F.unit.by_id.get(m.group(2))
    if d is not None and kids(d):
        return F.keys.key(kids(d)[-1])
    return key


def _under_literal_name(F, rn):
    return any(op == '!=' and ('s:"UTC' in a + b) for (op, a, b) in F.facts_at(rn)) or \
        any('s:"UTC' in a + b for (op, a, b) in F.facts_at(rn))


def _check_abbr(ctx, plen):
    """FixedOffsetToAbbr by abstract execution (sa/strabs.py): the name is a string of tokens, each digit position either
    the digit zero or a non-zero digit; one run per assignment of the two classes to the six digit positions and per sign
    (128) covers every name of the long form, plus one run for the name that is not of the long form (unchanged)."""
    import itertools
    from ..strabs import StrExec, NotInterpreted
    from ..frontend import body_of
    u, f = ctx.fn('cctz::FixedOffsetToAbbr')
    strs = [x for x in walk(f) if x.get('kind') == 'VarDecl' and 'basic_string' in ((dtype(x) or '') + (qtype(x) or '')) or
            x.get('kind') == 'VarDecl' and re.match(r'^(const )?std::string$', qtype(x) or '')]
    strs = [x for x in strs if kids(x) and any(y.get('kind') == 'CallExpr' and callee(y) and callee(y)[0] == 'fn' and
                                                callee(y)[1].get('name') == 'FixedOffsetToName' for y in walk(x))]
    if len(strs) != 1:
        ctx.unknown('C15-abbr', 'abbreviation layouts', f, 'the string FixedOffsetToAbbr edits (initialised from FixedOffsetToName) was not '
                    'found (%d candidates)' % len(strs), construct='abbr-paths')
        return
    var = strs[0]['id']
    try:
        from ..table import one_var
        up, dp = one_var(ctx.P, 'cctz::kFixedZonePrefix')
        lit = [y for y in walk(dp) if y.get('kind') == 'StringLiteral'][0].get('value', '').strip('"')
    except Exception:
        lit = ''
    prefix = [('P%d' % i, 'O', lit[i]) if len(lit) == plen else ('P%d' % i, 'O') for i in range(plen)]
    names = ['h1', 'h2', 'm1', 'm2', 's1', 's2']
    groups = {}
    not_interp = None
    for classes in itertools.product('ZN', repeat=7):
        sign_ch = '+' if classes[6] == 'Z' else '-'
        classes = classes[:6]
        cl = dict(zip(names, classes))
        toks = prefix + [('sign', 'O', sign_ch), ('h1', cl['h1']), ('h2', cl['h2']), (':a', 'O', ':'), ('m1', cl['m1']), ('m2', cl['m2']),
                         (':b', 'O', ':'), ('s1', cl['s1']), ('s2', cl['s2'])]
        s_zero = cl['s1'] == 'Z' and cl['s2'] == 'Z'
        m_zero = cl['m1'] == 'Z' and cl['m2'] == 'Z'
        if s_zero and m_zero:
            want, case = ['sign', 'h1', 'h2'], 'mm == 00 and ss == 00'
        elif s_zero:
            want, case = ['sign', 'h1', 'h2', 'm1', 'm2'], 'ss == 00, mm != 00'
        else:
            want, case = ['sign', 'h1', 'h2', 'm1', 'm2', 's1', 's2'], 'ss != 00'
        try:
            r = StrExec(u, var, toks).run(body_of(f))
        except NotInterpreted as ex:
            not_interp = str(ex)
            break
        got = [t[0] for t in r[1]] if isinstance(r, tuple) and r[0] == 'str' else None
        g_ = groups.setdefault(case, {'want': want, 'n': 0, 'bad': []})
        g_['n'] += 1
        if got != want:
            g_['bad'].append((''.join(classes), got))
    if not_interp is None:
        try:
            toks = [('U', 'O', 'U'), ('T', 'O', 'T'), ('C', 'O', 'C')]
            r = StrExec(u, var, toks).run(body_of(f))
            got = [t[0] for t in r[1]] if isinstance(r, tuple) and r[0] == 'str' else None
            groups['the name is not of the long form'] = {'want': ['U', 'T', 'C'], 'n': 1, 'bad': [] if got == ['U', 'T', 'C'] else [('UTC', got)]}
        except NotInterpreted as ex:
            not_interp = str(ex)
    if not_interp is not None:
        ctx.unknown('C15-abbr', 'abbreviation layouts', f, 'could not follow the edits of the abbreviation string: %s' % not_interp,
                    construct='abbr-paths')
        return
    for case, g_ in sorted(groups.items()):
        want = g_['want']
        b = g_['bad'][0] if g_['bad'] else None
        ctx.check(not g_['bad'], 'C15-abbr', 'abbreviation when %s is %s' % (case, ''.join(_abbr(x) for x in want)), f,
                  'when %s (digit classes hhmmss = %s, Z = the digit 0, N = another digit) the abbreviation is laid out as %s, the '
                  'documented form is %s (seconds are dropped only when zero, minutes only when minutes and seconds are zero)'
                  % (case, b[0] if b else '', ''.join(_abbr(x) for x in (b[1] or [])) if b else '', ''.join(_abbr(x) for x in want)),
                  construct='abbr:%s' % case, detail='%d digit-class assignments executed abstractly' % g_['n'])
    ctx.minimum('C15-abbr', 4)


def _abbr(t):
    return {'sign': '+', 'h1': 'h', 'h2': 'h', 'm1': 'm', 'm2': 'm', 's1': 's', 's2': 's', ':a': ':', ':b': ':', 'P': 'P'}.get(t, 'P' if t.startswith('P') else t if len(t) == 1 else '?')


class _BufObs(Observer):
    def __init__(self):
        self.stores = []

    def store(self, ai, e, ptr, extent, st):
        self.stores.append((e, ptr, extent))


def _check_buf(ctx, u, f, plen):
    """char buf[...] of FixedOffsetToName: by abstract interpretation (helpers inlined) every store lands inside
    the buffer, and the stores cover it exactly from 0 to extent-1 (so the terminator is the last byte)."""
    bufs = [x for x in walk(f) if x.get('kind') == 'VarDecl' and re.search(r'^char\s*\[', dtype(x) or qtype(x))]
    if len(bufs) != 1:
        ctx.bad('C15-buf', 'name buffer', f, 'expected one char buffer, found %d' % len(bufs), construct='buf')
        return
    G = ctx.G
    obs = _BufObs()
    ai = AI(G, obs, auto_unroll=True)
    from ..callgraph import fkey
    res = ai.analyse(fkey(f), St())
    if not res:
        raise AnalysisBroken('C15-buf: FixedOffsetToName could not be analysed')
    mine = [(e, p, ext) for (e, p, ext) in obs.stores if p.target == (bufs[0]['id'],)]
    other = [(e, p, ext) for (e, p, ext) in obs.stores if p.target is None]
    extent = mine[0][2] if mine else None
    covered = set()
    bad = None
    for (e, p, ext) in mine:
        if p.off is None or ext is None or p.off.lo < 0 or p.off.hi >= ext:
            bad = (e, p)
        else:
            covered.update(range(int(p.off.lo), int(p.off.hi) + 1))
    ok = bool(mine) and bad is None and not other and extent is not None and covered == set(range(extent))
    ctx.check(ok, 'C15-buf', 'stores into the %s-byte name buffer land at offsets 0..%s, each inside it' % (
        extent, (max(covered) if covered else '?')), bad[0] if bad else bufs[0],
        'a store into the name buffer is outside it, at an unknown offset, or the buffer is not filled to its last '
        'byte (%d stores, covered %d of %s bytes, %d through unknown pointers)' % (len(mine), len(covered), extent, len(other)),
        construct='buf:toname', detail='prefix + sign + 3x2 digits + 2 colons + NUL')
    ctx.minimum('C15-buf', 1)
