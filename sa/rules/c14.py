"""C14 — results never depend on call history (hints and cache are invisible)."""
import re
from ..frontend import kids, walk, qn, qtype, dtype, pos, ancestors, AnalysisBroken, owner_fn
from ..expr import callee, call_args, peel, Keys
from ..callgraph import fname
from ..effects import var_refs, is_static_storage, extern_calls
from ..state import entries
from ..ptrnorm import PtrNorm, build_env, PtrFlow
from ..facts import has_lower_bound
from ..expr import int_type
from . import loader
from .c20 import is_cache_map

EXPLANATION = (
    'History can only act through state that outlives a call, so the complete inventory of such '
    'state (static-storage variables, mutable members) is taken from the AST and each entry is '
    'shown invisible: immutable tables, init-once singletons, the name cache, a write-only '
    'retirement list, and the atomic lookup hints. For every load of a hint, must-hold branch '
    'facts show that each subscript by it is bounds-checked, that every result derived from it is '
    'dominated by the two-sided bracket T[h-1].k <= x < T[h].k on the same key and query the '
    'fall-back std::upper_bound uses, and a symbolic pointer/index normal form shows the element '
    'selected on the hint path is the one the fall-back selects for the value it stores '
    '(C14-hint). The load-time order checks that make the bracket decisive are present for every '
    'consecutive pair (C14-order). In the loader a cache hit leaves without reaching the data '
    'source and every load outcome, success or failure, is recorded non-null, under the very name the Impl was built for (C14-cache). From '
    'the query entry points no mutable static and no environment/clock call is reachable '
    '(C14-effect). Decides that hidden state is validated before use; not the answers themselves.')
LEVEL = ('Structural proof that every piece of state surviving a call is either immutable, a validated hint, '
         'or a pure name-keyed cache; holds for all call sequences because it quantifies over code paths.')
LEVEL_NOTE = ('Trusts clang 14 AST and sa/; assumes transitions_ is strictly ordered after a successful Load '
              '(the presence of the order checks is verified, their arithmetic is not); strftime/strptime '
              'locale state and libc:* test-only zones are outside the claim.')
TECHNIQUE = 'shared-state inventory + must-hold branch facts (dominance) + symbolic index normal form + call-graph effects'

ENV_CALLS = {'getenv', 'secure_getenv', 'time', 'clock', 'clock_gettime', 'gettimeofday', 'rand', 'random',
             'setlocale', 'localtime', 'gmtime', 'tzset', 'now'}


def run(ctx):
    G = ctx.G
    ents = entries(ctx)

    # ---- C14-inventory
    for e in ents:
        k = e['kind']
        if k in ('immutable', 'init-once', 'mutex', 'link-constant'):
            ctx.ok('C14-inventory', '%s : %s' % (e['qn'], e['type']), e['pos'], k + ': carries no history')
            continue
        if k == 'lock-guarded':
            d = e['decl']
            if is_cache_map(d):
                ctx.ok('C14-inventory', '%s : %s' % (e['qn'], e['type']), e['pos'],
                       'name cache (argued by C14-cache)')
                continue
            # a container that is only ever appended to cannot influence a result
            only_append = bool(e['refs']) and any(_is_append(r['node']) for r in e['refs']) and \
                all(_is_append(r['node']) or _is_lazy_creation(r['node'], d) for r in e['refs'])
            ctx.check(only_append, 'C14-inventory', '%s : %s' % (e['qn'], e['type']), e['pos'],
                      'mutable static state that is read back: results may depend on earlier calls; it needs '
                      'its own invisibility argument', construct='state:%s' % e['qn'],
                      detail='write-only sink (push_back only)')
            continue
        if k in ('atomic', 'atomic-member', 'mutable-member'):
            ctx.ok('C14-inventory', '%s : %s' % (e['qn'], e['type']), e['pos'],
                   k + ': every read is checked by C14-hint')
            continue
        ctx.bad('C14-inventory', '%s : %s' % (e['qn'], e['type']), e['pos'],
                'state that outlives a call and is not immutable, an init-once singleton, the name cache '
                'or a validated hint (%s): answers may depend on call history' % k,
                construct='state:%s' % e['qn'])
    ctx.minimum('C14-inventory', 15)

    # ---- C14-hint
    n_loads = 0
    for k, (u, f) in G.defs.items():
        loads = [x for x in walk(f) if ((x.get('kind') == 'CXXMemberCallExpr' and _is_atomic_load(x)) or
                                       _is_mutable_member_read(u, x)) and owner_fn(x) is f]      # (a lambda is judged as itself)
        for L in loads:
            n_loads += 1
            _check_hint(ctx, k, u, f, L)
    # every other mention of an atomic (or mutable) member: the object of .store()/.load(), an assignment
    # target or a constructor initialiser -- never an implicit conversion or a reference that re-reads it
    n_other = 0
    for k, (u, f) in G.defs.items():
        for x in walk(f):
            if x.get('kind') != 'MemberExpr':
                continue
            d = u.by_id.get(x.get('referencedMemberDecl'))
            if d is None or d.get('kind') != 'FieldDecl' or not ctx.P.inside(d):
                continue
            t = (dtype(d) or '') + ' ' + qtype(d)
            if not (re.search(r'\batomic<', t) or d.get('mutable')):
                continue
            p = x.get('_p')
            while p is not None and p.get('kind') in ('ImplicitCastExpr', 'ParenExpr') and p.get('castKind') != 'LValueToRValue':
                p = p.get('_p')
            okuse = False
            if p is not None and p.get('kind') == 'MemberExpr' and p.get('name') in ('load', 'store'):
                okuse = True
            elif p is not None and p.get('kind') == 'BinaryOperator' and p.get('opcode') == '=' and \
                    any(y is x for y in walk(kids(p)[0])):
                okuse = True
            elif p is not None and p.get('kind') == 'CXXOperatorCallExpr' and callee(p) and callee(p)[0] == 'fn' and \
                    callee(p)[1].get('name') == 'operator=' and any(y is x for y in walk(call_args(p)[0])):
                okuse = True
            elif p is not None and p.get('kind') == 'ImplicitCastExpr' and p.get('castKind') == 'LValueToRValue' and d.get('mutable') \
                    and not re.search(r'\batomic<', t):
                okuse = True     # plain mutable member: the read itself is an instance of the rule above
            elif p is not None and p.get('kind') == 'UnaryOperator' and p.get('opcode') == '&':
                # its address handed to a file-local helper that only loads from / stores to it
                q = p.get('_p')
                while q is not None and q.get('kind') in ('ImplicitCastExpr', 'ParenExpr'):
                    q = q.get('_p')
                if q is not None and q.get('kind') == 'CallExpr' and callee(q) and callee(q)[0] == 'fn' and callee(q)[1].get('_qn'):
                    from ..lock import is_internal
                    from ..frontend import params_of as _pof
                    idx = [i_ for i_, a_ in enumerate(call_args(q)) if any(y is x for y in walk(a_))]
                    for tg in G.resolve_decl(callee(q)[1]):
                        hu, hf = G.defs[tg]
                        if is_internal(hf) and idx and idx[0] < len(_pof(hf)):
                            pid = _pof(hf)[idx[0]]['id']
                            uses_ = [y for y in walk(hf) if y.get('kind') == 'DeclRefExpr' and (y.get('referencedDecl') or {}).get('id') == pid]
                            good_ = True
                            for y in uses_:
                                pp = y.get('_p')
                                while pp is not None and pp.get('kind') in ('ImplicitCastExpr', 'ParenExpr'):
                                    pp = pp.get('_p')
                                if not (pp is not None and pp.get('kind') == 'MemberExpr' and pp.get('name') in ('load', 'store')):
                                    good_ = False
                            okuse = good_ and bool(uses_)
            n_other += 1
            ctx.check(okuse, 'C14-hint', 'mention of %s in %s is a load, a store or an assignment' % (qn(d), fname(k)), x,
                      'the shared hint %s is used here other than through one load bound to a local (an implicit conversion, '
                      'or a reference to it): every such use reads the shared value again, so the test that validates the hint '
                      'and the use of the hint can see two different values when another thread stores in between' % qn(d),
                      construct='hint-mention:%s:%s' % (fname(k), qn(d)), detail='load/store/assignment')
    ctx.minimum('C14-hint', 8)
    if n_loads < 1 and n_other < 1:
        raise AnalysisBroken('C14-hint: no hint load found')

    # ---- C14-order
    _check_order(ctx)

    # ---- C14-cache
    L = loader.analyse(ctx)
    if not L['hits']:
        ctx.bad('C14-cache', 'cache hit edge in %s' % L['fname'], L['fn'],
                'no branch of the loader establishes that the name was found in the cache',
                construct='nohit:%s' % L['fname'])
    for h in L['hits']:
        ctx.check(not h['reaches_load'] and h['locked'], 'C14-cache', 'cache hit edge in %s' % L['fname'], h['node'],
                  'after the name is found in the cache the loader can still reach the data source '
                  '(or the lookup is made without the lock): a repeated load consults the source again',
                  construct='hit-reaches-load:%s' % L['fname'],
                  detail='hit edge leaves the function without reaching the load site')
    for w in L['slot_writes']:
        for arm in w['arms']:
            ctx.check(arm['kind'] in ('fresh', 'utc'), 'C14-cache', 'recorded outcome: %s' % arm['text'], arm['node'],
                      'the value recorded for a loaded name is neither the fresh Impl nor the UTC singleton',
                      construct='outcome:%s:%s' % (L['fname'], arm['kind']), detail=arm['kind'])
    # both outcomes are recorded: over all writes of the slot a fresh and a UTC arm exist, and once the
    # slot has been found absent no path leaves the loader without passing one of the writes
    kinds = set(a['kind'] for w in L['slot_writes'] for a in w['arms'])
    g = ctx.cfg(L['fn'])
    wnodes = [n for w in L['slot_writes'] for n in g.nodes_for(w['node'])]
    leak = False
    for (gn, glab) in _slot_absent_edges(ctx, L, g):
        starts = [m for (m, lab) in gn.succs if lab == glab]
        if loader._reach_from(g, starts, [g.exit] + list(g.returns), cut=wnodes):
            leak = True
    # (the recording may have been moved into a cache helper the loader calls: not followed, no verdict)
    from .c20 import cache_helpers as _ch, call_targets as _call_targets
    H_ = _ch(ctx.G)
    delegated = [x for x in walk(L['fn']) if x.get('kind') in ('CallExpr', 'CXXMemberCallExpr') and callee(x) and callee(x)[0] in ('fn', 'method')
                 and any(t in H_ and 'write' in H_[t]['kinds'] for t in _call_targets(ctx.G, x))]
    no_verdict = not L['slot_writes'] and bool(delegated)
    ctx.check3(None if no_verdict else ('utc' in kinds and 'fresh' in kinds and not leak), 'C14-cache', 'both outcomes recorded in %s' % L['fname'],
              L['slot_writes'][0]['node'] if L['slot_writes'] else L['fn'],
              'the cache does not record both outcomes of a load (success: the new Impl; failure: the UTC '
              'singleton): a name that failed to load is retried, or a loaded one is forgotten',
              construct='outcomes:%s' % L['fname'], detail='success and failure arms present; absent slot always filled',
              unknown_why='the cache slot is written inside a helper the loader calls (%s): which outcomes it records is not followed'
              % (pos(delegated[0]) if delegated else ''))
    # every load site is post-dominated by a slot write  (failure is cached too)
    pdom = g.postdominators()
    for s in L['sites']:
        sn = g.nodes_for(s)
        wn = [n for w in L['slot_writes'] for n in g.nodes_for(w['node'])]
        # the write is conditional on absence; require that the *test of absence* or the write
        # post-dominates: every path from the load reaches a node that reads/writes the slot
        slotrefs = [n for w in L['slot_writes'] for n in g.nodes_for(w['node'])]
        guard_nodes = _slot_guard_nodes(ctx, L, g)
        ok = bool(sn) and all(x.id in pdom and any(t.id in pdom[x.id] for t in guard_nodes + slotrefs) for x in sn)
        if not ok and no_verdict:
            # the helper call that records the outcome post-dominates the load?
            dn = [n for x in delegated for n in g.nodes_for(x)]
            ok = bool(sn) and all(x.id in pdom and any(t.id in pdom[x.id] for t in dn) for x in sn)
        ctx.check(ok, 'C14-cache', 'load outcome recorded in %s' % L['fname'], s,
                  'a path from the load leaves the loader without consulting/recording the cache slot: the '
                  'outcome of that load is forgotten and the source is consulted again next time',
                  construct='unrecorded:%s' % L['fname'], detail='slot test/insert post-dominates the load')
    # ... and an entry is found again only under the name it was built for
    loader.check_cache_key(ctx, 'C14-cache')
    ctx.minimum('C14-cache', 4)

    # ---- C14-effect
    roots = []
    for name in ('cctz::detail::format', 'cctz::detail::parse', 'cctz::TimeZoneInfo::BreakTime',
                 'cctz::TimeZoneInfo::MakeTime', 'cctz::TimeZoneInfo::NextTransition',
                 'cctz::TimeZoneInfo::PrevTransition', 'cctz::time_zone::lookup',
                 'cctz::time_zone::next_transition', 'cctz::time_zone::prev_transition'):
        ks = G.find(name)
        if not ks:
            raise AnalysisBroken('C14-effect: entry point %s not found' % name)
        roots += ks
    reach = G.reachable(roots)
    kinds = {(e['qn'], e['pos']): e for e in ents}
    nref = 0
    for k in sorted(reach):
        u, f = G.defs[k]
        for (i, name, node, w) in var_refs(f):
            d = u.by_id.get(i)
            if d is None or not is_static_storage(d) or not ctx.P.inside(d):
                continue
            e = kinds.get((qn(d), pos(d)))
            nref += 1
            good = e is not None and e['kind'] in ('immutable', 'init-once', 'mutex', 'link-constant')
            ctx.check(good, 'C14-effect', 'static %s used in %s' % (qn(d), fname(k)), node,
                      'a query entry point reaches mutable static state: its answer can depend on earlier calls',
                      construct='static:%s:%s' % (qn(d), fname(k)), detail=e['kind'] if e else '?')
        for (name, site) in extern_calls(G, k):
            base = name.split('::')[-1]
            if base in ENV_CALLS:
                ctx.bad('C14-effect', '%s called in %s' % (name, fname(k)), site,
                        'a query entry point reads the environment/clock: its answer is not a function of its '
                        'arguments and the zone data', construct='env:%s:%s' % (base, fname(k)))
    ctx.ok('C14-effect', '%d functions reachable from the query entry points: no environment/clock call' % len(reach),
           None, 'deny-list: ' + ' '.join(sorted(ENV_CALLS)))
    ctx.assume('strftime/strptime consult the C locale (documented delegation); libc:* zones are internal, test-only')
    ctx.minimum('C14-effect', 10)


# ----------------------------------------------------------------------------


def _is_append(node):
    for a in ancestors(node):
        if a.get('kind') == 'CallExpr' and callee(a) and callee(a)[0] == 'fn' and callee(a)[1].get('name') in ('back_inserter',):
            return True         # std::back_inserter(c): an output iterator that can only push_back
        if a.get('kind') == 'CXXMemberCallExpr':
            c = callee(a)
            return bool(c and c[0] == 'method' and c[1] in ('push_back', 'emplace_back'))
        if a.get('kind') in ('CompoundStmt', 'DeclStmt', 'BinaryOperator', 'ReturnStmt', 'IfStmt'):
            return False
    return False


def _is_lazy_creation(node, d):
    """The reference is part of `if (p == nullptr) p = new T;`: the null test of a pointer that guards nothing but the
    creation of the (empty) object it then points to, or that creation itself."""
    did = d.get('id')

    def fresh_assign(st):
        st = peel(st)
        while st is not None and st.get('kind') in ('CompoundStmt', 'ExprWithCleanups') and len(kids(st)) == 1:
            st = peel(kids(st)[0])
        if st is None or st.get('kind') != 'BinaryOperator' or st.get('opcode') != '=':
            return False
        l, r = peel(kids(st)[0]), peel(kids(st)[1])
        if (l.get('referencedDecl') or {}).get('id') != did or r.get('kind') != 'CXXNewExpr':
            return False
        # new T / new T() / new T{}: nothing carried in
        return not any(y.get('kind') == 'DeclRefExpr' for y in walk(r))
    for a in ancestors(node):
        if a.get('kind') == 'BinaryOperator' and a.get('opcode') == '=':
            return fresh_assign(a) and (peel(kids(a)[0]) is node or any(y is node for y in walk(kids(a)[0])))
        if a.get('kind') == 'IfStmt':
            ks = kids(a)
            cond = ks[0]
            if not any(y is node for y in walk(cond)) or len(ks) != 2:
                return False
            c = peel(cond)
            isnull = False
            if c.get('kind') == 'BinaryOperator' and c.get('opcode') == '==':
                o = [peel(k_) for k_ in kids(c)]
                isnull = any((x_.get('referencedDecl') or {}).get('id') == did for x_ in o) and \
                    any(x_.get('kind') in ('CXXNullPtrLiteralExpr', 'GNUNullExpr') or (x_.get('kind') == 'IntegerLiteral' and x_.get('value') == '0') for x_ in o)
            elif c.get('kind') == 'UnaryOperator' and c.get('opcode') == '!':
                isnull = (peel(kids(c)[0]).get('referencedDecl') or {}).get('id') == did
            return isnull and fresh_assign(ks[1])
        if a.get('kind') in ('CompoundStmt', 'DeclStmt', 'ReturnStmt', 'CallExpr', 'CXXMemberCallExpr'):
            return False
    return False


def _is_atomic_load(x):
    c = callee(x)
    if not (c and c[0] == 'method' and c[1] == 'load' and c[2] is not None):
        return False
    o = peel(c[2])
    return bool(re.search(r'\batomic<|__atomic_base<', (dtype(o) or '') + ' ' + qtype(o)))


def _is_mutable_member_read(u, x):
    """An rvalue read of a `mutable` data member (a hint kept in a plain member)."""
    if x.get('kind') != 'ImplicitCastExpr' or x.get('castKind') != 'LValueToRValue':
        return False
    m = peel(x)
    if m is None or m.get('kind') != 'MemberExpr':
        return False
    d = u.by_id.get(m.get('referencedMemberDecl'))
    return bool(d is not None and d.get('kind') == 'FieldDecl' and d.get('mutable'))


def _hint_object(L):
    if L.get('kind') == 'CXXMemberCallExpr':
        return callee(L)[2]
    return peel(L)


def _hint_stores(u, f):
    """[(store node, object expr, value expr)] for atomic .store(v) and plain `member = v`
    on mutable members."""
    out = []
    for x in walk(f):
        if owner_fn(x) is not f:
            continue
        if x.get('kind') == 'CXXMemberCallExpr' and callee(x) and callee(x)[1] == 'store' and callee(x)[2] is not None \
                and re.search(r'atomic', qtype(peel(callee(x)[2])) + dtype(peel(callee(x)[2]))):
            if call_args(x):
                out.append((x, callee(x)[2], call_args(x)[0]))
        elif x.get('kind') == 'BinaryOperator' and x.get('opcode') == '=':
            m = peel(kids(x)[0])
            if m.get('kind') == 'MemberExpr':
                d = u.by_id.get(m.get('referencedMemberDecl'))
                if d is not None and d.get('mutable'):
                    out.append((x, kids(x)[0], kids(x)[1]))
        elif x.get('kind') == 'CXXOperatorCallExpr' and callee(x) and callee(x)[0] == 'fn' and \
                callee(x)[1].get('name') == 'operator=' and len(call_args(x)) == 2 and \
                re.search(r'atomic', qtype(peel(call_args(x)[0])) + dtype(peel(call_args(x)[0]))):
            out.append((x, call_args(x)[0], call_args(x)[1]))
    return out


def _record_fields(u, name):
    for d in u.by_id.values():
        if d.get('kind') == 'CXXRecordDecl' and d.get('completeDefinition') and qn(d) == name:
            return [c.get('name') for c in kids(d) if c.get('kind') == 'FieldDecl']
    return None


def _comparator_field(ctx, cmp_expr):
    t = (dtype(cmp_expr) or qtype(cmp_expr)).replace('const ', '').strip()
    cands = [k for k in ctx.G.defs if k[0].endswith('::operator()') and
             (k[0][:-len('::operator()')].endswith(t) or t.endswith(k[0][:-len('::operator()')].split('cctz::')[-1]))]
    if len(cands) != 1:
        return None
    u, f = ctx.G.defs[cands[0]]
    rets = [x for x in walk(f) if x.get('kind') == 'ReturnStmt']
    if len(rets) != 1:
        return None
    e = peel(kids(rets[0])[0])
    if e.get('kind') == 'BinaryOperator' and e.get('opcode') == '<':
        a, b = kids(e)
    elif e.get('kind') == 'CXXOperatorCallExpr' and callee(e) and callee(e)[1].get('name') == 'operator<':
        a, b = call_args(e)
    else:
        return None
    a, b = peel(a), peel(b)
    if a.get('kind') == 'MemberExpr' and b.get('kind') == 'MemberExpr' and a.get('name') == b.get('name'):
        pa = peel(kids(a)[0]).get('referencedDecl', {}).get('name')
        pb = peel(kids(b)[0]).get('referencedDecl', {}).get('name')
        params = [p.get('name') for p in kids(f) if p.get('kind') == 'ParmVarDecl']
        if [pa, pb] == params[:2]:
            return a.get('name')
    return None


def _check_hint(ctx, k, u, f, L):
    F = ctx.facts(f)
    keys = F.keys
    g = ctx.cfg(f)
    fn = fname(k)
    atom = keys.key(_hint_object(L))
    # the load must initialise a local that is never written again
    H = None
    for a in ancestors(L):
        if a.get('kind') == 'VarDecl':
            H = a
            break
        if a.get('kind') not in ('ImplicitCastExpr', 'ParenExpr', 'CXXStaticCastExpr', 'ExprWithCleanups'):
            break
    if H is None or H['id'] not in F.never_written:
        ctx.bad('C14-hint', 'load of %s in %s' % (atom, fn), L,
                'the remembered index is not bound to a write-once local: its uses cannot be tied to one '
                'validated value', construct='hint-form:%s:%s' % (fn, atom))
        return
    Hk = keys.subst.get(H['id'], '%s#%s' % (H.get('name'), H['id']))
    env = build_env(f, keys, F.never_written)
    # the hint and every pointer/reference local derived from it
    derived = {H['id']}
    alias_decls = {}
    for x in walk(f):
        if x.get('kind') == 'VarDecl' and x.get('id') in env and Hk in env[x['id']][2]:
            derived.add(x['id'])
            alias_decls[x['id']] = x
    uses = [x for x in walk(f) if x.get('kind') == 'DeclRefExpr' and
            (x.get('referencedDecl') or {}).get('id') in derived]
    pn = PtrNorm(keys, env)
    unsigned = (int_type(dtype(H)) or (64, True))[1] is False
    container = None
    result_uses = []
    for use in uses:
        nodes = g.nodes_for(use)
        if not nodes:
            continue
        fs = F.facts_at_ast(use) or frozenset()
        # what is indexed with it?
        sub = None
        for a in ancestors(use):
            if a.get('kind') in ('CXXOperatorCallExpr', 'ArraySubscriptExpr'):
                r = pn.norm(a)
                if r is not None and r[0] == 'elem':
                    sub = (a, r)
                    break
            if a.get('kind') == 'BinaryOperator' and a.get('opcode') in ('+', '-'):
                r = pn.norm(a)
                if r is not None and r[0] == 'ptr' and Hk in r[2]:
                    sub = (a, r)
                    break
            if a.get('kind') in ('CompoundStmt', 'IfStmt', 'ReturnStmt', 'DeclStmt'):
                break
        if sub is not None:
            a, r = sub
            C = r[1]
            lin = r[2]
            idx_ok = lin in ({Hk: 1}, {Hk: 1, '': -1})
            size = '%s.size()' % C
            lo = has_lower_bound(fs, Hk, 1, unsigned)
            size_keys = set([size])
            for d_ in walk(f):
                if d_.get('kind') == 'VarDecl' and kids(d_) and d_['id'] in F.never_written and int_type(dtype(d_) or ''):
                    r_ = pn.norm(kids(d_)[-1])       # (a local holding end - begin over the whole table)
                    if r_ is not None and r_[0] == 'int' and r_[2] == {size: 1}:
                        size_keys |= set(['%s#%s' % (d_.get('name'), d_['id']), keys.key(kids(d_)[-1]),
                                          keys.subst.get(d_['id'], '')])

            def _is_size(k_):
                return k_ in size_keys
            hi = any(op == '<' and x1 == Hk and _is_size(x2) for (op, x1, x2) in fs)
            container = container or C
            ctx.check(idx_ok and lo and hi, 'C14-hint', '(i) %s[%s] in %s' % (C, _lin(lin), fn), a,
                      'the table is indexed by the remembered value without 0 < h and h < size() holding on '
                      'every path: a stale or foreign hint indexes out of bounds or selects an unvalidated entry',
                      construct='hint-bounds:%s:%s' % (fn, _lin(lin)),
                      detail='0 < h (%s), h < %s (%s)' % (lo, size, hi))
        if all(n.kind == 'stmt' for n in nodes) and not any(n.ast is H or (
                n.ast.get('kind') == 'VarDecl' and n.ast.get('id') in alias_decls) for n in nodes):
            result_uses.append((use, sub))
        elif sub is None and any(n.kind == 'cond' for n in nodes):
            # plain comparison of the hint (bounds test) - allowed
            pass
    if container is None:
        ctx.bad('C14-hint', 'load of %s in %s' % (atom, fn), L,
                'no table is indexed by the remembered value: the rule cannot tie it to the transition table',
                construct='hint-form:%s:%s' % (fn, atom))
        return
    # fall-back search in the same function
    ub = [x for x in walk(f) if x.get('kind') == 'CallExpr' and callee(x) and callee(x)[0] == 'fn'
          and callee(x)[1].get('name') == 'upper_bound']
    if len(ub) != 1:
        ctx.bad('C14-hint', 'fall-back search in %s' % fn, f,
                'exactly one std::upper_bound fall-back expected next to the hint', construct='hint-fallback:%s' % fn)
        return
    ub = ub[0]
    ua = call_args(ub)
    Kcmp = _comparator_field(ctx, ua[3]) if len(ua) == 4 else None
    Xcmp = None
    if Kcmp and len(ua) == 4:
        td = u.by_id.get((peel(ua[2]).get('referencedDecl') or {}).get('id'))
        if td is not None:
            ini = [c for c in kids(td)]
            il = peel(ini[-1]) if ini else None
            rec = re.sub(r'^const\s+', '', qtype(td)).strip()
            fields = _record_fields(u, rec)
            if il is not None and il.get('kind') == 'InitListExpr' and fields and Kcmp in fields:
                els = kids(il)
                if len(els) == len(fields):
                    Xcmp = keys.key(els[fields.index(Kcmp)])
    # (ii)+(iii): bracket on every result use
    lo_p = '%s[(%s - n:1)].' % (container, Hk)
    hi_p = '%s[%s].' % (container, Hk)
    for (use, sub) in result_uses:
        fs = F.facts_at_ast(use) or frozenset()
        br = None
        for (op, a1, b1) in fs:
            if op == '<=' and a1.startswith(lo_p):
                K = a1[len(lo_p):]
                if ('<', b1, hi_p + K) in fs:
                    br = (K, b1)
        ctx.check(br is not None, 'C14-hint', '(ii) result derived from hint in %s' % fn, use,
                  'a result is derived from the remembered index without the two-sided bracket '
                  'T[h-1].k <= x < T[h].k holding on every path to it: the answer depends on what an earlier '
                  'call left in the hint', construct='hint-bracket:%s' % fn,
                  detail='bracket on key %s, query %s' % (br or ('-', '-')))
        if br is not None:
            ctx.check(Kcmp is not None and br[0] == Kcmp and br[1] == Xcmp, 'C14-hint',
                      '(iii) bracket key/query = fall-back comparator key/query in %s' % fn, use,
                      'the bracket validates the hint on key %s / query %s but the fall-back search orders by '
                      '%s / %s: a hint accepted by the bracket can select a different entry than the search'
                      % (br[0], br[1], Kcmp, Xcmp), construct='hint-key:%s' % fn,
                      detail='%s, %s' % (Kcmp, Xcmp))
    if not result_uses:
        ctx.bad('C14-hint', 'load of %s in %s' % (atom, fn), L, 'the loaded hint is never used for a result',
                construct='hint-form:%s:%s' % (fn, atom))
    # (iv)+(v): element selected on the hint path = element the fall-back selects for the stored value
    ubvar = None
    for a in ancestors(ub):
        if a.get('kind') == 'VarDecl':
            ubvar = a['id']
            break
        if a.get('kind') == 'BinaryOperator' and a.get('opcode') == '=':
            ubvar = (peel(kids(a)[0]).get('referencedDecl') or {}).get('id')
            break
    base = pn.norm(ua[0]) if ua else None
    if ubvar is None or base is None or base[0] != 'ptr' or base[2] != {}:
        ctx.bad('C14-hint', '(iv) fall-back result in %s' % fn, ub,
                'the fall-back search result is not bound to a pointer over the table from its first element',
                construct='hint-select:%s' % fn)
        return
    env2 = dict(env)
    ubd = u.by_id.get(ubvar)
    ub_direct = True
    if ubd is not None and ubd.get('kind') == 'VarDecl' and kids(ubd):
        x_ = peel(kids(ubd)[-1])
        ub_direct = x_ is ub or x_ is peel(ub)
    if ub_direct:
        env2[ubvar] = ('ptr', base[1], {'U': 1})     # (otherwise the local holds something computed from the result: followed by PtrFlow)
    pf = PtrNorm(keys, env2)
    flow = PtrFlow(g, keys, F.never_written, seed_calls=[(ub, ('ptr', base[1], {'U': 1}))])
    st_ok = False
    for (snode, sobj, sval) in _hint_stores(u, f):
        # (an index local written once stands for what it was initialised from)
        for _ in range(3):
            ps_ = peel(sval)
            if ps_ is not None and ps_.get('kind') == 'DeclRefExpr' and (ps_.get('referencedDecl') or {}).get('id') in F.never_written:
                dd_ = u.by_id.get(ps_['referencedDecl']['id'])
                if dd_ is not None and dd_.get('kind') == 'VarDecl' and kids(dd_) and not (dtype(dd_) or '').rstrip().endswith('*'):
                    sval = kids(dd_)[-1]
                    continue
            break
        v = flow.norm_at_ast(sval)
        ok = v is not None and v[0] == 'int' and v[2] == {'U': 1}
        st_ok = st_ok or ok
        ctx.check3(None if v is None else ok, 'C14-hint', '(v) value stored in %s in %s' % (keys.key(sobj), fn), snode,
                   'the value remembered is not the index of the fall-back search result relative to the first '
                   'table entry', construct='hint-store:%s' % fn, detail=str(v[2] if v else None),
                   unknown_why='the value stored as the hint could not be related to the search result')
    # selected element: hint path vs fall-back
    for (use, sub) in result_uses:
        sel_h = None
        sink = None
        sink_node = None
        for a in ancestors(use):
            if a.get('kind') == 'ReturnStmt' and kids(a) and PtrNorm(keys, env).norm(kids(a)[0]) is not None and \
                    PtrNorm(keys, env).norm(kids(a)[0])[0] == 'ptr':
                sel_h = PtrNorm(keys, env).norm(kids(a)[0])      # the position itself is handed back to the caller
                sink = ('return',)
                break
            if a.get('kind') == 'BinaryOperator' and a.get('opcode') == '=':
                tgt = (peel(kids(a)[0]).get('referencedDecl') or {}).get('id')
                sel_h = PtrNorm(keys, env).norm(kids(a)[1])
                sink = ('assign', tgt)
                break
            if a.get('kind') in ('CXXMemberCallExpr', 'CallExpr') and a.get('_p', {}).get('kind') in (
                    'ReturnStmt', 'ExprWithCleanups', 'ImplicitCastExpr', 'CXXConstructExpr', 'MaterializeTemporaryExpr'):
                args = call_args(a)
                for j, ar in enumerate(args):
                    if any(y is use for y in walk(ar)):
                        sel_h = PtrNorm(keys, env).norm(ar)
                        sink_node = a
                        sink = ('call', keys.key(kids(a)[0]) if a.get('kind') == 'CXXMemberCallExpr' else qn(callee(a)[1]), j,
                                [keys.key(x) for jj, x in enumerate(args) if jj != j])
                        break
                break
        sel_f = None
        role_h = _role(sink_node) if sink_node is not None else None
        role_f = None
        if sink and sink[0] == 'return':
            for x in walk(f):
                if x.get('kind') == 'ReturnStmt' and kids(x) and not any(y is use for y in walk(x)) and \
                        any(y.get('kind') == 'DeclRefExpr' and (y.get('referencedDecl') or {}).get('id') == ubvar for y in walk(x)):
                    sel_f = flow.norm_at_ast(kids(x)[0])
        elif sink and sink[0] == 'assign':
            if sink[1] == ubvar:
                sel_f = ('ptr', base[1], {'U': 1})
        elif sink and sink[0] == 'call':
            for x in walk(f):
                if x.get('kind') in ('CXXMemberCallExpr', 'CallExpr') and not any(y is use for y in walk(x)):
                    nm = keys.key(kids(x)[0]) if x.get('kind') == 'CXXMemberCallExpr' else (
                        qn(callee(x)[1]) if callee(x) and callee(x)[0] == 'fn' else None)
                    args = call_args(x)
                    if nm == sink[1] and len(args) > sink[2] and \
                            [keys.key(a2) for jj, a2 in enumerate(args) if jj != sink[2]] == sink[3]:
                        if any(y.get('kind') == 'DeclRefExpr' and (y.get('referencedDecl') or {}).get('id') == ubvar
                               for y in walk(args[sink[2]])):
                            sel_f = flow.norm_at_ast(args[sink[2]])
                            role_f = _role(x)
        same = sel_h is not None and sel_f is not None and sel_h[0] == sel_f[0] and sel_h[1] == sel_f[1] and \
            _subst(sel_h[2], Hk, 'U') == sel_f[2]
        if sink and sink[0] == 'call':
            ctx.check(role_h == role_f and role_h is not None, 'C14-hint',
                      '(vi) hint path and search path use the selected entry in the same way in %s' % fn, use,
                      'the result built from the entry found by the search is post-processed (%s) while the result built from '
                      'the remembered entry is not (%s): the answer depends on whether an earlier call left a matching hint'
                      % (role_f, role_h), construct='hint-role:%s' % fn, detail='%s / %s' % (role_h, role_f))
        ctx.check3(None if (sel_h is None or sel_f is None) else (same and st_ok), 'C14-hint',
                   '(iv) element selected via hint = element selected by search in %s' % fn, use,
                  'with h the remembered search result, the hint path selects %s but the fall-back selects %s: '
                  'the answer differs depending on whether an earlier call left a matching hint'
                   % (_fmt(sel_h, Hk), _fmt(sel_f, 'U')), construct='hint-select:%s' % fn,
                   detail='%s == %s' % (_fmt(sel_h, Hk), _fmt(sel_f, 'U')),
                   unknown_why='the entry selected on the hint path / by the fall-back search is not of a recognised form (%s / %s)'
                   % (_fmt(sel_h, Hk), _fmt(sel_f, 'U')))


def _role(call):
    """How the value of a call is consumed: 'return' (directly returned) or 'var' (bound to a local first)."""
    for a in ancestors(call):
        k = a.get('kind')
        if k == 'ReturnStmt':
            return 'return'
        if k == 'VarDecl':
            return 'var'
        if k == 'BinaryOperator' and a.get('opcode') == '=':
            return 'var'
        if k in ('CompoundStmt', 'IfStmt', 'ForStmt', 'WhileStmt'):
            return 'statement'
    return None


def _subst(lin, a, b):
    r = {}
    for k, v in lin.items():
        r[b if k == a else k] = v
    return r


def _lin(lin):
    s = ''
    for k, v in sorted(lin.items(), key=lambda kv: kv[0] == ''):
        if k == '':
            s += '%+d' % v
        else:
            s += ('' if v == 1 else '%d*' % v) + k.split('#')[0]
    return s or '0'


def _fmt(r, sym):
    if r is None:
        return '(unrecognised)'
    return '%s %s[%s]' % (r[0], r[1], _lin(r[2]).replace(sym.split('#')[0], 'h'))


def _slot_guard_nodes(ctx, L, g):
    """cond nodes that test the cache slot for absence (they post-dominate the load
    together with the conditional insert)."""
    out = []
    for (n, lab) in _slot_absent_edges(ctx, L, g):
        if not any(n is m for m in out):
            out.append(n)
    return out


def _slot_absent_edges(ctx, L, g):
    """(cond node, label) of the edges on which the cache slot is known to be null."""
    F = ctx.facts(L['fn'])
    out = []
    slotkeys = set()
    for w in L['slot_writes']:
        if w['node'].get('kind') == 'BinaryOperator':
            slotkeys.add(F.keys.key(kids(w['node'])[0]))
    for n in g.live:
        if n.kind == 'cond':
            for lab in ('T', 'F'):
                for (op, a, b) in F.cond_facts(n.ast, lab == 'T'):
                    if op == '==' and ((a in slotkeys and b == 'null') or (b in slotkeys and a == 'null')):
                        out.append((n, lab))
    return out


def _carried_previous(u, f, g, F, n, ea, eb):
    """The comparison cmp(*prev, cur) inside a loop over a whole container, where cur is the loop's current element and prev
    a pointer local that is null before the loop and set to &cur as the last thing every iteration does: every consecutive
    pair is compared.  Returns dict(container, loop) or None."""
    keys = F.keys
    loop = None
    for an in ancestors(n.ast):
        if an.get('kind') in ('CXXForRangeStmt',):
            loop = an
            break
    if loop is None:
        return None
    # the range and the loop variable
    lv = [x for x in kids(loop) if x.get('kind') == 'DeclStmt']
    var = None
    rng = None
    for ds in lv:
        for d in kids(ds):
            if d.get('kind') == 'VarDecl' and (d.get('name') or '').startswith('__range') and kids(d):
                rng = keys.key(kids(d)[-1])
            elif d.get('kind') == 'VarDecl' and not (d.get('name') or '').startswith('__') and '&' in (qtype(d) or ''):
                var = d
    if var is None or rng is None:
        return None
    pb = peel(eb)
    if not (pb.get('kind') == 'DeclRefExpr' and (pb.get('referencedDecl') or {}).get('id') == var['id']):
        return None
    pa = peel(ea)
    if not (pa.get('kind') == 'UnaryOperator' and pa.get('opcode') == '*' and peel(kids(pa)[0]).get('kind') == 'DeclRefExpr'):
        return None
    pid = (peel(kids(pa)[0]).get('referencedDecl') or {}).get('id')
    pd = u.by_id.get(pid)
    if pd is None or pd.get('kind') != 'VarDecl' or not kids(pd) or any(an is loop for an in ancestors(pd)):
        return None
    if keys.key(kids(pd)[-1]) != 'null':
        return None
    pk = '%s#%s' % (pd.get('name'), pid)
    # only  prev != nullptr  conditions the comparison within the iteration
    fs = F.facts_at(n)
    if not any(op == '!=' and set((a_, b_)) == set((pk, 'null')) for (op, a_, b_) in fs):
        return None
    ws = [y for y in walk(f) if y.get('kind') == 'BinaryOperator' and y.get('opcode') == '=' and
          (peel(kids(y)[0]).get('referencedDecl') or {}).get('id') == pid]
    if len(ws) != 1 or keys.key(kids(ws[0])[1]) != '&(%s#%s)' % (var.get('name'), var['id']):
        return None
    body = kids(loop)[-1]
    if body.get('kind') != 'CompoundStmt' or not kids(body):
        return None
    tops = kids(body)
    upd_i = [i for i, s_ in enumerate(tops) if s_ is ws[0]]
    chk_i = [i for i, s_ in enumerate(tops) if any(y is n.ast for y in walk(s_))]
    if not upd_i or not chk_i or upd_i[0] <= chk_i[0]:
        return None             # the update is an unconditional statement of the body, after the comparison ...
    if any(y.get('kind') in ('ContinueStmt', 'GotoStmt') for y in walk(body)):
        return None             # ... and nothing skips it
    # the comparison is reached in every iteration except through the null test: it sits at the top level of the body
    top = [s_ for s_ in kids(body) if any(y is n.ast for y in walk(s_))]
    if not top or top[0].get('kind') != 'IfStmt':
        return None
    cond_ = kids(top[0])[0]
    conj = []
    stack = [cond_]
    while stack:
        c_ = peel(stack.pop())
        if c_.get('kind') == 'BinaryOperator' and c_.get('opcode') == '&&':
            stack.extend(kids(c_))
        else:
            conj.append(c_)
    others = [c_ for c_ in conj if not any(y is n.ast or y is peel(n.ast) for y in walk(c_)) and
              not (keys.key(c_) in ('(%s != null)' % pk, '(null != %s)' % pk, pk))]
    if others:
        return None
    return dict(container=rng.lstrip('*').strip('()') if rng.startswith('*') else rng, loop=loop)


def _check_order(ctx):
    """C14-order: in the loader of zone data every consecutive pair of table entries is
    compared with the strict order the bracket relies on, with a failing exit."""
    G = ctx.G
    k = G.one('cctz::TimeZoneInfo::Load', 'ZoneInfoSource')
    u, f = G.defs[k]
    F = ctx.facts(f)
    g = ctx.cfg(f)
    keys = F.keys
    found = {}
    for n in g.live:
        if n.kind != 'cond' or n.ast is None:
            continue
        x = peel(n.ast)
        if x.get('kind') != 'CXXOperatorCallExpr':
            continue
        c = callee(x)
        if not (c and c[0] == 'fn' and c[1].get('name') == 'operator()'):
            continue
        args = call_args(x)
        if len(args) != 3:
            continue
        cmpf = _comparator_field(ctx, args[0])
        if cmpf is None:
            continue
        pn = PtrNorm(keys, build_env(f, keys, F.never_written))
        a = pn.norm(args[1])
        b = pn.norm(args[2])
        # the loop that contains the check
        loop = None
        for an in ancestors(n.ast):
            if an.get('kind') in ('ForStmt', 'WhileStmt'):
                loop = an
                break
        consecutive = a is not None and b is not None and a[0] == b[0] == 'elem' and a[1] == b[1] and \
            _diff(b[2], a[2]) == {'': 1} and len([s for s in b[2] if s]) == 1
        # false edge leaves with failure
        fail = False
        for (m, lab) in n.succs:
            if lab == 'F':
                fail = _leads_to_return_false(g, m, keys)
        ivar = [s for s in (b[2] if b else {}) if s][0] if consecutive else None
        covers = False
        if loop is not None and consecutive and ivar:
            covers = _loop_covers(ctx, g, F, loop, n, ivar, a[1])
        carried = None
        if a is None or b is None or not consecutive:
            carried = _carried_previous(u, f, g, F, n, args[1], args[2])
        if carried:
            found[cmpf] = dict(node=n.ast, consecutive=True, fail=fail, covers=True, container=carried['container'], loop=carried['loop'],
                               unnormalised=False)
            continue
        found[cmpf] = dict(node=n.ast, consecutive=consecutive, fail=fail, covers=covers, container=a[1] if a else None, loop=loop,
                           unnormalised=(a is None or b is None))
    for fld, what in (('unix_time', 'instants'), ('civil_sec', 'civil seconds')):
        d = found.get(fld)
        if d is None:
            ctx.bad('C14-order', 'strict order of %s checked at load' % what, f,
                    'no comparison of consecutive table entries by %s with a failing exit: the hint bracket and the '
                    'binary search are only decisive on a strictly ordered table' % fld, construct='order:%s' % fld)
            continue
        ctx.check3(None if d.get('unnormalised') else (d['consecutive'] and d['fail'] and d['covers']), 'C14-order',
                  'strict order of %s checked at load' % what, d['node'],
                  'the order check does not compare every consecutive pair T[i-1], T[i] of the whole table with a '
                  'failing exit (consecutive=%s, failing exit=%s, covers all i=%s)' % (d['consecutive'], d['fail'], d['covers']),
                  construct='order:%s' % fld, detail='every i != 0 in [0, size) compared, false -> return false')
    # the civil-order loop runs after the last insertion into the table
    d = found.get('civil_sec')
    if d is not None and d['loop'] is not None:
        loopn = [n for n in g.live if n.kind == 'loop' and n.ast is d['loop']]
        late = []
        if loopn:
            seen = set()
            stack = [m for (m, _) in loopn[0].succs]
            while stack:
                n = stack.pop()
                if n.id in seen:
                    continue
                seen.add(n.id)
                stack.extend(m for (m, _) in n.succs)
            for n in g.live:
                if n.id in seen and n.kind in ('stmt', 'cond') and n.ast is not None and \
                        not any(an is d['loop'] for an in ancestors(n.ast)):
                    for x in walk(n.ast):
                        if x.get('kind') == 'CXXMemberCallExpr':
                            c = callee(x)
                            if c and c[0] == 'method' and c[1] in ('emplace', 'emplace_back', 'push_back', 'insert', 'resize') \
                                    and c[2] is not None and keys.key(c[2]) == d['container']:
                                late.append(x)
                        if x.get('kind') in ('CXXMemberCallExpr', 'CallExpr'):
                            c = callee(x)
                            if c and c[0] == 'method' and c[1] in ('ExtendTransitions',):
                                late.append(x)
        ctx.check(not late, 'C14-order', 'civil-order check runs after the last insertion', d['node'],
                  'entries are added to the table after the civil-order check: they are never validated',
                  construct='order-late', detail='no insertion into %s after the loop' % d['container'])
    ctx.minimum('C14-order', 3)


def _diff(a, b):
    r = dict(a)
    for k, v in b.items():
        r[k] = r.get(k, 0) - v
    return {k: v for k, v in r.items() if v != 0}


def _leads_to_return_false(g, n, keys):
    seen = set()
    while n is not None and n.id not in seen:
        seen.add(n.id)
        if n.kind == 'stmt' and n.ast is not None and n.ast.get('kind') == 'ReturnStmt':
            ks = kids(n.ast)
            return bool(ks) and keys.key(ks[0]) == 'n:0'
        if n.kind in ('join',) and len(n.succs) == 1:
            n = n.succs[0][0]
            continue
        if n.kind == 'stmt' and len(n.succs) == 1 and n.ast.get('kind') not in ('BreakStmt', 'ContinueStmt'):
            n = n.succs[0][0]
            continue
        return False
    return False


def _loop_covers(ctx, g, F, loop, check_node, ivar, container):
    """for (i = 0; i != N; ++i) with N the size of the container (or the count it was
    resized to); every iteration with i != 0 passes through check_node."""
    parts = loop.get('inner', [])
    if loop.get('kind') != 'ForStmt' or len(parts) < 5:
        return False
    init, cond, inc = parts[0], parts[2], parts[3]
    keys = F.keys
    # init: i = 0
    okinit = False
    for x in walk(init) if isinstance(init, dict) and 'kind' in init else ():
        if x.get('kind') == 'VarDecl' and '%s#%s' % (x.get('name'), x.get('id')) == ivar:
            ini = kids(x)
            okinit = bool(ini) and keys.key(ini[-1]) in ('n:0', 'n:1')      # (from 1: the first entry has no predecessor)
    c = peel(cond) if isinstance(cond, dict) and 'kind' in cond else None
    okcond = False
    if c is not None and c.get('kind') == 'BinaryOperator' and c.get('opcode') in ('!=', '<'):
        a, b = kids(c)
        if keys.key(a) == ivar:
            bound = keys.key(b)
            if bound == '%s.size()' % container:
                okcond = True
            else:
                # bound is the count the container was resized to before the loop
                for x in walk(g.fn):
                    if x.get('kind') == 'CXXMemberCallExpr':
                        cc = callee(x)
                        if cc and cc[0] == 'method' and cc[1] == 'resize' and keys.key(cc[2]) == container \
                                and call_args(x) and keys.key(call_args(x)[0]) == bound:
                            okcond = True
    i = peel(inc) if isinstance(inc, dict) and 'kind' in inc else None
    okinc = i is not None and i.get('kind') == 'UnaryOperator' and i.get('opcode') == '++' and \
        keys.key(kids(i)[0]) == ivar
    if not (okinit and okcond and okinc):
        return False
    # inside the body: from the body start, the back edge must not be reachable without
    # passing the check or an edge on which i == 0
    head = [n for n in g.live if n.kind == 'loop' and n.ast is loop]
    if not head:
        return False
    head = head[0]
    cut_edges = set()
    for n in g.live:
        if n.kind == 'cond':
            for lab in ('T', 'F'):
                for (op, a, b) in F.cond_facts(n.ast, lab == 'T'):
                    if op == '==' and set((a, b)) == set((ivar, 'n:0')):
                        cut_edges.add((n.id, lab))
    # body start = T successor chain of the loop condition
    condn = [n for n in g.live if n.kind == 'cond' and n.ast is not None and peel(n.ast) is c]
    if not condn:
        return False
    starts = [m for (m, l) in condn[0].succs if l == 'T']
    seen = set()
    stack = list(starts)
    while stack:
        n = stack.pop()
        if n.id in seen or n is check_node:
            continue
        seen.add(n.id)
        if n is head:
            return False
        for (m, l) in n.succs:
            if (n.id, l if not isinstance(l, tuple) else 'case') in cut_edges:
                continue
            stack.append(m)
    return True
