"""C06 — convert(civil, zone) preserves order (shape clauses)."""
import re
from ..frontend import kids, walk, qn, qtype, dtype, pos, ancestors, AnalysisBroken, params_of
from ..expr import callee, call_args, peel, Keys
from ..table import enum_decl
from . import c10

EXPLANATION = (
    'Only the clauses of C06 whose truth is in the shape of the code are decided. C06-convert: in '
    'convert(civil_second, time_zone) every return reached with kind == SKIPPED established yields the trans field of '
    'the lookup, and every other return yields its pre field, both read from the one lookup of the argument (inside a '
    'gap pre runs ahead of the instants that follow the gap, so any other choice for SKIPPED breaks the order; outside '
    'gaps pre is what makes equal civil seconds map to the earlier instant). C06-clamp: the saturation guards of '
    'MakeTime/TimeLocal (rule of C10-saturate), without which the ends of the range wrap instead of staying ordered. '
    'Does not decide monotonicity of the zone arithmetic itself (MakeSkipped/MakeRepeated on runtime tables, the '
    'seam to rule-generated transitions, the 400-year shift): those quantify over zone data.')
LEVEL = ('Dominance proof of which field convert() selects in each case, and of the saturation guards: necessary conditions '
         'of order preservation, decided for every input; the rest of C06 is arithmetic on runtime zone data.')
LEVEL_NOTE = 'Trusts clang 14 AST and sa/; the lookup itself is C02 (in part) and C14-hint.'
TECHNIQUE = 'must-hold branch facts (dominance) over the CFG of convert(); shared saturation rule'


def run(ctx):
    G = ctx.G
    ks = [k for k in G.defs if k[0] == 'cctz::convert' and len(k[1]) == 2 and 'civil' in k[1][0]]
    if len(ks) != 1:
        raise AnalysisBroken('C06-convert: convert(civil_second, time_zone) not found (%d)' % len(ks))
    u, f = G.defs[ks[0]]
    uu, d, names, vals = enum_decl(ctx.P, 'cctz::time_zone::civil_lookup::civil_kind')
    if 'SKIPPED' not in names:
        raise AnalysisBroken('C06-convert: enumerator SKIPPED not found')
    SK = 'n:%d' % vals[names.index('SKIPPED')]
    F = ctx.facts(f)
    g = ctx.cfg(f)
    ps = params_of(f)
    csk, tzk = ['%s#%s' % (p['name'], p['id']) for p in ps]
    n_sk = n_other = 0
    for rn in g.returns:
        if not kids(rn.ast):
            continue
        base = list(F.facts_at(rn))
        for (fs0, arm) in F.value_cases(kids(rn.ast)[0]):
            fs = frozenset(base + list(fs0))
            rk = F.ident_key(arm)
            # resolve  cl#id.field  to  <lookup call>.field
            m = re.match(r'^(.*)\.(\w+)$', rk)
            src, fld = (m.group(1), m.group(2)) if m else (rk, '')
            one_lookup = src == '%s.lookup(%s)' % (tzk, csk)
            skipped = any(op == '==' and SK in (a, b) and F.resolve_key(a if b == SK else b).endswith('.kind') or
                          (op == '==' and SK in (a, b) and (a if b == SK else b).endswith('.kind')) for (op, a, b) in fs)
            notskipped = any(op == '!=' and SK in (a, b) and (a if b == SK else b).endswith('.kind') for (op, a, b) in fs)
            if not skipped and not notskipped:
                # reached from several case labels of a switch over the kind: on every path the kind is one of the others
                try:
                    per_path = F.path_facts([rn], cap=2000)
                except Exception:
                    per_path = []

                def _other(pf):
                    return any((op == '==' and (a.endswith('.kind') or b.endswith('.kind')) and re.match(r'^n:\d+$', a if b.endswith('.kind') else b)
                                and (a if b.endswith('.kind') else b) != SK) or
                               (op == '!=' and SK in (a, b) and (a if b == SK else b).endswith('.kind')) for (op, a, b) in pf)
                if per_path and all(_other(pf) for pf in per_path):
                    notskipped = True
            if skipped:
                n_sk += 1
                ctx.check(one_lookup and fld == 'trans', 'C06-convert', 'SKIPPED -> the transition instant (trans)', rn.ast,
                          'for a civil second inside a gap convert() returns %s.%s instead of the trans field of the lookup of its '
                          'argument: inside a gap pre is later than the instants of the civil seconds that follow the gap (and post '
                          'earlier than those before it), so order is not preserved across the gap' % (src, fld),
                          construct='convert:skipped', detail=rk)
            elif notskipped:
                n_other += 1
                ctx.check(one_lookup and fld == 'pre', 'C06-convert', 'UNIQUE / REPEATED -> pre', rn.ast,
                          'outside gaps convert() returns %s.%s instead of the pre field of the lookup of its argument' % (src, fld),
                          construct='convert:other', detail=rk)
            else:
                ctx.bad('C06-convert', 'return of convert() decided by kind == SKIPPED', rn.ast,
                        'a return of convert() is reached without the kind having been compared with SKIPPED',
                        construct='convert:undecided')
    ctx.check(n_sk >= 1 and n_other >= 1, 'C06-convert', 'convert() distinguishes SKIPPED from the other kinds', f,
              'found %d / %d' % (n_sk, n_other), construct='convert:count')
    ctx.minimum('C06-convert', 3)

    # ---- C06-clamp (the rule of C10-saturate)
    saved = len(ctx.obligations)
    mins = dict(ctx.minimums)
    c10.run(ctx)
    new = ctx.obligations[saved:]
    del ctx.obligations[saved:]
    ctx.minimums.clear()
    ctx.minimums.update(mins)
    for o in new:
        if o['rule'] in ('C10-saturate', 'C10-bounds'):       # (the guards compare with bounds that must be the images of the range ends)
            o['rule'] = 'C06-clamp'
            ctx.obligations.append(o)
    ctx.minimum('C06-clamp', 9)
