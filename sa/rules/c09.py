"""C09 — parse() accepts only well-formed in-range input."""
import re
from ..frontend import kids, walk, qn, qtype, dtype, pos, ancestors, AnalysisBroken, params_of
from ..expr import callee, call_args, peel, Keys, Folder
from ..callgraph import fname
from ..absint import AI, Observer, St, Int, Ptr, I, TOP, UNINIT, MAYBE_UNINIT, vjoin
from . import cursor, nul
from .c16 import check_guarded_accumulate

EXPLANATION = (
    'C09-range: for every data-directed ParseInt call of parse() and of the offset parser, the '
    'instantiated ParseInt<T> body is abstractly interpreted with that call\'s arguments; the '
    'interval that can reach the destination on a non-null return, together with the digit-count '
    'argument and any exact-width test that follows, must equal the documented range of the '
    'specifier (%m 1-12, %d 1-31, %H 0-23, %M 0-59, %S 0-60, %U/%W 0-53, %u 1-7, %w 0-6, %E4Y '
    '-999..9999 in exactly four characters, offset hh 0-23 mm/ss 0-59 in exactly two digits each). '
    'C09-fields: with every tm field inside the range its writers admit, hour, minute and second reach '
    'the civil_second constructor inside their normalised ranges (leap second 60 folded to 59 with a '
    'one-second offset), so the month/day comparison is a complete no-normalisation test. '
    'C09-exit: every accepting return is reachable only through the failing tests for a null '
    'cursor and for trailing non-space data; the final return additionally only through the '
    'no-normalisation test on month and day, and no edge on which the offset guards against '
    'civil_second::max()/min() or the saturation re-checks fired can reach it. C09-cursor: the '
    'cursor typestate shows no read or advance past the terminator of the input or of the format '
    'in parse() and its helpers. C09-ovf: the digit accumulation of ParseInt<T> is guarded before '
    'each multiply/subtract, negation only happens when representable, and the year arithmetic of '
    'the week conversion and of tm_year is guarded. C09-nul: digit lookups exclude the NUL. C09-flags '
    '(sibling agreement): the conversion sites of parse() that fill one and the same out-variable raise '
    'the same flags afterwards within the iteration (a site that stores a UTC offset without raising '
    'saw_offset as its siblings do makes the fields be read in the wrong zone). Does '
    'not decide that the instant returned is the one denoted, nor strptime.')
LEVEL = ('Abstract-interpretation and dominance proof of the accept/reject bounds, of the presence of the mandatory '
         'checks on every accepting path and of cursor safety, for all (format, input) pairs.')
LEVEL_NOTE = 'Trusts clang 14 AST and sa/; strptime and the zone lookup are outside; characters are arbitrary bytes.'
TECHNIQUE = 'per-call-site abstract interpretation of ParseInt<T> + guard-edge reachability on the CFG + cursor typestate'

I64 = (-2 ** 63, 2 ** 63 - 1)
# documented table: (case label char, destination) -> (lo, hi, width, exact); destination = the struct tm field, '*' for a
# local of parse(), '#n' for the n-th field parsed by ParseOffset (hours, minutes, seconds)
DOC = {
    ('Y', '*'): (I64[0], I64[1], 0, None),
    ('m', 'tm_mon'): (1, 12, 2, None),
    ('d', 'tm_mday'): (1, 31, 2, None), ('e', 'tm_mday'): (1, 31, 2, None),
    ('U', '*'): (0, 53, 0, None), ('W', '*'): (0, 53, 0, None),
    ('u', 'tm_wday'): (1, 7, 0, None), ('w', 'tm_wday'): (0, 6, 0, None),
    ('H', 'tm_hour'): (0, 23, 2, None), ('M', 'tm_min'): (0, 59, 2, None), ('S', 'tm_sec'): (0, 60, 2, None),
    ('s', '*'): (I64[0], I64[1], 0, None),
    ('E', 'tm_sec'): (0, 60, 2, None),
    ('E', '*'): (-999, 9999, 4, 4),
    ('offset', '#1'): (0, 23, 2, 2), ('offset', '#2'): (0, 59, 2, 2), ('offset', '#3'): (0, 59, 2, 2),
}


class _Obs(Observer):
    pass


def _case_labels(node):
    """Characters of the case labels governing node (nearest enclosing case group).  A node inside a lambda is governed
    by the labels of the lambda's call sites."""
    lam = next((a for a in ancestors(node) if a.get('kind') == 'LambdaExpr'), None)
    if lam is not None:
        var = next((a for a in ancestors(lam) if a.get('kind') == 'VarDecl'), None)
        fn_ = next((a for a in ancestors(lam) if a.get('kind') in ('FunctionDecl', 'CXXMethodDecl')), None)
        out = []
        if var is not None and fn_ is not None:
            for y in walk(fn_):
                if y.get('kind') == 'CXXOperatorCallExpr' and call_args(y) and \
                        (peel(call_args(y)[0]).get('referencedDecl') or {}).get('id') == var.get('id') and \
                        not any(a is lam for a in ancestors(y)):
                    for l_ in _case_labels(y):
                        if l_ not in out:
                            out.append(l_)
        return out
    return _case_labels_direct(node)


def _case_labels_direct(node):
    labs = []
    child = node
    for a in ancestors(node):
        if a.get('kind') == 'CaseStmt':
            labs.append(a)
        if a.get('kind') == 'CompoundStmt' and a.get('_p', {}).get('kind') == 'SwitchStmt':
            # statements of the switch body: labels are the CaseStmts preceding `child` whose
            # sub-statement chain leads here; walk back over siblings until a break/return/continue
            sibs = kids(a)
            idx = [i for i, c in enumerate(sibs) if c is child or any(y is child for y in walk(c))]
            if idx:
                i = idx[0]
                j = i
                while j >= 0:
                    s = sibs[j]
                    x = s
                    while x is not None and x.get('kind') in ('CaseStmt', 'DefaultStmt'):
                        if x.get('kind') == 'CaseStmt':
                            labs.append(x)
                        ks = kids(x)
                        x = ks[-1] if ks else None
                    if j < i and s.get('kind') not in ('CaseStmt', 'DefaultStmt'):
                        last = s
                        if last.get('kind') in ('BreakStmt', 'ContinueStmt', 'ReturnStmt'):
                            break
                    if j < i and s.get('kind') in ('CaseStmt', 'DefaultStmt'):
                        # does this labelled statement fall through to ours? only if it does not end in a jump
                        inner = s
                        while inner.get('kind') in ('CaseStmt', 'DefaultStmt') and kids(inner):
                            inner = kids(inner)[-1]
                        if inner.get('kind') in ('BreakStmt', 'ContinueStmt', 'ReturnStmt'):
                            break
                    j -= 1
            break
        child = a
    out = []
    fo = None
    for c in labs:
        from ..expr import Folder as F_
        fo = fo or F_(c['_u'])
        v = fo.fold(kids(c)[0])
        if v is not None and chr(v) not in out:
            out.append(chr(v))
    return out


def _indexed_site(u, f, call):
    """A scanner call made in a loop whose bounds and destination are picked from small local arrays by one index local:
    [(index variable id, index value, [array declarations])] for every value of the index, or None."""
    idx = set()
    arrs = {}
    for a in call_args(call):
        for y in walk(a):
            if y.get('kind') == 'ArraySubscriptExpr':
                b, i = peel(kids(y)[0]), peel(kids(y)[1])
                bd = u.by_id.get((b.get('referencedDecl') or {}).get('id')) if b.get('kind') == 'DeclRefExpr' else None
                if bd is None or bd.get('kind') != 'VarDecl' or i.get('kind') != 'DeclRefExpr':
                    return None
                m = re.match(r'^(?:const )?(?:int|long|short|unsigned int)\s*\[(\d+)\]$', (dtype(bd) or qtype(bd) or '').strip())
                if not m or bd.get('storageClass') == 'static':
                    return None
                arrs[bd['id']] = (bd, int(m.group(1)))
                idx.add((i.get('referencedDecl') or {}).get('id'))
    if len(idx) != 1 or not arrs:
        return None
    n = min(n_ for (_d, n_) in arrs.values())
    if any(n_ != n for (_d, n_) in arrs.values()) or not (1 <= n <= 8):
        return None
    # the call sits in a loop
    if not any(a.get('kind') in ('WhileStmt', 'ForStmt', 'DoStmt') for a in ancestors(call)):
        return None
    ivar = list(idx)[0]
    return [(ivar, i, [d for (d, _n) in arrs.values()]) for i in range(n)]


def run(ctx):
    G = ctx.G
    kp = G.one('cctz::detail::parse')
    u, f = G.defs[kp]
    K = Keys(u)
    fo = Folder(u)
    # ---- C09-range
    sites = []
    for (fk, where) in ((kp, 'parse'), (G.one('cctz::detail::ParseOffset', 'constchar*'), 'offset')):
        uu, ff = G.defs[fk]
        for x in walk(ff):
            if x.get('kind') == 'CallExpr' and callee(x) and callee(x)[0] == 'fn' and callee(x)[1].get('name') == 'ParseInt':
                ex_ = _indexed_site(uu, ff, x) if where == 'offset' else None
                if ex_:
                    for (ivar, i_, decls) in ex_:
                        sites.append((fk, uu, ff, x, where, ivar, i_, decls))
                else:
                    sites.append((fk, uu, ff, x, where, None, None, ()))
    n_data = 0
    n_off = 0
    # the input cursor of parse(): the local initialised from the characters of the input string (second parameter)
    pkeys = set(['%s#%s' % (params_of(f)[1]['name'], params_of(f)[1]['id'])])      # parse(format, input, ...): the input
    data_keys = set()
    for d_ in walk(f):
        if d_.get('kind') == 'VarDecl' and kids(d_) and (dtype(d_) or qtype(d_)).replace(' ', '').startswith('constchar*'):
            m_ = re.match(r'^(\w+#0x[0-9a-f]+)\.(c_str|data)\(\)$', K.key(kids(d_)[-1]))
            if m_ and m_.group(1) in pkeys:
                data_keys.add('%s#%s' % (d_.get('name'), d_['id']))
    if len(data_keys) != 1:
        raise AnalysisBroken('C09-range: the input cursor of parse() was not found (%d candidates)' % len(data_keys))
    for (fk, uu, ff, x, where, ivar, ival, idecls) in sites:
        args = call_args(x)
        src = peel(args[0])
        sk = Keys(uu).key(args[0])
        if where == 'parse' and sk not in data_keys:
            continue            # format-directed (digit count of %E#S)
        n_data += 1
        dest = Keys(uu).key(args[4])
        dsuf = re.sub(r'#0x[0-9a-f]+', '', dest).strip('&()').split('.')[-1]
        dname = dsuf
        if where == 'parse' and not dsuf.startswith('tm_'):
            dsuf = '*'                   # a local of parse(): identified by the specifier alone
        elif where != 'parse':
            n_off = n_off + 1
            dsuf = '#%d' % n_off         # ParseOffset: hours, minutes, seconds in source order
        labs = _case_labels(x) if where == 'parse' else ['offset']
        width = Folder(uu).fold(args[1])
        # abstract interpretation of this very call
        ai = AI(G, _Obs(), max_parts=64)
        st = St()
        for y in walk(x):
            if y.get('kind') == 'DeclRefExpr' and (y.get('referencedDecl') or {}).get('kind') in ('VarDecl', 'ParmVarDecl'):
                d = uu.by_id.get((y.get('referencedDecl') or {}).get('id'))
                if d is not None and (dtype(d) or qtype(d)).rstrip().endswith('*'):
                    st.mem[(d['id'],)] = Ptr('NN', ('chars', 'input'), Int(0, 10 ** 9))
        pre = [st]
        if ivar is not None:
            # one call in a loop over a table of maxima: judged once per value of the index
            for d_ in idecls:
                pre = [s2 for s_ in pre for s2 in ai.decl(d_, s_, uu)]
            for s_ in pre:
                s_.mem[(ivar,)] = I(ival)
        res = [r_ for s_ in pre for r_ in ai.eval(x, s_, uu)]
        got = None
        for (v, s) in res:
            if isinstance(v, Ptr) and v.null == 'N':
                continue
            for (l, s2) in ai.lval(peel(args[4], explicit=False).get('kind') == 'UnaryOperator' and kids(peel(args[4], explicit=False))[0] or args[4], s.copy(), uu):
                val = s.mem.get(l) if l is not None else None
                if isinstance(val, Int):
                    got = val if got is None else got.join(val)
                elif val is None or val is TOP or val is UNINIT or val is MAYBE_UNINIT:
                    got = Int(-float('inf'), float('inf'))
        exact = _exact_width_after(uu, ff, x, args)
        key = None
        for lab in labs:
            if (lab, dsuf) in DOC:
                key = (lab, dsuf)
        if ivar is not None:
            dname = '%s[%d]' % (dname.split('[')[0], ival)
        inst = '%%%s -> %s' % ('/'.join(labs), dname) if where == 'parse' else 'offset %s' % dname
        if key is None:
            ctx.bad('C09-range', inst + ' is a documented numeric field', x,
                    'a numeric field is parsed for a specifier/destination pair the documentation does not list (%s, %s)' % (labs, dsuf),
                    construct='range:undocumented:%s:%s' % ('/'.join(labs), dname))
            continue
        lo, hi, w, ex = DOC[key]
        ok = isinstance(got, Int) and (got.lo, got.hi) == (lo, hi) and width == w and exact == ex
        ctx.check(ok, 'C09-range', '%s accepts [%s,%s], width %s%s' % (inst, lo, hi, w, ', exactly %d chars' % ex if ex else ''), x,
                  'the field accepts %s with digit-count argument %s%s; documented: [%s,%s], %s digits%s: a value outside the '
                  'documented range is accepted or one inside it rejected' % (
                      got, width, ', exact-width test %s' % exact if exact or ex else '', lo, hi, w or 'any number of',
                      ', exactly %d characters' % ex if ex else ''),
                  construct='range:%s:%s' % ('/'.join(labs), dname), detail='%s w=%s exact=%s' % (got, width, exact))
    ctx.minimum('C09-range', 16)

    # ---- C09-range (offset parser): the cursor handed back ends right after a complete two-digit field
    ko = G.one('cctz::detail::ParseOffset', 'constchar*')
    uo, fo_ = G.defs[ko]
    Fo = ctx.facts(fo_)
    retvars = set()
    for r in [x for x in walk(fo_) if x.get('kind') == 'ReturnStmt']:
        d = peel(kids(r)[0])
        if d.get('kind') == 'DeclRefExpr':
            retvars.add((d.get('referencedDecl') or {}).get('id'))
    n_asg = 0
    for x in walk(fo_):
        if x.get('kind') == 'BinaryOperator' and x.get('opcode') == '=' and \
                (peel(kids(x)[0]).get('referencedDecl') or {}).get('id') in retvars:
            rk = Fo.keys.key(kids(x)[1])
            if rk == 'null':
                continue
            n_asg += 1
            fs = Fo.facts_at_ast(x) or frozenset()
            # (the value may come from a helper: the fact then names the call that produced it)
            cands = set([rk, Fo.ident_key(kids(x)[1])])
            dd_ = uo.by_id.get((peel(kids(x)[1]).get('referencedDecl') or {}).get('id')) if peel(kids(x)[1]).get('kind') == 'DeclRefExpr' else None
            if dd_ is not None and dd_.get('kind') == 'VarDecl' and kids(dd_):
                cands.add(Fo.keys.key(kids(dd_)[-1]))
            ok = any(op == '==' and 'n:2' in (a, b) and any((a if b == 'n:2' else b).startswith('(%s - ' % c_) for c_ in cands)
                     for (op, a, b) in fs)
            ctx.check(ok, 'C09-range', 'offset parser advances its result to %s only after exactly two digits' % rk.split('#')[0], x,
                      'the cursor returned by the offset parser is moved to a position that is not the end of a complete '
                      'two-digit field (for example past a separator that is not followed by digits): malformed offsets '
                      'such as "+01:" are accepted', construct='range:offset-cursor:%s' % rk.split('#')[0])
    in_loop = any(x.get('kind') == 'BinaryOperator' and x.get('opcode') == '=' and
                  (peel(kids(x)[0]).get('referencedDecl') or {}).get('id') in retvars and
                  any(a.get('kind') in ('WhileStmt', 'ForStmt', 'DoStmt') for a in ancestors(x)) for x in walk(fo_))
    if n_asg < 3 and not (n_asg >= 1 and in_loop):
        ctx.bad('C09-range', 'offset parser result assignments', fo_, 'expected three advancing assignments, found %d' % n_asg,
                construct='range:offset-cursor:count')

    # ---- C09-fields: only the day of month can normalise in the civil time built from the parsed fields
    _check_fields(ctx, kp, u, f)

    # ---- C09-exit
    F = ctx.facts(f)
    g = ctx.cfg(f)
    acc = [rn for rn in g.returns if F.keys.key(kids(rn.ast)[0]) == 'n:1']
    if len(acc) != 2:
        raise AnalysisBroken('C09-exit: expected two accepting returns in parse(), found %d' % len(acc))
    final = max(acc, key=lambda n: (n.ast.get('_pos') or ('', 0))[1])
    early = [a for a in acc if a is not final][0]

    def edges_where(pred):
        out = []
        for n in g.live:
            if n.kind == 'cond':
                for lab in ('T', 'F'):
                    if any(pred(ft) for ft in F.cond_facts(n.ast, lab == 'T')):
                        out.append((n, lab))
        return out

    def delegated(pred):
        """Edges of parse() on which a file-local bool helper has answered false, for helpers inside which an edge
        matching pred exists and every such edge leads to `return false` only (the guard moved into a helper whose
        refusal parse() turns into a rejection).  Returns (edges, leak) with leak = a matching helper edge can still
        reach a true return of the helper."""
        out, leak = [], False
        for (uu_, hf_) in ctx.scope(f)[1:]:
            if (qtype(hf_) or '').split('(')[0].strip() != 'bool':
                continue
            HF_, hg_ = ctx.facts(hf_), ctx.cfg(hf_)
            he = []
            for n_ in hg_.live:
                if n_.kind == 'cond':
                    for lab_ in ('T', 'F'):
                        if any(pred(ft) for ft in HF_.cond_facts(n_.ast, lab_ == 'T')):
                            he.append((n_, lab_))
            if not he:
                continue
            trues = [rn_ for rn_ in hg_.returns if kids(rn_.ast) and HF_.keys.key(kids(rn_.ast)[0]) != 'n:0']
            for (n_, lab_) in he:
                for (m_, l_) in n_.succs:
                    if l_ == lab_ and _reach(hg_, m_, trues):
                        leak = True
            hq = qn(hf_)
            for n_ in g.live:
                if n_.kind == 'cond':
                    for lab_ in ('T', 'F'):
                        if any(ft[0] == '==' and 'n:0' in ft[1:] and (ft[1] if ft[2] == 'n:0' else ft[2]).startswith(hq + '(')
                               for ft in F.cond_facts(n_.ast, lab_ == 'T')):
                            out.append((n_, lab_))
        return out, leak

    def named_test(pred, targets):
        """The guard computed into a bool local (`bad = (cs > max + offset);` ... `if (bad) return false;`): from each such
        assignment, can a target be reached when every later branch on that local is taken as if it held true (a path that
        assigns the local again counts as reaching)?  Returns (number of such assignments, leak)."""
        n_, leak = 0, False
        for x in walk(f):
            if not (x.get('kind') == 'BinaryOperator' and x.get('opcode') == '='):
                continue
            l_ = peel(kids(x)[0])
            if l_ is None or l_.get('kind') != 'DeclRefExpr' or (l_.get('referencedDecl') or {}).get('kind') != 'VarDecl':
                continue
            d_ = u.by_id.get(l_['referencedDecl'].get('id'))
            if d_ is None or (dtype(d_) or qtype(d_) or '').replace('const ', '').strip() != 'bool':
                continue
            if not any(pred(ft) for ft in F.cond_facts(kids(x)[1], True)):
                continue
            n_ += 1
            bid = d_['id']
            tg = set(t.id for t in targets)
            seen = set()
            stack = [m for s_ in g.nodes_for(x) for (m, _) in s_.succs]
            while stack:
                nd = stack.pop()
                if nd.id in seen:
                    continue
                seen.add(nd.id)
                if nd.id in tg:
                    leak = True
                    break
                if nd.ast is not None and nd.kind in ('stmt', 'cond') and any(
                        y.get('kind') == 'BinaryOperator' and y.get('opcode') == '=' and
                        (peel(kids(y)[0]).get('referencedDecl') or {}).get('id') == bid for y in walk(nd.ast)):
                    leak = True
                    break
                only = None
                if nd.kind == 'cond' and nd.ast is not None:
                    c_ = peel(nd.ast)
                    if c_ is not None and c_.get('kind') == 'DeclRefExpr' and (c_.get('referencedDecl') or {}).get('id') == bid:
                        only = 'T'
                    elif c_ is not None and c_.get('kind') == 'UnaryOperator' and c_.get('opcode') == '!' and \
                            (peel(kids(c_)[0]).get('referencedDecl') or {}).get('id') == bid:
                        only = 'F'
                for (m, lab) in nd.succs:
                    if only is None or lab == only:
                        stack.append(m)
        return n_, leak

    def must_pass(targets, edges):
        return bool(edges) and not g.reachable_avoiding(targets, cut_edges=[(n.id, l) for (n, l) in edges])

    def cannot_follow(edges, targets):
        for (n, lab) in edges:
            for (m, l) in n.succs:
                if l == lab and _reach(g, m, targets):
                    return False
        return bool(edges)
    dk = list(data_keys)[0]
    e_nonnull = edges_where(lambda ft: ft[0] == '!=' and set(ft[1:]) == set((dk, 'null')))
    e_end = edges_where(lambda ft: ft[0] == '==' and set(ft[1:]) == set(('*(%s)' % dk, 'n:0')))
    for (tn, nm) in ((early, '%s return'), (final, 'final return')):
        nm = nm.replace('%s', '%s') if '%s' not in nm else 'early (%s) return'
        ctx.check(must_pass([tn], e_nonnull), 'C09-exit', '%s only with a non-null cursor' % nm, tn.ast,
                  'parse() can return true although the specifier loop reported a mismatch (null cursor)', construct='exit:null:%s' % nm[:5])
        ctx.check(must_pass([tn], e_end), 'C09-exit', '%s only when the whole input was consumed' % nm, tn.ast,
                  'parse() can return true with trailing data left in the input', construct='exit:trailing:%s' % nm[:5])
    e_month = edges_where(lambda ft: ft[0] == '==' and any(re.match(r'^\w+#0x[0-9a-f]+\.month\(\)$', z) for z in ft[1:]))
    e_day = edges_where(lambda ft: ft[0] == '==' and any(re.match(r'^\w+#0x[0-9a-f]+\.day\(\)$', z) for z in ft[1:]) and
                        any('tm_mday' in z for z in ft[1:]))
    ctx.check(must_pass([final], e_month) and must_pass([final], e_day), 'C09-exit',
              'final return only if the civil time kept month and day (no normalisation)', final.ast,
              'parse() can accept a date whose day does not exist in its month (e.g. Sep 31 read as Oct 1)',
              construct='exit:normalisation')
    # the UTC offset local of parse(): what ParseOffset writes through its last argument
    offk = None
    for x_ in walk(f):
        if x_.get('kind') == 'CallExpr' and callee(x_) and callee(x_)[0] == 'fn' and callee(x_)[1].get('name') == 'ParseOffset':
            la = peel(call_args(x_)[-1], explicit=False)
            if la.get('kind') == 'UnaryOperator' and la.get('opcode') == '&':
                offk = K.key(kids(la)[0])
    if offk is None:
        raise AnalysisBroken('C09-exit: the offset local of parse() was not found')
    p_max = lambda ft: ft[0] == '<' and 'max()' in ft[1] + ft[2] and offk in ft[1] + ft[2]
    p_min = lambda ft: ft[0] == '<' and 'min()' in ft[1] + ft[2] and offk in ft[1] + ft[2]
    e_max, e_min = edges_where(p_max), edges_where(p_min)
    leak_ = False
    if not e_max:
        e_max, l1 = delegated(p_max)
        leak_ = leak_ or l1
    if not e_min:
        e_min, l2 = delegated(p_min)
        leak_ = leak_ or l2
    ok_max = cannot_follow(e_max, [final])
    ok_min = cannot_follow(e_min, [final])
    if not e_max:
        nn_, lk_ = named_test(p_max, [final])
        ok_max = nn_ >= 1 and not lk_
    if not e_min:
        nn_, lk_ = named_test(p_min, [final])
        ok_min = nn_ >= 1 and not lk_
    ctx.check(ok_max and ok_min and not leak_, 'C09-exit',
              'offset adjustment beyond civil_second::max()/min() is rejected', final.ast,
              'a path on which cs -/+ offset would leave the civil range still reaches the accepting return',
              construct='exit:offsetguard', detail='%d/%d guard edges' % (len(e_max), len(e_min)))
    p_sat = lambda ft: ft[0] == '<' and any(re.search(r'\.cs$', z) for z in ft[1:]) and \
        any(re.match(r'^cs#', z) or re.match(r'^\w+#0x[0-9a-f]+$', z) for z in ft[1:])
    e_sat = edges_where(p_sat)
    n_sat = len(e_sat)
    leak_s = False
    if not e_sat:
        e_sat, leak_s = delegated(p_sat)
        # (the two re-checks sit in the helper)
        n_sat = sum(1 for (uu_, hf_) in ctx.scope(f)[1:] for n_ in ctx.cfg(hf_).live if n_.kind == 'cond' for lab_ in ('T', 'F')
                    if any(p_sat(ft) for ft in ctx.facts(hf_).cond_facts(n_.ast, lab_ == 'T')))
    ctx.check(cannot_follow(e_sat, [final]) and n_sat >= 2 and not leak_s, 'C09-exit',
              'saturated lookups are re-checked against the civil time', final.ast,
              'an instant that saturated to time_point::max()/min() is returned although the civil time lies beyond the '
              'representable range', construct='exit:saturation', detail='%d re-check edges' % len(e_sat))
    from ..frontend import owner_fn as _own
    lookups = []
    recv = set()
    for (uu_, ff_) in ctx.scope(f):
        if ff_ is not f and (qtype(ff_) or '').split('(')[0].strip() != 'bool':
            continue
        Fz = ctx.facts(ff_)
        for x in walk(ff_):
            if x.get('kind') == 'CXXMemberCallExpr' and callee(x) and callee(x)[1] == 'lookup' and callee(x)[2] is not None and _own(x) is ff_:
                lookups.append(x)
                recv.add(Fz.keys.key(callee(x)[2]))      # (a helper's zone parameter is keyed as what parse() passes for it)
    ctx.check(len(lookups) >= 3 and len(recv) == 1, 'C09-exit', 'the civil time and both saturation re-checks are looked up in one and the same zone', final.ast,
              'the saturation re-checks consult a different zone (%s) than the one the civil time was interpreted in: with a parsed '
              'UTC offset and a non-UTC argument zone an unrepresentable instant is accepted or a representable one rejected'
              % sorted(z.split('#')[0] for z in recv), construct='exit:samezone', detail=', '.join(sorted(z.split('#')[0] for z in recv)))
    # the instant handed back on the final path is the very value that was range-checked: the pre field of the lookup
    # of the civil time, nothing added to it afterwards
    outp = [p_ for p_ in params_of(f) if re.search(r'time_point<.*>\s*\*$', (dtype(p_) or qtype(p_) or '').replace('const', ''))]
    stores = []
    for x_ in walk(f):
        if x_.get('kind') == 'CXXOperatorCallExpr' and callee(x_) and callee(x_)[0] == 'fn' and callee(x_)[1].get('name') == 'operator=' \
                and len(call_args(x_)) == 2:
            l_ = peel(call_args(x_)[0])
            if l_.get('kind') == 'UnaryOperator' and l_.get('opcode') == '*' and outp and \
                    (peel(kids(l_)[0]).get('referencedDecl') or {}).get('id') == outp[0]['id']:
                stores.append(x_)
    fin_nodes = set(n_.id for n_ in g.live if _reach(g, n_, [final]))
    last = [x_ for x_ in stores if any(n_.id in fin_nodes for n_ in g.nodes_for(x_)) and
            not any(_reach(g, n_, [early]) for n_ in g.nodes_for(x_))]
    okv = bool(last)
    got_ = []
    for x_ in last:
        vk_ = F.ident_key(call_args(x_)[1])
        got_.append(vk_)
        # (the zone may be named through a const object local: then its initialiser stands in its place)
        if not re.match(r'^(\w+#0x[0-9a-f]+|\(.*\))\.lookup\(\w+#0x[0-9a-f]+\)\.pre$', vk_):
            okv = False
    ctx.check3(okv if last else None, 'C09-exit', 'the instant stored is the range-checked lookup(cs).pre itself', last[0] if last else f,
               'parse() stores %s, not the pre field of the lookup that the range checks examined: the result can lie beyond the '
               'checked range (or is moved after an ambiguous civil time was resolved)' % got_, construct='exit:stored-value',
               detail=', '.join(got_)[:100])
    ctx.minimum('C09-exit', 9)

    # ---- C09-cursor
    n = cursor.check_function(ctx, 'C09-cursor', kp)
    for name, sub in (('cctz::detail::ParseOffset', 'constchar*'), ('cctz::detail::ParseZone', None),
                      ('cctz::detail::ParseSubSeconds', None)):
        n += cursor.check_function(ctx, 'C09-cursor', G.one(name, sub))
    for k_ in G.find('cctz::detail::ParseInt'):
        if 'T' in k_[1]:
            continue
        n += cursor.check_function(ctx, 'C09-cursor', k_)
    ctx.minimum('C09-cursor', 25)

    # ---- C09-ovf
    nacc = 0
    for k_ in G.find('cctz::detail::ParseInt'):
        if 'T' in k_[1]:
            continue
        nacc += check_guarded_accumulate(ctx, 'C09-ovf', k_)
        uu, ff = G.defs[k_]
        Fi = ctx.facts(ff)
        for x in walk(ff):
            if x.get('kind') == 'UnaryOperator' and x.get('opcode') == '-' and x.get('_p', {}).get('kind') == 'BinaryOperator' \
                    and x['_p'].get('opcode') == '=':
                vk = Fi.keys.key(kids(x)[0])
                gi = ctx.cfg(ff)
                ok = True
                npaths = 0
                for (now, ever) in Fi.path_facts(gi.nodes_for(x), history=True):
                    npaths += 1
                    # infeasible path: contradictory facts about one flag
                    contra = any(('==', a, b) in ever for (op, a, b) in ever if op == '!=')
                    if contra:
                        continue
                    guarded = any(op == '!=' and vk in (a, b) and any(z.startswith('n:-') for z in (a, b)) for (op, a, b) in now)
                    if not guarded:
                        ok = False
                ok = ok and npaths > 0
                ctx.check(ok, 'C09-ovf', 'negation of the accumulated value in %s is representable' % fname(k_), x,
                          'the accumulated (negative) value is negated without having been compared with the type minimum',
                          construct='ovf:neg:%s' % fname(k_))
    ku = G.one('cctz::detail::FromWeek')
    uu, ff = G.defs[ku]
    Fw = ctx.facts(ff)
    for x in walk(ff):
        if x.get('kind') == 'CompoundAssignOperator' and x.get('opcode') == '+=' and '*(year' in Fw.keys.key(kids(x)[0]):
            fs = Fw.facts_at_ast(x) or frozenset()
            tk, rk = Fw.keys.key(kids(x)[0]), Fw.keys.key(kids(x)[1])
            up = any(op == '<=' and a == tk and b == '(n:%d - %s)' % (I64[1], rk) for (op, a, b) in fs)
            dn = any(op == '<=' and b == tk and a == '(n:%d - %s)' % (I64[0], rk) for (op, a, b) in fs)
            pos_ = any(op == '<' and a == 'n:0' and b == rk for (op, a, b) in fs)
            # the two guards are on the two signs of shift: require both guards to exist in the function
            guards = [c for c in walk(ff) if c.get('kind') == 'BinaryOperator' and c.get('opcode') in ('>', '<') and
                      '*(year' in Fw.keys.key(kids(c)[0]) and ('n:%d' % I64[1] in Fw.keys.key(kids(c)[1]) or 'n:%d' % I64[0] in Fw.keys.key(kids(c)[1]))]
            ctx.check(len(guards) >= 2 and _guards_lead_to_false(ctx, ff, guards), 'C09-ovf', 'year += shift in FromWeek is guarded on both sides', x,
                      'the year adjustment of the week conversion can overflow the year type', construct='ovf:fromweek')
    for x in walk(f):
        if x.get('kind') == 'CompoundAssignOperator' and x.get('opcode') == '+=' and F.keys.key(kids(x)[1]) == 'n:1900':
            fs = F.facts_at_ast(x) or frozenset()
            tk = F.keys.key(kids(x)[0])
            ok = any(op == '<=' and a == tk and b == 'n:%d' % (I64[1] - 1900) for (op, a, b) in fs)
            ctx.check(ok, 'C09-ovf', 'year += 1900 is guarded', x, 'tm_year + 1900 can overflow the year type', construct='ovf:1900')
    ctx.minimum('C09-ovf', 6)

    # ---- C09-nul
    sites_ = nul.strchr_sites(ctx, lambda k2, u2, f2: u2.name == 'time_zone_format.cc')
    for (k2, u2, f2, call) in sites_:
        nul.check_site(ctx, 'C09-nul', k2, u2, f2, call)
    if not sites_:
        ctx.ok('C09-nul', 'no strchr/memchr lookup in time_zone_format.cc', f, 'nothing to exclude: no character-set lookup is made')
    ctx.minimum('C09-nul', 1)    # the lookups may be folded into one helper


class _CtorObs(Observer):
    def __init__(self):
        self.args = None

    def call(self, ai, site, fkey, vals, st):
        if fkey[0].endswith('civil_time<second_tag>::civil_time') and len(fkey[1]) == 6:
            vs = [v for (k_, v) in vals]
            self.args = vs if self.args is None else [vjoin(a, b) for a, b in zip(self.args, vs)]
            self.site = site


def _check_fields(ctx, kp, u, f):
    """With every tm field inside the range its writers admit (ParseInt ranges above, strptime's
    documented ranges, FromWeek's civil accessors), hour, minute and second reach the civil_second
    constructor inside their normalised ranges, so the month/day comparison is a complete
    no-normalisation test."""
    G = ctx.G
    TM = {'tm_sec': (0, 60), 'tm_min': (0, 59), 'tm_hour': (0, 23), 'tm_mday': (1, 31), 'tm_mon': (0, 11),
          'tm_year': (-2 ** 31, 2 ** 31 - 1), 'tm_wday': (0, 6), 'tm_yday': (0, 365), 'tm_isdst': (-1, 1)}
    obs = _CtorObs()
    loops_ = [x for x in walk(f) if x.get('kind') == 'WhileStmt' and any(y.get('kind') == 'SwitchStmt' for y in walk(x))]
    main = loops_[0] if loops_ else None

    tmids = set(x['id'] for x in walk(f) if x.get('kind') == 'VarDecl' and 'tm' in (dtype(x) or qtype(x)).split('::')[-1:] + [qtype(x)])

    def assume_loc(loc):
        # fields of the std::tm being filled: whatever wrote them last (ParseInt with the ranges
        # checked above, strptime with its documented ranges, FromWeek with civil accessors)
        if len(loc) == 2 and loc[1] in TM and loc[0] in tmids:
            lo, hi = TM[loc[1]]
            return Int(lo, hi)
        return None

    def inline(key):
        return key[0] in ('cctz::detail::civil_time<second_tag>::civil_time',) and False
    ai = AI(G, obs, inline=lambda k_: False, loop_once=lambda l: True, assume_loc=assume_loc, ptr_partition=False, max_parts=32)
    # the constructor call must be observed although nothing is inlined: hook via call() on known ctors
    orig = ai.call_function

    def call_function(fkey, args, st, uu, site, this_loc=None):
        if fkey[0].endswith('civil_time<second_tag>::civil_time') and len(fkey[1]) == 6:
            vals = []
            cur = [st]
            for a in args:
                nxt = []
                for s_ in cur:
                    for (v, s2) in ai.eval(a, s_, uu):
                        vals.append(v)
                        nxt.append(s2)
                cur = nxt[:1]
            obs.call(ai, site, fkey, [('val', v) for v in vals[:6]], st)
        return orig(fkey, args, st, uu, site, this_loc)
    ai.call_function = call_function
    st = St()
    for p in params_of(f):
        if qtype(p).rstrip().endswith('*'):
            st.mem[(p['id'],)] = Ptr('M', ('ARG', p['id']), I(0))
        else:
            st.refs[p['id']] = ('ARG', p['id'])
    ai.analyse(kp, st)
    if obs.args is None:
        raise AnalysisBroken('C09-fields: construction of the civil_second from the parsed fields not found')
    want = [None, (1, 12), (1, 31), (0, 23), (0, 59), (0, 59)]
    names = ['year', 'month', 'day', 'hour', 'minute', 'second']
    for nm, w, v in zip(names, want, obs.args):
        if w is None:
            continue
        if nm in ('month', 'day'):
            # month/day are the two fields the explicit no-normalisation test covers
            continue
        ok = isinstance(v, Int) and v.within(w[0], w[1])
        ctx.check(ok, 'C09-fields', '%s passed to civil_second lies in [%d,%d]' % (nm, w[0], w[1]), obs.site,
                  'the %s handed to the civil_second constructor can be %s: it normalises into a neighbouring field, which the '
                  'month/day comparison does not detect (valid input such as 23:59:60 is rejected, or a wrong instant accepted)'
                  % (nm, v), construct='fields:%s' % nm, detail=str(v))
    ctx.assume('strptime leaves tm_sec in [0,60], tm_min in [0,59], tm_hour in [0,23], tm_mday in [1,31], tm_mon in [0,11]')
    ctx.minimum('C09-fields', 3)
    _check_flags(ctx, u, f)


def _check_flags(ctx, u, f):
    """C09-flags (sibling agreement): the conversion sites of parse() that fill one and the same out-variable (&offset,
    &percent_s, ...) agree on the bool flags they raise afterwards within the same iteration of the format scan; the flag
    is what later makes the parsed value count (saw_offset selects UTC for the fields), so a site that fills the value
    without raising the flag its siblings raise yields an instant computed in the wrong zone."""
    g = ctx.cfg(f)
    K = Keys(u)
    loops_ = [x for x in walk(f) if x.get('kind') in ('WhileStmt', 'ForStmt', 'DoStmt')]
    # the format scan: the loop with the largest body
    outer = max(loops_, key=lambda l: sum(1 for _ in walk(l))) if loops_ else None
    if outer is None:
        ctx.unknown('C09-flags', 'flags raised by sibling conversion sites', f, 'the format scan loop of parse() was not found', construct='flags')
        return
    heads = set(n.id for n in g.live if n.kind == 'loop' and n.ast is outer)
    bool_locals = set(x['id'] for x in walk(f) if x.get('kind') == 'VarDecl' and (dtype(x) or qtype(x)) == 'bool')
    groups = {}
    for x in walk(f):
        if x.get('kind') != 'CallExpr' or not callee(x) or callee(x)[0] != 'fn' or not any(a is outer for a in ancestors(x)):
            continue
        for a in call_args(x):
            pa = peel(a)
            if pa.get('kind') == 'UnaryOperator' and pa.get('opcode') == '&' and peel(kids(pa)[0]).get('kind') == 'DeclRefExpr':
                vid = (peel(kids(pa)[0]).get('referencedDecl') or {}).get('id')
                d = u.by_id.get(vid)
                if d is None or d.get('kind') != 'VarDecl' or any(an is outer for an in ancestors(d)):
                    continue        # a scratch local of the iteration
                starts = g.nodes_for(x)
                seen = set()
                stack = [m for s_ in starts for (m, _) in s_.succs]
                flags = set()
                while stack:
                    n = stack.pop()
                    if n.id in seen or n.id in heads:
                        continue
                    seen.add(n.id)
                    if n.ast is not None and n.kind == 'stmt':
                        for y in walk(n.ast):
                            if y.get('kind') == 'BinaryOperator' and y.get('opcode') == '=' and \
                                    (peel(kids(y)[0]).get('referencedDecl') or {}).get('id') in bool_locals and \
                                    peel(kids(y)[1]).get('kind') == 'CXXBoolLiteralExpr' and peel(kids(y)[1]).get('value'):
                                flags.add(K.key(kids(y)[0]))
                    stack.extend(m for (m, _) in n.succs)
                groups.setdefault((K.key(kids(pa)[0]), (callee(x)[1].get('name') or '')), []).append((x, flags))
    n = 0
    for (vk, fn_), sites in sorted(groups.items()):
        if len(sites) < 2:
            continue
        allf = set().union(*[fl for (_, fl) in sites])
        for (x, fl) in sites:
            n += 1
            missing = sorted(allf - fl)
            ctx.check(not missing, 'C09-flags', '%s into %s at %s raises the same flags as its siblings' % (fn_, vk.split('#')[0], pos(x)), x,
                      'this site fills %s through %s like %d other site(s) of parse() but does not raise %s afterwards as they do: the '
                      'parsed value is stored yet treated as absent (for the UTC offset: the fields are then read in the caller\'s zone '
                      'and shifted by the offset as well)' % (vk.split('#')[0], fn_, len(sites) - 1, ', '.join(m.split('#')[0] for m in missing)),
                      construct='flags:%s:%s' % (vk.split('#')[0], fn_), detail=','.join(sorted(f_.split('#')[0] for f_ in fl)))
    ctx.minimum('C09-flags', 2)


def _guards_lead_to_false(ctx, ff, guards):
    g = ctx.cfg(ff)
    F = ctx.facts(ff)
    for c in guards:
        ns = [n for n in g.live if n.kind == 'cond' and n.ast is not None and peel(n.ast) is c]
        if not ns:
            return False
        for n in ns:
            for (m, lab) in n.succs:
                if lab == 'T':
                    x = m
                    seen = set()
                    while x is not None and x.id not in seen:
                        seen.add(x.id)
                        if x.kind == 'stmt' and x.ast.get('kind') == 'ReturnStmt':
                            if F.keys.key(kids(x.ast)[0]) != 'n:0':
                                return False
                            break
                        if len(x.succs) == 1:
                            x = x.succs[0][0]
                        else:
                            return False
    return True


def _reach(g, start, targets):
    tg = set(n.id for n in targets)
    seen = set()
    stack = [start]
    while stack:
        n = stack.pop()
        if n.id in seen:
            continue
        seen.add(n.id)
        if n.id in tg:
            return True
        stack.extend(m for (m, _) in n.succs)
    return False


def _exact_width_after(u, f, call, args):
    """`bp = data; data = ParseInt(data, ...); if (data - bp == N)` / `ap - dp == N`: returns N or None."""
    K = Keys(u)
    fo = Folder(u)
    # variable receiving the result
    res = None
    for a in ancestors(call):
        if a.get('kind') == 'VarDecl':
            res = '%s#%s' % (a.get('name'), a.get('id'))
            break
        if a.get('kind') == 'BinaryOperator' and a.get('opcode') == '=':
            res = K.key(kids(a)[0])
            break
        if a.get('kind') not in ('ImplicitCastExpr', 'ParenExpr'):
            break
    if res is None:
        return None
    srck = K.key(args[0])
    for x in walk(f):
        if x.get('kind') == 'BinaryOperator' and x.get('opcode') in ('==', '!='):
            a, b = kids(x)
            ka = K.key(a)
            v = fo.fold(b)
            m = re.match(r'^\((.+) - (.+)\)$', ka)
            if m and v is not None and m.group(1) == res:
                start = m.group(2)
                # start is the source cursor itself, or a local that saved it before the call
                if start == srck:
                    return v
                d = [y for y in walk(f) if y.get('kind') == 'VarDecl' and '%s#%s' % (y.get('name'), y.get('id')) == start]
                if d and kids(d[0]) and K.key(kids(d[0])[-1]) in (res, srck):
                    # the saved start must be declared next to this very call (same compound statement)
                    comp = d[0].get('_p', {}).get('_p')
                    if comp is not None and comp.get('kind') == 'CompoundStmt' and any(
                            any(y is call for y in walk(st_)) for st_ in kids(comp)):
                        return v
    return None
