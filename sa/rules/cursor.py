"""CURSOR engine: no read or advance past a terminator.

A finite typestate per `const char*` cursor: the tuple of characters known at
offsets 0..k-1 from the cursor (a concrete value, or just "not the terminator /
before the end pointer").  The invariant maintained by induction is that every
cursor points inside [start, terminator]; then
   *(c + j), c[j]   needs k >= j   (reading the terminator itself is allowed)
   c += j, ++c      needs k >= j   and leaves the tuple shifted by j.
Knowledge comes from branch edges: c[j] == 'x' (x != 0), c[j] != '\\0',
isdigit/isspace(c[j]), c + j != end, *a == *b with *b known.  States are small
sets of alternatives (disjunctive), so `fmt[0]=='z' || (fmt[0]==':' && ...)`
followed by `fmt += fmt[0]=='z' ? 1 : ...` is handled exactly; &&, || and ?: are
evaluated with forking.  Callees that take and return a cursor are checked by the
same rules on their own body (their advances are all obligations), so a returned
cursor is again inside the string."""
import re
from ..frontend import kids, walk, qn, qtype, dtype, pos, ancestors, AnalysisBroken, params_of
from ..expr import callee, call_args, peel, Folder, CAST_KINDS
from ..callgraph import fname
from ..cfg import CFG

NN = -1          # known: not the terminator (value unknown)
CTYPE = {'isdigit', 'isspace', 'isalpha', 'isalnum', 'isupper', 'islower', 'ispunct', 'isxdigit', 'isgraph', 'isprint'}
MAXALT = 64


def _facts_nonzero(facts, ck):
    """Do the facts exclude the value 0 for the quantity keyed ck (c != 0, c == K != 0, K <= c with K > 0, c < K <= 0 ...)?"""
    def num(k_):
        m = re.match(r'^n:(-?\d+)$', k_)
        return int(m.group(1)) if m else None
    for (op_, a_, b_) in facts:
        if op_ == '!=' and set((a_, b_)) == set((ck, 'n:0')):
            return True
        if op_ == '==' and ck in (a_, b_):
            v = num(b_ if a_ == ck else a_)
            if v is not None and v != 0:
                return True
        if op_ in ('<=', '<'):
            if b_ == ck and num(a_) is not None and (num(a_) > 0 or (op_ == '<' and num(a_) >= 0)):
                return True
            if a_ == ck and num(b_) is not None and (num(b_) < 0 or (op_ == '<' and num(b_) <= 0)):
                return True
    return False


def is_cursor_type(t):
    t = (t or '').strip()
    return bool(re.match(r'^const char \*( const)?$', t)) or t == 'const char *const'


class Alt(object):
    """k: cursor -> known characters; le / lt: pairs (a, b) with a <= b / a < b (a trails b)."""
    __slots__ = ('k', 'le', 'lt', 'past', 'assoc', 'nz', 'mn')

    def __init__(self, k=None, le=None, lt=None, past=None, assoc=None, nz=None, mn=None):
        self.k = k or {}
        self.le = le or frozenset()
        self.lt = lt or frozenset()
        self.past = past or frozenset()     # cursors that may stand one past their terminator
        self.assoc = assoc or {}            # local id -> ('char', cursor, j) | ('digit', cursor, j, n)
        self.nz = nz or frozenset()         # char locals known to be non-zero
        self.mn = mn or frozenset()         # cursors that may be null (result of strchr & co, not yet tested)

    def copy(self):
        return Alt(dict(self.k), self.le, self.lt, self.past, dict(self.assoc), self.nz, self.mn)

    def key(self):
        return (tuple(sorted((a, b) for a, b in self.k.items() if b)), tuple(sorted(self.le)), tuple(sorted(self.lt)),
                tuple(sorted(self.past)), tuple(sorted(self.assoc.items())), tuple(sorted(self.nz)), tuple(sorted(self.mn)))

    def shift(self, v, j):
        """cursor v moved forward by j: associations keep denoting the same characters."""
        for l, a in list(self.assoc.items()):
            if a[1] == v:
                self.assoc[l] = a[:2] + (a[2] - j,) + a[3:]

    def drop(self, v):
        for l, a in list(self.assoc.items()):
            if a[1] == v:
                del self.assoc[l]
        self.past = self.past - {v}

    def get(self, v):
        return self.k.get(v, ())

    def closure(self):
        """Transitive closure of <= / < (a <= b < c  =>  a < c)."""
        le = set(self.le) | set(self.lt)
        lt = set(self.lt)
        changed = True
        while changed:
            changed = False
            for (a, b) in list(le):
                for (c, d) in list(le):
                    if b == c and a != d:
                        if (a, d) not in le:
                            le.add((a, d))
                            changed = True
                        if ((a, b) in lt or (c, d) in lt) and (a, d) not in lt:
                            lt.add((a, d))
                            changed = True
        self.le = frozenset(le)
        self.lt = frozenset(lt)
        return self

    def forget(self, v):
        self.le = frozenset(p for p in self.le if v not in p)
        self.lt = frozenset(p for p in self.lt if v not in p)

    def advanced(self, v, j=1):
        """v moved forward: x <= v stays; v <= x survives only as v < x -> v <= x for j == 1."""
        keep_le = set(p for p in self.le if p[0] != v)
        if j == 1:
            keep_le |= set(p for p in self.lt if p[0] == v)
        self.lt = frozenset(p for p in self.lt if p[0] != v)
        self.le = frozenset(keep_le)


def meet_alts(alts):
    """Collapse alternatives: keep the longest common agreeing prefix per cursor."""
    keys = set()
    for a in alts:
        keys |= set(a.k)
    out = {}
    for v in keys:
        ts = [a.get(v) for a in alts]
        n = min(len(t) for t in ts)
        pref = []
        for i in range(n):
            vals = set(t[i] for t in ts)
            pref.append(list(vals)[0] if len(vals) == 1 else NN)
        if pref:
            out[v] = tuple(pref)
    le = None
    lt = None
    for a in alts:
        le = a.le | a.lt if le is None else le & (a.le | a.lt)
        lt = a.lt if lt is None else lt & a.lt
    past = frozenset().union(*[a.past for a in alts]) if alts else frozenset()
    nz = None
    for a in alts:
        nz = a.nz if nz is None else nz & a.nz
    return Alt(out, frozenset(le or ()), frozenset(lt or ()), past, None, nz)


class CursorAnalysis(object):
    def __init__(self, ctx, fkey):
        self.ctx = ctx
        self.fkey = fkey
        self.u, self.f = ctx.G.defs[fkey]
        self.fold = Folder(self.u)
        self.cfg = CFG(self.f, value_control=False)
        self.cursors = {}
        for x in walk(self.f):
            if x.get('kind') in ('VarDecl', 'ParmVarDecl') and is_cursor_type(dtype(x) or qtype(x)):
                self.cursors[x['id']] = x
        self.ends = self._end_pointers()
        self.obligations = []       # (node, what, ok, detail)
        self._seen_ob = {}
        self.string_starts = set()

    # -- end pointers:  end = start + s.length()  with start = s.c_str()
    def _end_pointers(self):
        ends = {}
        for i, d in self.cursors.items():
            ks = kids(d)
            if not ks or d.get('kind') != 'VarDecl':
                continue
            x = peel(ks[-1])
            if x.get('kind') == 'BinaryOperator' and x.get('opcode') == '+':
                a, b = peel(kids(x)[0]), peel(kids(x)[1])
                if a.get('kind') == 'DeclRefExpr' and (a.get('referencedDecl') or {}).get('id') in self.cursors and \
                        b.get('kind') == 'CXXMemberCallExpr' and callee(b) and callee(b)[1] in ('length', 'size'):
                    ends[i] = (a.get('referencedDecl') or {}).get('id')
        return ends

    # -- pointer expressions
    def ptr(self, e):
        """(cursor id, constant offset) or None; side-effect free forms only."""
        x = peel(e, explicit=False)
        if x is None:
            return None
        k = x.get('kind')
        if k == 'DeclRefExpr':
            i = (x.get('referencedDecl') or {}).get('id')
            return (i, 0) if i in self.cursors else None
        if k == 'UnaryOperator' and x.get('opcode') == '++':
            a = self.ptr(kids(x)[0])
            if a is not None:
                # evaluated after its side effect: prefix yields the new position, postfix the old one
                return (a[0], a[1] + (-1 if x.get('isPostfix') else 0))
        if k == 'BinaryOperator' and x.get('opcode') in ('+', '-'):
            a = self.ptr(kids(x)[0])
            c = self.fold.fold(kids(x)[1])
            if a is not None and c is not None:
                return (a[0], a[1] + (c if x['opcode'] == '+' else -c))
            if x['opcode'] == '+':
                b = self.ptr(kids(x)[1])
                c = self.fold.fold(kids(x)[0])
                if b is not None and c is not None:
                    return (b[0], b[1] + c)
        return None

    def char_of(self, e, alt):
        """Like char_at, but also resolves a char local that still mirrors a character."""
        ca = self.char_at(e)
        if ca is not None:
            return ca
        x = peel(e)
        if x is not None and x.get('kind') == 'DeclRefExpr':
            a = alt.assoc.get((x.get('referencedDecl') or {}).get('id'))
            if a is not None and a[0] == 'char':
                return (a[1], a[2])
        return None

    def char_at(self, e):
        """e reads the character at (cursor, offset): *(c+j), c[j].  Returns (id, j) or None."""
        x = peel(e)
        if x is None:
            return None
        if x.get('kind') == 'UnaryOperator' and x.get('opcode') == '*':
            return self.ptr(kids(x)[0])
        if x.get('kind') == 'ArraySubscriptExpr':
            a = self.ptr(kids(x)[0])
            j = self.fold.fold(kids(x)[1])
            if a is not None and j is not None:
                return (a[0], a[1] + j)
        return None

    # -- obligations
    def oblige(self, node, what, ok, detail):
        k = (id(node), what)
        prev = self._seen_ob.get(k)
        if prev is None:
            self._seen_ob[k] = [node, what, ok, detail]
        else:
            # violated dominates, then "not decidable" (None), then holds
            if prev[2] is False or ok is False:
                comb = False
            elif prev[2] is None or ok is None:
                comb = None
            else:
                comb = True
            if ok is not True and (prev[2] is True or (prev[2] is None and ok is False)):
                prev[3] = detail
            prev[2] = comb

    def need(self, node, alt, cid, j, what):
        """Obligation for reading at offset j (what='read beyond') or advancing by j."""
        nm = self.cursors[cid].get('name')
        k = len(alt.get(cid))
        if cid in alt.mn:
            self.oblige(node, 'use of %s' % nm, False, '%s holds the result of a search that may be null and has not been tested' % nm)
            return
        if what == 'read beyond':
            ok = k >= j and (cid not in alt.past or k > 0 or j < 0)
            if j < 0:
                ok = True
            self.oblige(node, 'read %s[%d]' % (nm, j), ok,
                        '%d character(s) from %s are known to precede the terminator%s, offset %d read' % (
                            k, nm, ' and it may already stand one past it' if cid in alt.past else '', j))
            return
        if j <= 0:
            return
        # forming the pointer one past the terminator is allowed; it must not be read there
        ok = k >= j - 1 and not (cid in alt.past and k == 0)
        self.oblige(node, '%s %s by %d' % (what, nm, j), ok,
                    'only %d character(s) from %s are known to precede the terminator here, advancing by %d' % (k, nm, j))

    def after_advance(self, alt, cid, j):
        """State update for cursor cid moved forward by constant j (obligation already recorded)."""
        k = len(alt.get(cid))
        alt.k[cid] = alt.get(cid)[j:]
        alt.shift(cid, j)
        if k < j:
            alt.past = alt.past | {cid}
        alt.advanced(cid, j)

    # -- evaluation with effects: returns list of alts after evaluating e for effects
    def effects(self, e, alt):
        """Apply reads/advances/assignments of expression e (evaluation order: operands first).
        Returns [alt]."""
        if e is None:
            return [alt]
        x = e
        k = x.get('kind')
        if k in ('LambdaExpr',):
            return [alt]
        if k == 'BinaryOperator' and x.get('opcode') in ('&&', '||'):
            out = []
            for truth in (True, False):
                out += self.refine(x, alt.copy(), truth)
            return self._cap(out)
        if k == 'ConditionalOperator':
            c, a, b = kids(x)
            out = []
            for s in self.refine(c, alt.copy(), True):
                out += self.effects(a, s)
            for s in self.refine(c, alt.copy(), False):
                out += self.effects(b, s)
            return self._cap(out)
        if k in ('BinaryOperator', 'CompoundAssignOperator') and x.get('opcode') in ('=', '+=', '-='):
            lhs, rhs = kids(x)
            lp = self.ptr(lhs)
            if lp is not None and lp[1] == 0 and is_cursor_type(dtype(lhs) or qtype(lhs)):
                outs_ = self.assign(x, lp[0], rhs, alt, x.get('opcode'))
                # a lookup pointer re-assigned (dp = strchr(SET, *++p) in a loop condition): it mirrors the new lookup
                lid = self._local_id(lhs)
                rr_ = peel(rhs)
                if lid is not None and x.get('opcode') == '=' and rr_ is not None and rr_.get('kind') == 'CallExpr' and callee(rr_) and \
                        callee(rr_)[0] == 'fn' and callee(rr_)[1].get('name') == 'strchr':
                    d_ = self.u.by_id.get(lid)
                    if d_ is not None:
                        for s_ in outs_:
                            s_.assoc.pop(lid, None)
                            self._associate(d_, rhs, s_)
                return outs_
            # a plain local re-assigned (d = DigitValue(*p) in a for-increment): it mirrors what it is assigned now
            lid = self._local_id(lhs)
            if lid is not None and x.get('opcode') == '=':
                d_ = self.u.by_id.get(lid)
                outs_ = self.effects(rhs, alt)
                if d_ is not None:
                    for s_ in outs_:
                        s_.assoc.pop(lid, None)
                        s_.nz = s_.nz - {lid}
                        self._associate(d_, rhs, s_)
                return outs_
        if k == 'UnaryOperator' and x.get('opcode') in ('++', '--'):
            p = self.ptr(kids(x)[0])
            if p is not None and p[1] == 0:
                if x.get('opcode') == '++':
                    if not any(q[0] == p[0] for q in alt.lt):
                        self.need(x, alt, p[0], 1, 'advance')
                    else:
                        self.oblige(x, 'advance %s by 1' % self.cursors[p[0]].get('name'), True, 'strictly behind a leading cursor')
                    a2 = alt.copy()
                    strict = any(q[0] == p[0] for q in alt.lt)
                    self.after_advance(a2, p[0], 1)
                    if strict:
                        a2.past = a2.past - {p[0]}
                    return [a2]
                a2 = alt.copy()
                a2.k[p[0]] = ()
                a2.forget(p[0])
                a2.drop(p[0])
                return [a2]
        # reads
        ca = self.char_at(x) if k in ('UnaryOperator', 'ArraySubscriptExpr') else None
        if ca is not None:
            # operand effects first (e.g. *++p)
            outs = [alt]
            sub = kids(x)[0]
            pe = peel(sub, explicit=False)
            if pe.get('kind') == 'UnaryOperator' and pe.get('opcode') in ('++', '--'):
                outs = self.effects(pe, alt)
            for a2 in outs:
                self.need(x, a2, ca[0], ca[1], 'read beyond')
            return outs
        if k == 'UnaryOperator' and x.get('opcode') == '*':
            # *p++ : read at the old position, then advance
            pe = peel(kids(x)[0], explicit=False)
            if pe.get('kind') == 'UnaryOperator' and pe.get('opcode') == '++' and pe.get('isPostfix'):
                return self.effects(pe, alt)
        if k in ('CallExpr', 'CXXMemberCallExpr', 'CXXOperatorCallExpr', 'CXXConstructExpr', 'CXXTemporaryObjectExpr'):
            outs = [alt]
            for a in kids(x):
                nxt = []
                for s in outs:
                    nxt += self.effects(a, s)
                outs = self._cap(nxt)
            # a cursor handed to a function that reads characters through it must point at a character (or the
            # terminator), not one past it
            if k == 'CallExpr' and callee(x) and callee(x)[0] == 'fn' and callee(x)[1].get('_qn', '').startswith('cctz'):
                for a in call_args(x):
                    p = self.ptr(a)
                    if p is not None and p[1] == 0:
                        for s in outs:
                            if p[0] in s.past and len(s.get(p[0])) == 0:
                                self.oblige(x, 'pass %s to %s' % (self.cursors[p[0]].get('name'), callee(x)[1].get('name')), False,
                                            '%s may stand one past the terminator of its string here and the callee reads through it'
                                            % self.cursors[p[0]].get('name'))
            # a cursor whose address is passed may be changed by the callee
            for a in call_args(x):
                pa = peel(a, explicit=False)
                if pa.get('kind') == 'UnaryOperator' and pa.get('opcode') == '&':
                    p = self.ptr(kids(pa)[0])
                    if p is not None:
                        for s in outs:
                            s.k[p[0]] = ()
            return outs
        outs = [alt]
        for c in kids(x):
            nxt = []
            for s in outs:
                nxt += self.effects(c, s)
            outs = self._cap(nxt)
        return outs

    def assign(self, node, cid, rhs, alt, op):
        outs = self.effects(rhs, alt) if op == '=' else [alt]
        res = []
        for s in outs:
            a2 = s.copy()
            if op == '=':
                rr = peel(rhs, explicit=False)
                maynull = rr is not None and rr.get('kind') == 'CallExpr' and callee(rr) and callee(rr)[0] == 'fn' and \
                    callee(rr)[1].get('name') in ('strchr', 'strrchr', 'memchr', 'strpbrk', 'strstr')
                if not maynull and rr is not None and rr.get('kind') == 'CallExpr' and callee(rr) and callee(rr)[0] == 'fn' and \
                        callee(rr)[1].get('_qn'):
                    # a file-local scanner that hands back the cursor or nullptr (some return of it is the null literal)
                    try:
                        summ = self.ctx._helper_summary(callee(rr)[1])
                    except Exception:
                        summ = None
                    if summ is not None and any(v == 'null' for (_, v) in summ[1]):
                        maynull = True
                    elif _returns_nulled_variable(self.ctx, callee(rr)[1]):
                        maynull = True      # (`dp = nullptr; ... return dp;`)
                a2.mn = (a2.mn - {cid}) | ({cid} if maynull else frozenset())
            elif cid in a2.mn:
                self.oblige(node, 'use of %s' % self.cursors[cid].get('name'), False, 'arithmetic on a pointer that may be null')
            if op in ('+=', '-='):
                outs2 = self.effects(rhs, s)
                for s2 in outs2:
                    j = self.amount(rhs, s2)
                    a3 = s2.copy()
                    if op == '+=' and j is not None and j >= 0:
                        self.need(node, s2, cid, j, 'advance')
                        self.after_advance(a3, cid, j)
                    elif op == '+=' and self._bounded_by_leader(node, rhs, cid, s2):
                        self.oblige(node, 'advance %s by a computed amount' % self.cursors[cid].get('name'), True,
                                    'amount is c*((leader - cursor)/c) <= distance to a leading cursor')
                        a3.k[cid] = ()
                        a3.drop(cid)
                        a3.lt = frozenset(p_ for p_ in a3.lt if p_[0] != cid)
                    else:
                        if op == '+=':
                            by_read = self._bounded_by_read(node, rhs, cid)
                            self.oblige(node, 'advance %s by a computed amount' % self.cursors[cid].get('name'), True if by_read else None,
                                        'amount is E + 1 where the character at offset E was read and found not to be the terminator'
                                        if by_read else 'the amount is not a constant on this path and no read of the character before '
                                        'the new position bounds it')
                        a3.k[cid] = ()
                        a3.forget(cid)
                        a3.drop(cid)
                    res.append(a3)
                continue
            r = peel(rhs, explicit=False)
            if r.get('kind') == 'ConditionalOperator':
                c, ta, fb = kids(r)
                for (truth, br) in ((True, ta), (False, fb)):
                    for s2 in self.refine(c, s.copy(), truth):
                        res += self.assign(node, cid, br, s2, '=')
                continue
            if r.get('kind') == 'CallExpr' and callee(r) and callee(r)[0] == 'fn' and \
                    callee(r)[1].get('name') in ('find', 'find_if', 'find_if_not') and len(call_args(r)) >= 2:
                # std::find(first, last, ..): the result lies in [first, last]
                pf, pl = self.ptr(call_args(r)[0]), self.ptr(call_args(r)[1])
                if pf is not None and pl is not None and pf[1] == 0 and pl[1] == 0:
                    if pf[0] == cid:
                        # the cursor only moves forward: what trailed it still trails it
                        a2.le = frozenset(p_ for p_ in a2.le if p_[0] != cid)
                        a2.lt = frozenset(p_ for p_ in a2.lt if p_[0] != cid)
                    else:
                        a2.forget(cid)
                        a2.le = a2.le | {(pf[0], cid)}
                    a2.drop(cid)
                    a2.k[cid] = ()
                    if pl[0] != cid:
                        a2.le = a2.le | {(cid, pl[0])}
                    a2.closure()
                    res.append(a2)
                    continue
            src = self.ptr(r)
            if src is None and r.get('kind') in ('BinaryOperator', 'CompoundAssignOperator') and \
                    r.get('opcode') in ('=', '+=') and self.ptr(kids(r)[0]) is not None:
                src = self.ptr(kids(r)[0])      # a = (b = ...) / a = (b += n): value is b afterwards
            if src is not None and src[0] != cid:
                j = src[1]
                a2.forget(cid)
                a2.drop(cid)
                if src[0] in s.past:
                    a2.past = a2.past | {cid}
                if j > 0:
                    self.need(node, s, src[0], j, 'advance')
                    if len(s.get(src[0])) < j:
                        a2.past = a2.past | {cid}
                    a2.k[cid] = s.get(src[0])[j:]
                    a2.le = a2.le | {(src[0], cid)}
                    a2.lt = a2.lt | {(src[0], cid)}
                    a2.closure()
                elif j == 0:
                    a2.k[cid] = s.get(src[0])
                    a2.le = a2.le | {(src[0], cid), (cid, src[0])}
                    a2.closure()
                else:
                    a2.k[cid] = ()
                res.append(a2)
                continue
            if src is not None and src[0] == cid:
                j = src[1]
                if j > 0:
                    self.need(node, s, cid, j, 'advance')
                    self.after_advance(a2, cid, j)
                elif j < 0:
                    a2.k[cid] = ()
                    a2.forget(cid)
                    a2.drop(cid)
                res.append(a2)
                continue
            pe = r
            if pe.get('kind') == 'UnaryOperator' and pe.get('opcode') in ('++',):
                p = self.ptr(kids(pe)[0])
                if p is not None:
                    # rhs effects already applied (the ++); value = new (prefix) / old (postfix) position
                    a2.forget(cid)
                    if not pe.get('isPostfix'):
                        a2.k[cid] = s.get(p[0])
                        a2.le = a2.le | {(p[0], cid), (cid, p[0])}
                        a2.closure()
                    else:
                        a2.k[cid] = ()
                        a2.le = a2.le | {(cid, p[0])}
                        a2.lt = a2.lt | {(cid, p[0])}
                    res.append(a2)
                    continue
            a2.forget(cid)
            a2.drop(cid)
            # anything else (null, call result, c_str()): nothing known from the new position
            a2.k[cid] = ()
            res.append(a2)
        return self._cap(res)

    def _bounded_by_read(self, node, rhs, cid):
        """rhs == E + 1 (or E with a read at E - 1 ...) where on every path to this statement cursor[E] was compared equal to
        a character other than the terminator, cursor and E unchanged since (must-hold facts of the function)."""
        try:
            F = self.ctx.facts(self.f)
        except Exception:
            return False
        fs = F.facts_at_ast(node) or frozenset()
        ck = '%s#%s' % (self.cursors[cid].get('name'), cid)
        ak = F.keys.key(rhs)
        for (op_, a, b) in fs:
            if op_ != '==':
                continue
            for (mem, val) in ((a, b), (b, a)):
                m = re.match(r'^n:(-?\d+)$', val)
                if not m or int(m.group(1)) == 0:
                    continue
                for pat in (r'^%s\[(.+)\]$' % re.escape(ck), r'^\*\(\(%s \+ (.+)\)\)$' % re.escape(ck)):
                    mm = re.match(pat, mem)
                    if mm and ak in ('(%s + n:1)' % mm.group(1), '(n:1 + %s)' % mm.group(1)):
                        return True
        return False

    def _bounded_by_leader(self, node, rhs, cid, alt):
        """rhs == n * L where L is a local initialised as (leader - cursor) / n, leader >= cursor,
        and neither pointer is written between L's declaration and this statement."""
        from ..expr import Keys
        K = Keys(self.u)
        x = peel(rhs)
        if x.get('kind') != 'BinaryOperator' or x.get('opcode') != '*':
            return False
        a, b = kids(x)
        for (loc, cst) in ((a, b), (b, a)):
            c = self.fold.fold(cst)
            l = peel(loc)
            if c is None or c < 1 or l.get('kind') != 'DeclRefExpr':
                continue
            d = self.u.by_id.get((l.get('referencedDecl') or {}).get('id'))
            if d is None or d.get('kind') != 'VarDecl' or not kids(d):
                continue
            ik = K.key(kids(d)[-1])
            ck = '%s#%s' % (self.cursors[cid].get('name'), cid)
            for (x1, x2) in (alt.le | alt.lt):
                if x1 != cid:
                    continue
                lk = '%s#%s' % (self.cursors[x2].get('name'), x2)
                if ik == '((%s - %s) / n:%d)' % (lk, ck, c):
                    # same compound, nothing between writes either pointer or the local
                    comp = d.get('_p', {}).get('_p')
                    stmts = kids(comp) if comp is not None and comp.get('kind') == 'CompoundStmt' else []
                    try:
                        i0 = [i for i, s_ in enumerate(stmts) if any(y is d for y in walk(s_))][0]
                        i1 = [i for i, s_ in enumerate(stmts) if any(y is node for y in walk(s_))][0]
                    except IndexError:
                        return False
                    from ..expr import written_lvalues
                    for s_ in stmts[i0 + 1:i1]:
                        for lv in written_lvalues(s_):
                            if K.key(lv) in (lk, ck, '%s#%s' % (d.get('name'), d.get('id'))):
                                return False
                    return True
        return False

    def amount(self, e, alt):
        v = self.fold.fold(e)
        if v is not None:
            return v
        x = peel(e)
        if x.get('kind') == 'ConditionalOperator':
            c, a, b = kids(x)
            t = self.truth(c, alt)
            if t is True:
                return self.amount(a, alt)
            if t is False:
                return self.amount(b, alt)
            va, vb = self.amount(a, alt), self.amount(b, alt)
            if va is None or vb is None:
                return None
            return max(va, vb)
        return None

    def truth(self, c, alt):
        """Evaluate a character test against the known characters: True/False/None."""
        x = peel(c)
        if x.get('kind') == 'BinaryOperator' and x.get('opcode') in ('==', '!='):
            a, b = kids(x)
            ca, cb = self.char_at(a), self.char_at(b)
            va, vb = self.fold.fold(a), self.fold.fold(b)
            known = None
            if ca is not None and vb is not None:
                known = self._known(alt, ca)
                want = vb
            elif cb is not None and va is not None:
                known = self._known(alt, cb)
                want = va
            else:
                return None
            if known is None:
                return None
            if known == NN:
                if want == 0:
                    return x['opcode'] == '!='
                return None
            eq = (known == want)
            return eq if x['opcode'] == '==' else not eq
        return None

    def _known(self, alt, ca):
        t = alt.get(ca[0])
        if 0 <= ca[1] < len(t):
            return t[ca[1]]
        return None

    def _cap(self, alts):
        uniq = {}
        for a in alts:
            uniq.setdefault(a.key(), a)
        out = list(uniq.values())
        if len(out) > MAXALT:
            self.capped = True          # knowledge is lost here: a failed obligation afterwards is not a verdict
            return [meet_alts(out)]
        return out

    # -- learn
    def learn(self, alt, ca, val):
        """Position ca is known to hold val (or NN).  Extends the tuple only contiguously."""
        cid, j = ca
        if j < 0:
            if j == -1 and val != 0 and cid in alt.past:
                a2 = alt.copy()
                a2.past = a2.past - {cid}
                return a2
            return alt
        t = list(alt.get(cid))
        if j < len(t):
            if t[j] == NN or val == NN:
                if val != NN:
                    t[j] = val
            elif t[j] != val:
                return None         # contradiction
        elif j == len(t):
            t.append(val)
        else:
            return alt              # a gap: nothing contiguous to record
        a2 = alt.copy()
        a2.k[cid] = tuple(t)
        return a2

    def refine(self, c, alt, truth):
        x = c
        while x.get('kind') in ('ParenExpr', 'ExprWithCleanups', 'ImplicitCastExpr', 'MaterializeTemporaryExpr', 'ConstantExpr'):
            if x.get('kind') == 'ImplicitCastExpr' and x.get('castKind') not in (
                    'IntegralToBoolean', 'PointerToBoolean', 'NoOp', 'IntegralCast', 'LValueToRValue'):
                break
            nx = kids(x)
            if not nx:
                break
            # keep LValueToRValue of a char read: handled by char_at via peel
            if x.get('kind') == 'ImplicitCastExpr' and x.get('castKind') == 'LValueToRValue':
                break
            x = nx[0]
        k = x.get('kind')
        if k == 'UnaryOperator' and x.get('opcode') == '!':
            return self.refine(kids(x)[0], alt, not truth)
        # null tests of a cursor: p, p != nullptr, p == nullptr
        if alt.mn:
            tested, nonnull = None, None
            if k == 'DeclRefExpr' and self.ptr(x) is not None and self.ptr(x)[1] == 0:
                tested, nonnull = self.ptr(x)[0], truth
            elif k == 'BinaryOperator' and x.get('opcode') in ('==', '!='):
                a_, b_ = kids(x)
                for (p_, q_) in ((a_, b_), (b_, a_)):
                    pq = peel(q_)
                    if pq is not None and pq.get('kind') in ('CXXNullPtrLiteralExpr', 'GNUNullExpr') and self.ptr(p_) is not None and self.ptr(p_)[1] == 0:
                        tested, nonnull = self.ptr(p_)[0], (x['opcode'] == '!=') == truth
            if tested is not None and tested in alt.mn:
                a2 = alt.copy()
                if nonnull:
                    a2.mn = a2.mn - {tested}
                return [a2]
        if k == 'BinaryOperator' and x.get('opcode') == '&&':
            a, b = kids(x)
            if truth:
                out = []
                for s in self.refine(a, alt, True):
                    out += self.refine(b, s, True)
                return self._cap(out)
            out = self.refine(a, alt.copy(), False)
            for s in self.refine(a, alt, True):
                out += self.refine(b, s, False)
            return self._cap(out)
        if k == 'BinaryOperator' and x.get('opcode') == '||':
            a, b = kids(x)
            if not truth:
                out = []
                for s in self.refine(a, alt, False):
                    out += self.refine(b, s, False)
                return self._cap(out)
            out = self.refine(a, alt.copy(), True)
            for s in self.refine(a, alt, False):
                out += self.refine(b, s, True)
            return self._cap(out)
        if k == 'ConditionalOperator':
            c2, a, b = kids(x)
            out = []
            for s in self.refine(c2, alt.copy(), True):
                out += self.refine(a, s, truth)
            for s in self.refine(c2, alt.copy(), False):
                out += self.refine(b, s, truth)
            return self._cap(out)
        if k == 'BinaryOperator' and x.get('opcode') in ('==', '!='):
            a, b = kids(x)
            eq = (x['opcode'] == '==') == truth
            outs = []
            for s in self.effects(a, alt):
                outs += self.effects(b, s)
            # (p = scan(..)) != nullptr : the null test of a cursor assigned in the very condition
            tested_ = None
            for (p_, q_) in ((a, b), (b, a)):
                pq = peel(q_)
                pp = peel(p_)
                if pq is not None and pq.get('kind') in ('CXXNullPtrLiteralExpr', 'GNUNullExpr') and pp is not None and \
                        pp.get('kind') == 'BinaryOperator' and pp.get('opcode') == '=':
                    lp_ = self.ptr(kids(pp)[0])
                    if lp_ is not None and lp_[1] == 0:
                        tested_ = lp_[0]
            # strchr(SET, c) == nullptr : c is not in SET -- and strchr finds the terminator of SET, so c is not NUL either
            for (p_, q_) in ((a, b), (b, a)):
                pq = peel(q_)
                pp = peel(p_)
                if pq is not None and pq.get('kind') in ('CXXNullPtrLiteralExpr', 'GNUNullExpr') and pp is not None and \
                        pp.get('kind') == 'CallExpr' and callee(pp) and callee(pp)[0] == 'fn' and callee(pp)[1].get('name') == 'strchr' and \
                        len(call_args(pp)) == 2 and eq:
                    res = []
                    for s in outs:
                        ca_ = self.char_of(call_args(pp)[1], s)
                        r = self.learn(s, ca_, NN) if ca_ is not None else s
                        if r is not None:
                            res.append(r)
                    return self._cap(res)
            if tested_ is not None:
                res = []
                for s in outs:
                    if tested_ in s.mn and not eq:
                        s = s.copy()
                        s.mn = s.mn - {tested_}
                    res.append(s)
                return self._cap(res)
            res = []
            for s in outs:
                ca, cb = self.char_of(a, s), self.char_of(b, s)
                # *++p forms: position after the side effect is (p, 0)
                va, vb = self.fold.fold(a), self.fold.fold(b)
                r = s
                la, lb = self._local_id(a), self._local_id(b)
                if ca is not None and vb is not None:
                    r = self._learn_cmp(s, ca, vb, eq)
                    if r is not None and la is not None and ((eq and vb != 0) or (not eq and vb == 0)):
                        r = r.copy()
                        r.nz = r.nz | {la}
                elif cb is not None and va is not None:
                    r = self._learn_cmp(s, cb, va, eq)
                elif la is not None and vb is not None and ca is None:
                    asc_ = s.assoc.get(la)
                    if asc_ is not None and asc_[0] == 'digitval' and vb == -1 and not eq:
                        r = self.learn(s, (asc_[1], asc_[2]), NN)
                    elif (eq and vb != 0) or (not eq and vb == 0):
                        r = s.copy()
                        r.nz = r.nz | {la}
                elif ca is not None and cb is not None and eq:
                    kb, ka = self._known(s, cb), self._known(s, ca)
                    if kb is not None and kb != 0:
                        r = self.learn(s, ca, kb)
                    elif ka is not None and ka != 0:
                        r = self.learn(s, cb, ka)
                    elif lb is not None and lb in s.nz:
                        r = self.learn(s, ca, NN)
                    elif la is not None and la in s.nz:
                        r = self.learn(s, cb, NN)
                elif ca is not None and lb is not None and lb in s.nz and eq:
                    r = self.learn(s, ca, NN)
                elif cb is not None and la is not None and la in s.nz and eq:
                    r = self.learn(s, cb, NN)
                else:
                    pa, pb = self.ptr(a), self.ptr(b)
                    if pa is not None and pb is not None and pa[1] == 0 and pb[1] == 0 and r is not None:
                        x1, x2 = pa[0], pb[0]
                        r = r.copy()
                        if eq:
                            r.le = r.le | {(x1, x2), (x2, x1)}
                            r.closure()
                            if (x1, x2) in r.lt or (x2, x1) in r.lt:
                                r = None
                        else:
                            if (x1, x2) in r.le:
                                r.lt = r.lt | {(x1, x2)}
                            if (x2, x1) in r.le:
                                r.lt = r.lt | {(x2, x1)}
                            if (x1, x2) in r.le and (x2, x1) in r.le:
                                r = None
                            else:
                                r.closure()
                    if r is None:
                        continue
                    # pointer comparison with an end pointer:  c + j != end
                    for (p, q) in ((pa, pb), (pb, pa)):
                        if p is not None and q is not None and q[1] == 0 and q[0] in self.ends and p[0] not in self.ends:
                            if not eq:
                                # p != end and everything before p is before end  =>  p is before end
                                if len(s.get(p[0])) >= p[1]:
                                    r = self.learn(s, p, NN)
                            else:
                                # p == end: nothing beyond
                                if len(s.get(p[0])) > p[1]:
                                    r = None
                if r is not None:
                    res.append(r)
            return self._cap(res)
        if k == 'BinaryOperator' and x.get('opcode') in ('<', '>=', '>', '<='):
            a, b = kids(x)
            la = self._local_id(a)
            vb = self.fold.fold(b)
            outs = self.effects(x, alt)
            # a character compared with a constant: an outcome that puts it on one side of zero excludes the terminator
            for (e1, e2, flip) in ((a, b, False), (b, a, True)):
                v2 = self.fold.fold(e2)
                if v2 is None or self.fold.fold(e1) is not None:
                    continue
                op = x.get('opcode')
                if flip:
                    op = {'<': '>', '>': '<', '<=': '>=', '>=': '<='}[op]
                if not truth:
                    op = {'<': '>=', '>': '<=', '<=': '>', '>=': '<'}[op]
                nz_ = (op == '>=' and v2 > 0) or (op == '>' and v2 >= 0) or (op == '<=' and v2 < 0) or (op == '<' and v2 <= 0)
                if not nz_:
                    continue
                res = []
                for s_ in outs:
                    ca_ = self.char_of(e1, s_)
                    r = self.learn(s_, ca_, NN) if ca_ is not None else s_
                    if r is not None:
                        res.append(r)
                return res
            if la is not None and vb is not None:
                res = []
                for s_ in outs:
                    asc = s_.assoc.get(la)
                    r = s_
                    if asc is not None and asc[0] == 'digitval':
                        op = x.get('opcode')
                        nonneg = (op == '<' and not truth and vb <= 0) or (op == '>=' and truth and vb >= 0) or \
                            (op == '>' and truth and vb >= -1) or (op == '<=' and not truth and vb >= -1)
                        if nonneg:
                            r = self.learn(s_, (asc[1], asc[2]), NN)      # the character looked up is a digit, so not the terminator
                    if asc is not None and asc[0] == 'digit':
                        n_ = asc[3]
                        op = x.get('opcode')
                        lt_n = (op == '<' and truth and vb <= n_) or (op == '>=' and not truth and vb <= n_) or \
                            (op == '<=' and truth and vb <= n_ - 1) or (op == '>' and not truth and vb <= n_ - 1)
                        if lt_n:
                            r = self.learn(s_, (asc[1], asc[2]), NN)
                    if r is not None:
                        res.append(r)
                return res
            return outs
        if k == 'VarDecl':
            return [alt]
        # character-class calls
        y = peel(x)
        if y is not None and y.get('kind') == 'CallExpr' and callee(y) and callee(y)[0] == 'fn' and \
                callee(y)[1].get('name') in CTYPE and call_args(y):
            outs = self.effects(call_args(y)[0], alt)
            ca = self.char_at(call_args(y)[0])
            res = []
            for s in outs:
                if truth and ca is not None:
                    r = self.learn(s, ca, NN)
                    if r is not None:
                        res.append(r)
                else:
                    res.append(s)
            return res
        # a file-local predicate on a character of the string:  if (!EndsField(*p)) -- what its outcome implies about that
        # character is read off the facts engine's helper summary (the outcome that excludes the terminator)
        if y is not None and y.get('kind') == 'CallExpr' and callee(y) and callee(y)[0] == 'fn' and callee(y)[1].get('_qn') and \
                callee(y)[1].get('name') not in CTYPE and len(call_args(y)) == 1 and self.char_at(call_args(y)[0]) is not None:
            ca = self.char_at(call_args(y)[0])
            try:
                F_ = self.ctx.facts(self.f)
                ck_ = F_.keys.key(call_args(y)[0])
                nonzero = _facts_nonzero(F_.cond_facts(y, truth), ck_)
            except Exception:
                nonzero = False
            outs = self.effects(call_args(y)[0], alt)
            res = []
            for s in outs:
                if nonzero:
                    r = self.learn(s, ca, NN)
                    if r is not None:
                        res.append(r)
                else:
                    res.append(s)
            return res
        # plain character used as a condition:  if (*p)
        ca = self.char_at(x)
        if ca is not None:
            outs = self.effects(x, alt)
            res = []
            for s in outs:
                r = self._learn_cmp(s, ca, 0, not truth)
                if r is not None:
                    res.append(r)
            return res
        return self.effects(x, alt)

    def _local_id(self, e):
        x = peel(e)
        if x is not None and x.get('kind') == 'DeclRefExpr' and (x.get('referencedDecl') or {}).get('kind') in ('VarDecl', 'ParmVarDecl'):
            i = (x.get('referencedDecl') or {}).get('id')
            return i if i not in self.cursors else None
        return None

    def _associate(self, d, init, alt):
        """Record what a freshly initialised local mirrors."""
        t = (dtype(d) or qtype(d)).replace('const ', '').strip()
        x = peel(init)
        if t in ('char', 'signed char', 'unsigned char', 'int') or t.startswith('char'):
            ca = self.char_at(init)
            if ca is not None and d['id'] not in self.cursors:
                alt.assoc[d['id']] = ('char', ca[0], ca[1])
                kn = self._known(alt, ca)
                if kn is not None and kn != 0:
                    alt.nz = alt.nz | {d['id']}
                return
        # d = H(<char>) with H a file-local helper that yields a non-negative value only for a decimal digit
        if x is not None and x.get('kind') == 'CallExpr' and callee(x) and callee(x)[0] == 'fn' and callee(x)[1].get('_qn') and \
                len(call_args(x)) == 1 and callee(x)[1].get('name') not in ('strchr',):
            ca = self.char_at(call_args(x)[0])
            if ca is not None:
                from .c15 import digit_count
                from ..lock import is_internal
                for tg in self.ctx.G.resolve_decl(callee(x)[1]):
                    if is_internal(self.ctx.G.defs[tg][1]):
                        try:
                            worst, _ = digit_count(self.ctx, tg)
                        except Exception:
                            worst = None
                        if worst is not None and worst >= 1:
                            alt.assoc[d['id']] = ('digitval', ca[0], ca[1])
                            return
        # p = strchr(SET, <char>)
        if x is not None and x.get('kind') == 'CallExpr' and callee(x) and callee(x)[0] == 'fn' and \
                callee(x)[1].get('name') == 'strchr' and len(call_args(x)) == 2:
            ca = self.char_at(call_args(x)[1])
            n = self._set_len(call_args(x)[0])
            if ca is not None and n is not None:
                alt.assoc[d['id']] = ('digit', ca[0], ca[1], n, self._set_key(call_args(x)[0]))
            return
        # d = p - SET
        if x is not None and x.get('kind') == 'BinaryOperator' and x.get('opcode') == '-':
            a, b = kids(x)
            pa = peel(a)
            if pa.get('kind') == 'DeclRefExpr':
                asc = alt.assoc.get((pa.get('referencedDecl') or {}).get('id'))
                if asc is not None and asc[0] == 'digit' and len(asc) > 4 and asc[4] == self._set_key(b):
                    alt.assoc[d['id']] = asc

    def _set_key(self, e):
        x = peel(e)
        if x is not None and x.get('kind') == 'DeclRefExpr':
            return (x.get('referencedDecl') or {}).get('id')
        if x is not None and x.get('kind') == 'StringLiteral':
            return x.get('value')
        return None

    def _set_len(self, e):
        x = peel(e)
        if x is None:
            return None
        if x.get('kind') == 'StringLiteral':
            try:
                return len(bytes(x.get('value', '""')[1:-1], 'utf-8').decode('unicode_escape'))
            except Exception:
                return None
        if x.get('kind') == 'DeclRefExpr':
            d = self.u.by_id.get((x.get('referencedDecl') or {}).get('id'))
            if d is not None and kids(d):
                from ..table import table_of
                try:
                    v = table_of(self.u, d)[0]
                    return len(v) - 1 if isinstance(v, list) else None
                except Exception:
                    return None
        return None

    def _learn_cmp(self, s, ca, val, eq):
        """character at ca == val (eq) / != val."""
        known = self._known(s, ca)
        if eq:
            if val == 0:
                # it is the terminator: cannot be a known non-terminator position
                if known is not None:
                    return None
                return s
            return self.learn(s, ca, val)
        # != val
        if val == 0:
            return self.learn(s, ca, NN)
        if known is not None and known == val:
            return None
        return s

    # -- fixpoint
    def _entry_alt(self):
        """What is known on entry: for a file-local helper, a cursor parameter whose argument is, at every call site, a plain
        cursor of the caller whose first character the caller has established not to be the terminator (must-facts there)
        starts with that one character known."""
        a0 = Alt()
        try:
            from ..lock import is_internal
            from ..callgraph import fkey as _fk
            if not is_internal(self.f):
                return a0
            G = self.ctx.G
            me = _fk(self.f)
            sites = [(self.ctx.G.defs[ck][1], site) for ck, es in G.edges.items() for (kind, t, site) in es
                     if kind == 'direct' and t == me and ck in G.defs and ck != me]
            if not sites:
                return a0
            for pi, p_ in enumerate(params_of(self.f)):
                if p_['id'] not in self.cursors:
                    continue
                ok = True
                for (cf, site) in sites:
                    args = call_args(site)
                    if pi >= len(args):
                        ok = False
                        break
                    Fc = self.ctx.facts(cf)
                    ak = Fc.keys.key(args[pi])
                    fs = Fc.facts_at_ast(site) or frozenset()
                    known = any((op == '!=' and set((x1, x2)) == set(('*(%s)' % ak, 'n:0'))) or
                                (op == '==' and '*(%s)' % ak in (x1, x2) and re.match(r'^n:-?[1-9]\d*$', x2 if x1 == '*(%s)' % ak else x1))
                                for (op, x1, x2) in fs)
                    if not known:
                        ok = False
                        break
                if ok:
                    r = self.learn(a0, (p_['id'], 0), NN)
                    if r is not None:
                        a0 = r
        except Exception:
            return Alt()
        return a0

    def run(self):
        g = self.cfg
        e0 = self._entry_alt()
        ins = {g.entry.id: {e0.key(): e0}}
        order = {n.id: i for i, n in enumerate(g.rpo())}
        byid = {n.id: n for n in g.live}
        import heapq
        heap = [(0, g.entry.id)]
        inheap = {g.entry.id}
        steps = 0
        while heap:
            _, nid = heapq.heappop(heap)
            inheap.discard(nid)
            n = byid[nid]
            steps += 1
            if steps > 60000:
                raise AnalysisBroken('cursor analysis exceeded its step budget in %s' % qn(self.f))
            alts = list(ins.get(nid, {}).values())
            outs = []
            for a in alts:
                outs += self.transfer(n, a.copy())
            for (m, a2) in outs:
                tgt = ins.setdefault(m.id, {})
                changed = False
                if a2.key() not in tgt:
                    tgt[a2.key()] = a2
                    changed = True
                    if len(tgt) > MAXALT:
                        mm = meet_alts(list(tgt.values()))
                        tgt.clear()
                        tgt[mm.key()] = mm
                if changed and m.id not in inheap and m.id in order:
                    inheap.add(m.id)
                    heapq.heappush(heap, (order[m.id], m.id))
        self.steps = steps
        return [tuple(v) for v in self._seen_ob.values()]

    def transfer(self, n, alt):
        k = n.kind
        if k in ('entry', 'join', 'loop', 'exit'):
            return [(m, alt) for (m, _) in n.succs]
        if k == 'stmt':
            a = n.ast
            ak = a.get('kind')
            if ak == 'VarDecl':
                ks = kids(a)
                outs = [alt]
                if ks and 'init' in a:
                    if a['id'] in self.cursors:
                        outs = self.assign(a, a['id'], ks[-1], alt, '=')
                    else:
                        outs = self.effects(ks[-1], alt)
                    for s_ in outs:
                        s_.assoc.pop(a['id'], None)
                        s_.nz = s_.nz - {a['id']}
                        self._associate(a, ks[-1], s_)
            elif ak in ('BreakStmt', 'ContinueStmt', 'NullStmt'):
                outs = [alt]
            elif ak == 'ReturnStmt':
                outs = self.effects(kids(a)[0], alt) if kids(a) else [alt]
            else:
                outs = self.effects(a, alt)
            return [(m, s.copy()) for s in outs for (m, _) in n.succs]
        if k == 'cond':
            if n.info == 'range-for':
                return [(m, alt.copy()) for (m, _) in n.succs]
            outs = []
            if n.ast.get('kind') == 'VarDecl':
                return [(m, alt.copy()) for (m, _) in n.succs]
            for truth, lab in ((True, 'T'), (False, 'F')):
                tg = [m for (m, l) in n.succs if l == lab]
                if not tg:
                    continue
                for s in self.refine(n.ast, alt.copy(), truth):
                    for m in tg:
                        outs.append((m, s))
            return outs
        if k == 'switch':
            outs = self.effects(n.ast, alt)
            # switch (*p++): the case value is the character at offset -1: nothing to add
            ca = self.char_at(n.ast)
            res = []
            for s in outs:
                ca_s = ca if ca is not None else self.char_of(n.ast, s)      # switch on a local that holds a character read
                for (m, lab) in n.succs:
                    s2 = s.copy()
                    if isinstance(lab, tuple) and ca_s is not None:
                        v = self.fold.fold(lab[1])
                        if v is not None and v != 0:
                            r = self.learn(s2, ca_s, v)
                            if r is None:
                                continue
                            s2 = r
                    res.append((m, s2))
            return res
        return [(m, alt) for (m, _) in n.succs]


def _returns_nulled_variable(ctx, decl):
    """A library function that returns a pointer variable which some statement of it sets to the null literal."""
    try:
        tgs = ctx.G.resolve_decl(decl)
    except Exception:
        return False
    for t in tgs:
        if t not in ctx.G.defs:
            continue
        u, f = ctx.G.defs[t]
        rv = set()
        for x in walk(f):
            if x.get('kind') == 'ReturnStmt' and kids(x):
                r = peel(kids(x)[0])
                if r is not None and r.get('kind') == 'DeclRefExpr':
                    rv.add((r.get('referencedDecl') or {}).get('id'))
        for x in walk(f):
            if x.get('kind') == 'BinaryOperator' and x.get('opcode') == '=' and (peel(kids(x)[0]).get('referencedDecl') or {}).get('id') in rv:
                r = peel(kids(x)[1])
                if r is not None and r.get('kind') in ('CXXNullPtrLiteralExpr', 'GNUNullExpr'):
                    return True
    return False


def lookup_in_loop_condition(f):
    """A character lookup whose result is assigned inside a loop condition (`while ((dp = strchr(SET, *++p)) != nullptr)`): what
    the loop body then establishes about the character just looked up is not carried round the loop by the typestate."""
    for lp in walk(f):
        if lp.get('kind') not in ('WhileStmt', 'ForStmt', 'DoStmt'):
            continue
        ks = lp.get('inner') or []
        cond = ks[2] if lp.get('kind') == 'ForStmt' and len(ks) == 5 else ks[-2] if lp.get('kind') == 'WhileStmt' and len(ks) >= 2 else \
            ks[-1] if lp.get('kind') == 'DoStmt' and ks else None
        if not cond or not cond.get('kind'):
            continue
        for y in walk(cond):
            if y.get('kind') == 'BinaryOperator' and y.get('opcode') == '=':
                r = peel(kids(y)[1])
                if r is not None and r.get('kind') == 'CallExpr' and callee(r) and callee(r)[0] == 'fn' and \
                        callee(r)[1].get('name') in ('strchr', 'memchr'):
                    return True
    return False


def check_function(ctx, rule, fkey):
    ca = CursorAnalysis(ctx, fkey)
    obs = ca.run()
    n = 0
    unfollowed = lookup_in_loop_condition(ctx.G.defs[fkey][1])
    if getattr(ca, 'capped', False):
        ctx.stats.setdefault('cursor_capped', []).append(fname(fkey).split('(')[0])
    for (node, what, ok, detail) in obs:
        n += 1
        if ok is False and getattr(ca, 'capped', False):
            ok = None
            detail = 'more than %d alternative states of the scan met at one point and were merged: what was known about the ' \
                     'characters was lost there (%s)' % (MAXALT, detail)
        if ok is False and unfollowed:
            ok = None
            detail = 'a lookup result is assigned inside a loop condition: what the body establishes about the character is not ' \
                     'carried round the loop (%s)' % detail
        ctx.check3(ok, rule, '%s at %s in %s' % (what, pos(node), fname(fkey).split('(')[0]), node,
                   'the cursor can be moved or read past the terminator of its string: %s' % detail,
                   construct='cursor:%s:%s' % (fname(fkey).split('(')[0], what), detail='known characters suffice on every path',
                   unknown_why=detail)
    ctx.stats.setdefault('cursor_steps', {})[fname(fkey).split('(')[0]] = ca.steps
    return n
