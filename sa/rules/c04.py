"""C04 — civil-time construction normalises to a valid date-time (field-range and alignment clauses)."""
import re
from ..frontend import (kids, walk, qn, qtype, dtype, pos, AnalysisBroken, Program, CONTROLS, REPO, params_of)
from ..expr import callee, call_args, peel, Keys
from ..callgraph import CallGraph, fname
from ..absint import AI, Observer, St, Int, StructV, vjoin, INF
from .tables import check_month_tables

EXPLANATION = (
    'Interval abstract interpretation of the normalisation chain on the AST. C04-range: starting '
    'from impl::n_sec with all six arguments unconstrained 64-bit integers, and from each step(tag, '
    'f, n) with f any in-range fields value and n unconstrained, the chain n_sec -> n_min -> n_hour '
    '-> n_mon -> n_day is abstractly inlined (loops by Kleene iteration with threshold widening, '
    'days_per_month by case split on the month, one difference-bound fact for "d > n then d -= n"); '
    'at every construction of a fields value the month is in [1,12], the day in [1,31], the hour in '
    '[0,23], minute and second in [0,59], every narrowing static_cast in the chain preserves its '
    'value and the days_per_month table is subscripted in bounds. C04-ovf: every arithmetic node of '
    'the chain whose interval can leave 64 bits has a year operand (the documented exception), so no '
    'non-year intermediate overflows. C04-align: each align(tag, f) '
    'keeps the fields at or above the tag and resets those below to their minimum. C04-funnel: in a '
    'witness unit that instantiates civil_time<T> for the six tags, every constructor other than the '
    'copy constructor reaches the designated civil_time(fields) constructor whose initialiser is '
    'align(T{}, f); the default constructor stores the already-minimal epoch. C04-tags: for each tag '
    'there is an align overload of its own and the designated constructor of civil_time<tag> resolves '
    'align to exactly it (tag inheritance would otherwise pick a finer unit\'s overload silently). C04-months: days_per_month\'s table is the Gregorian month '
    'lengths. Does not decide that the normalised date is the right one, d <= days-in-month, nor '
    'the no-intermediate-overflow clause.')
LEVEL = ('Abstract-interpretation proof over all 2^384 argument tuples of the accessor ranges month 1-12, day 1-31, '
         'hour 0-23, minute/second 0-59, plus structural proof of alignment; value-exactness is out of reach.')
LEVEL_NOTE = ('Trusts clang 14 AST and the interval interpreter in sa/absint.py (sound over-approximation; signed '
              'overflow in year arithmetic is modelled as any value of the type).')
TECHNIQUE = 'interval abstract interpretation with abstract inlining + resolved-overload checks in an instantiation witness unit'

RANGES = [('y', None), ('m', (1, 12)), ('d', (1, 31)), ('hh', (0, 23)), ('mm', (0, 59)), ('ss', (0, 59))]
TAGS = ['second_tag', 'minute_tag', 'hour_tag', 'day_tag', 'month_tag', 'year_tag']
I64 = Int(-2 ** 63, 2 ** 63 - 1)


class _Obs(Observer):
    def __init__(self):
        self.ctor = {}
        self.narrow = {}
        self.subs = {}
        self.casts = {}

    def call(self, ai, site, fkey, vals, st):
        if fkey[0] == 'cctz::detail::fields::fields' and len(fkey[1]) == 6:
            cur = self.ctor.setdefault(id(site), [site] + [None] * 6)
            for i, (k, v) in enumerate(vals):
                cur[i + 1] = v if cur[i + 1] is None else vjoin(cur[i + 1], v)

    def narrowing(self, ai, e, val, it, explicit, st):
        if explicit:
            self.narrow[id(e)] = (e, val, it)

    def subscript(self, ai, e, ext, idx, st):
        cur = self.subs.get(id(e))
        self.subs[id(e)] = (e, ext, idx if cur is None else cur[2].join(idx))

    def overflow(self, ai, e, val, it, st):
        self.ovf = getattr(self, 'ovf', {})
        self.ovf[id(e)] = (e, val, it)


def run(ctx):
    G = ctx.G
    # ---- C04-range
    obs = _Obs()
    ai = AI(G, obs)
    entries = []
    k = G.one('cctz::detail::impl::n_sec')
    u, f = G.defs[k]
    st = St()
    for p in params_of(f):
        st.mem[(p['id'],)] = I64
    entries.append(('n_sec(any six 64-bit integers)', k, st))
    for key in G.find('cctz::detail::step'):
        u, f = G.defs[key]
        ps = params_of(f)
        st = St()
        fid = ps[1]['id']
        for (fld, rg) in RANGES:
            st.mem[(fid, fld)] = I64 if rg is None else Int(rg[0], rg[1])
        st.mem[(ps[2]['id'],)] = I64
        entries.append(('step(%s, in-range fields, any n)' % key[1][0], key, st))
    for fn_ in ('align',):
        have = set(k_[1][0] for k_ in G.find('cctz::detail::' + fn_))
        for tag in TAGS:
            ctx.check(tag in have, 'C04-tags', '%s has its own overload for %s' % (fn_, tag), None,
                      'there is no %s overload for %s: because the tags inherit from each other, calls for this '
                      'alignment silently select the overload of a finer unit' % (fn_, tag),
                      construct='tags:overload:%s:%s' % (fn_, tag))
    if len(entries) < 2:
        raise AnalysisBroken('C04-range: no step overloads found')
    results = {}
    for (what, key, st) in entries:
        res = ai.analyse(key, st)
        if not res:
            raise AnalysisBroken('C04-range: no result for %s' % what)
        hull = {}
        for (v, s) in res:
            if not isinstance(v, StructV):
                raise AnalysisBroken('C04-range: %s does not return a fields value' % what)
            for (fld, rg) in RANGES:
                x = s.mem.get(v.loc + (fld,))
                hull[fld] = x if fld not in hull else vjoin(hull[fld], x)
        results[what] = hull
        for (fld, rg) in RANGES:
            if rg is None:
                continue
            x = hull.get(fld)
            ok = isinstance(x, Int) and x.within(rg[0], rg[1])
            ctx.check(ok, 'C04-range', '%s returns %s in [%d,%d]' % (what, fld, rg[0], rg[1]), G.defs[key][1],
                      'the %s field of the value returned by %s can be %s, outside [%d,%d]: an accessor of a '
                      'constructed civil time can return an invalid %s' % (fld, what, x, rg[0], rg[1], fld),
                      construct='range:%s:%s' % (what.split('(')[0] + (':' + key[1][0] if 'step' in what else ''), fld),
                      detail=str(x))
    for (site, *vals) in obs.ctor.values():
        for (fld, rg), x in zip(RANGES, vals):
            if rg is None:
                continue
            ok = isinstance(x, Int) and x.within(rg[0], rg[1])
            ctx.check(ok, 'C04-range', 'fields(...) constructed at %s: %s in [%d,%d]' % (pos(site), fld, rg[0], rg[1]), site,
                      'a fields value is built with %s = %s, outside [%d,%d]' % (fld, x, rg[0], rg[1]),
                      construct='ctor:%s:%s' % (_fn_of(site), fld), detail=str(x))
    # narrowing casts in the chain
    chain = set()
    for name in ('n_sec', 'n_min', 'n_hour', 'n_mon', 'n_day'):
        kk = G.one('cctz::detail::impl::' + name)
        for x in walk(G.defs[kk][1]):
            if x.get('kind') == 'CXXStaticCastExpr':
                chain.add(id(x))
                bad = obs.narrow.get(id(x))
                for y in walk(x):
                    if bad is None and y.get('isPartOfExplicitCast') and id(y) in obs.narrow:
                        bad = obs.narrow[id(y)]
                ctx.check(bad is None, 'C04-range', 'static_cast<%s> in %s preserves its value' % (qtype(x), name), x,
                          'the narrowing cast can change the value: operand %s does not fit %s' % (
                              bad[1] if bad else '', qtype(x)), construct='cast:%s:%s' % (name, qtype(x)),
                          detail='value fits the target type')
    for (e, ext, idx) in obs.subs.values():
        ctx.check(idx.lo >= 0 and idx.hi < ext, 'C04-range', 'table subscript at %s in [0,%d)' % (pos(e), ext), e,
                  'a constant table is subscripted with %s, extent %d' % (idx, ext), construct='sub:%s' % _fn_of(e),
                  detail=str(idx))
    # C04-ovf: arithmetic that can leave its type for some 64-bit arguments involves the year only
    n_ovf = 0
    for (e, val, it) in getattr(obs, 'ovf', {}).values():
        n_ovf += 1
        ops = kids(e)
        year_op = any(qtype(c) == 'cctz::year_t' or (peel(c) is not None and peel(c).get('kind') == 'MemberExpr' and peel(c).get('name') == 'y')
                      or any(qtype(y) == 'cctz::year_t' for y in walk(c) if y.get('kind') == 'DeclRefExpr') for c in ops)
        ctx.check(year_op, 'C04-ovf', 'possibly overflowing %s at %s involves the year' % (e.get('opcode'), pos(e)), e,
                  'this intermediate arithmetic can overflow 64 bits for arguments whose normalised year is representable '
                  '(no operand is a year): the construction is not exact near the limits of the non-year fields',
                  construct='ovf:%s:%s' % (_fn_of(e), e.get('opcode')), detail='operand types %s' % [qtype(c) for c in ops])
    ctx.check(n_ovf >= 5, 'C04-ovf', 'year arithmetic is the only arithmetic that can overflow (%d nodes)' % n_ovf, None,
              'expected the year computations to be reported as possibly overflowing', construct='ovf:count')
    ctx.stats['absint'] = dict(ai.stats)
    ctx.minimum('C04-range', 45)
    ctx.minimum('C04-ovf', 6)

    # ---- C04-align
    aligns = G.find('cctz::detail::align')
    if len(aligns) != 6:
        ctx.bad('C04-align', 'six align overloads', None, 'found %d align overloads' % len(aligns), construct='align-count')
    mins = {'m': 1, 'd': 1, 'hh': 0, 'mm': 0, 'ss': 0}
    order = ['ss', 'mm', 'hh', 'd', 'm', 'y']       # index = position of the tag
    for key in aligns:
        u, f = G.defs[key]
        tag = key[1][0]
        if tag not in TAGS:
            continue
        t = TAGS.index(tag)
        K = Keys(u)
        ps = params_of(f)
        fk = '%s#%s' % (ps[1]['name'], ps[1]['id'])
        rets = [x for x in walk(f) if x.get('kind') == 'ReturnStmt']
        got = None
        if len(rets) == 1:
            r = peel(kids(rets[0])[0])
            while r.get('kind') in ('CXXConstructExpr', 'CXXFunctionalCastExpr', 'CXXTemporaryObjectExpr') and len(call_args(r)) == 1 \
                    and peel(call_args(r)[0]).get('kind') in ('CXXConstructExpr', 'CXXTemporaryObjectExpr', 'InitListExpr', 'DeclRefExpr'):
                r = peel(call_args(r)[0])
            if r.get('kind') == 'DeclRefExpr':
                got = ['%s.%s' % (fk, n) for (n, _) in RANGES]
            elif r.get('kind') in ('CXXConstructExpr', 'CXXTemporaryObjectExpr', 'InitListExpr'):
                args = call_args(r) if r.get('kind') != 'InitListExpr' else kids(r)
                got = [K.key(a) for a in args]
        for i, (fld, rg) in enumerate(RANGES):
            keep = order.index(fld) >= t
            want = '%s.%s' % (fk, fld) if keep else 'n:%d' % mins[fld]
            g_ = got[i] if got and len(got) == 6 else None
            ctx.check(g_ == want, 'C04-align', 'align(%s): %s %s' % (tag, fld, 'kept' if keep else 'reset to %d' % mins[fld]), f,
                      'align(%s) passes %s for field %s; a %s-aligned value must %s' % (
                          tag, g_, fld, tag.replace('_tag', ''), 'keep it' if keep else 'reset it to %d' % mins[fld]),
                      construct='align:%s:%s' % (tag, fld), detail=str(g_))
    ctx.minimum('C04-align', 36)

    # ---- C04-funnel / C04-tags in the witness unit
    W = Program(tag='witness-' + ctx.P.std.replace('+', 'p'), std=ctx.P.std,
                sources=[CONTROLS + '/civil_instantiate.cc'], prefixes=(ctx.P.repo + '/', CONTROLS + '/'), repo=ctx.P.repo)
    GW = CallGraph(W)
    for tag in TAGS:
        cls = 'cctz::detail::civil_time<%s>' % tag
        ctors = [k for k in GW.defs if k[0] == cls + '::civil_time']
        designated = [k for k in ctors if k[1] == ('fields',)]
        if len(designated) != 1:
            ctx.bad('C04-funnel', '%s: designated constructor' % cls, None, 'civil_time(fields) not instantiated',
                    construct='designated:%s' % tag)
            continue
        des = designated[0]
        u, f = GW.defs[des]
        # initialiser f_(align(T{}, f))
        callees = [t for (kind, t, s) in GW.edges[des] if kind == 'direct' and t[0] == 'cctz::detail::align']
        ok = len(callees) == 1 and callees[0][1][0] == tag
        ctx.check(ok, 'C04-tags', '%s(fields) aligns with align(%s, .)' % (cls, tag), f,
                  'the designated constructor of %s resolves align to %s: values of this alignment keep (or lose) the '
                  'wrong fields' % (cls, [fname(c) for c in callees]), construct='tags:align:%s' % tag,
                  detail=fname(callees[0]) if callees else 'none')
        inits = [c for c in kids(f) if c.get('kind') == 'CXXCtorInitializer']
        ok = len(inits) == 1 and (inits[0].get('anyInit') or {}).get('name') == 'f_' and any(
            x.get('kind') == 'CallExpr' and callee(x) and callee(x)[0] == 'fn' and callee(x)[1].get('name') == 'align'
            for x in walk(inits[0]))
        ctx.check(ok, 'C04-funnel', '%s(fields) stores align(T{}, f)' % cls, f,
                  'the designated constructor does not initialise its fields from align(...)', construct='funnel:des:%s' % tag)
        for k in ctors:
            if k == des:
                continue
            u2, f2 = GW.defs[k]
            if len(k[1]) == 1 and k[1][0].replace('const', '').replace('&', '') == 'civil_time<%s>' % tag:
                continue   # copy constructor (defaulted)
            if len(k[1]) == 0:
                # default constructor: literal epoch, already minimal below every tag
                lits = []
                for c in kids(f2):
                    if c.get('kind') == 'CXXCtorInitializer':
                        for x in walk(c):
                            if x.get('kind') == 'IntegerLiteral':
                                lits.append(int(x['value']))
                ctx.check(lits == [1970, 1, 1, 0, 0, 0], 'C04-funnel', '%s() is 1970-01-01 00:00:00' % cls, f2,
                          'the default value %s is not the (aligned) epoch' % lits, construct='funnel:default:%s' % tag,
                          detail=str(lits))
                continue
            reach = GW.reachable([k])
            ctx.check(des in reach, 'C04-funnel', '%s reaches the designated constructor' % fname(k), f2,
                      'a constructor of %s stores fields without passing through civil_time(fields) / align' % cls,
                      construct='funnel:%s' % fname(k))
            if len(k[1]) == 6:
                ctx.check(GW.one('cctz::detail::impl::n_sec') in reach, 'C04-funnel', '%s normalises through n_sec' % fname(k), f2,
                          'the six-field constructor does not normalise its arguments', construct='funnel:nsec:%s' % tag)
                # every argument reaches the normaliser as it was given, in its own position: the carry out of a field
                # that the alignment later drops still has to arrive in the fields that are kept
                from ..frontend import params_of as _params_of
                ps6 = _params_of(f2)
                calls6 = [x for x in walk(f2) if x.get('kind') == 'CallExpr' and callee(x) and callee(x)[0] == 'fn' and
                          callee(x)[1].get('name') == 'n_sec']
                if len(calls6) != 1 or len(call_args(calls6[0])) != 6 or len(ps6) != 6:
                    ctx.unknown('C04-funnel', '%s passes its six arguments to n_sec' % fname(k), f2,
                                'the six-field constructor does not call n_sec(y, m, d, hh, mm, ss) itself', construct='funnel:args:%s' % tag)
                else:
                    wrong = []
                    for i_, (p6, a6) in enumerate(zip(ps6, call_args(calls6[0]))):
                        a6p = peel(a6, explicit=True)
                        if not (a6p.get('kind') == 'DeclRefExpr' and (a6p.get('referencedDecl') or {}).get('id') == p6['id']):
                            wrong.append('%s <- %s' % (p6.get('name'), Keys(u2).key(a6)))
                    ctx.check(not wrong, 'C04-funnel', '%s passes its six arguments to n_sec unchanged' % fname(k), calls6[0],
                              'the normaliser is not given the constructor arguments as they are (%s): an out-of-range value of that '
                              'field no longer carries into the fields this alignment keeps' % '; '.join(wrong),
                              construct='funnel:args:%s' % tag)
    ctx.minimum('C04-funnel', 30)
    ctx.minimum('C04-tags', 12)

    # ---- C04-months
    check_month_tables(ctx, 'C04-months', civil=True, tz=False)
    ctx.minimum('C04-months', 40)


def _fn_of(site):
    from ..frontend import enclosing_function
    f = enclosing_function(site)
    if f is None:
        return '?'
    t = qtype(f)
    m = re.search(r'\((cctz::detail::\w+_tag)', t)
    return (qn(f).split('::')[-1]) + (':' + m.group(1).split('::')[-1] if m else '')
