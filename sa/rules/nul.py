"""Shared SIB rule: a strchr(<constant set>, c) lookup whose result is used as a digit
value must exclude the terminating NUL (strchr finds the terminator of the set)."""
import re
from ..frontend import kids, walk, qn, qtype, dtype, pos, ancestors
from ..expr import callee, call_args, peel, Keys, Folder
from ..callgraph import fname
from ..table import table_of


def strchr_sites(ctx, unit_filter=None):
    out = []
    for k, (u, f) in ctx.G.defs.items():
        if unit_filter and not unit_filter(k, u, f):
            continue
        for x in walk(f):
            if x.get('kind') == 'CallExpr' and callee(x) and callee(x)[0] == 'fn' and \
                    callee(x)[1].get('name') in ('strchr', 'memchr', 'index'):
                out.append((k, u, f, x))
    return out


def fold_char(u, e):
    return Folder(u).fold(e)


def check_site(ctx, rule, k, u, f, call):
    """Returns True when an obligation was generated (digit use)."""
    F = ctx.facts(f)
    keys = F.keys
    raw = Keys(u)
    args = call_args(call)
    setk = raw.key(args[0])
    # length of the set
    n = None
    a0 = peel(args[0])
    if a0.get('kind') == 'DeclRefExpr':
        d = u.by_id.get((a0.get('referencedDecl') or {}).get('id'))
        if d is not None and kids(d):
            try:
                vals = table_of(u, d)[0]
                n = len(vals) - 1 if isinstance(vals, list) else None
            except Exception:
                n = None
    elif a0.get('kind') == 'StringLiteral':
        n = len(bytes(a0.get('value', '""')[1:-1], 'utf-8').decode('unicode_escape'))
    if n is None and fold_char(u, args[1]) is not None:
        return False         # strchr(<input>, <constant char>): a search in the input, not a lookup in a digit set
    ck = keys.key(args[1])
    # is the character known non-NUL when the lookup is made?
    fs = F.facts_at_ast(call) or frozenset()
    c_nonnul = any(op == '!=' and set((a, b)) == set((ck, 'n:0')) for (op, a, b) in fs)
    # the pointer the result is bound to
    pv = None
    for a in ancestors(call):
        if a.get('kind') == 'VarDecl':
            pv = a
            break
        if a.get('kind') not in ('ImplicitCastExpr', 'ParenExpr'):
            break
    if pv is None:
        return False         # membership test only
    pid = pv['id']
    # digit uses: (pv - set)
    diffs = []
    for x in walk(f):
        if x.get('kind') == 'BinaryOperator' and x.get('opcode') == '-':
            l, r = kids(x)
            if (peel(l).get('referencedDecl') or {}).get('id') == pid and raw.key(r) == setk:
                diffs.append(x)
    if not diffs:
        return False
    where = fname(k)
    for dx in diffs:
        # the local the difference is bound to (or the expression itself)
        dv = None
        for a in ancestors(dx):
            if a.get('kind') == 'VarDecl':
                dv = a
                break
            if a.get('kind') == 'BinaryOperator' and a.get('opcode') == '=' and peel(kids(a)[0]).get('kind') == 'DeclRefExpr' and \
                    (peel(kids(a)[0]).get('referencedDecl') or {}).get('kind') == 'VarDecl':
                dv = u.by_id.get(peel(kids(a)[0])['referencedDecl'].get('id'))      # (an existing local given the digit value anew)
                break
            if a.get('kind') not in ('ImplicitCastExpr', 'ParenExpr', 'CXXStaticCastExpr', 'CStyleCastExpr'):
                break
        ok = c_nonnul
        why = ''
        if not ok and dv is None:
            # stored into an array element (digits[i] = dp - set): which guard covers which element is not followed
            asg = None
            for a in ancestors(dx):
                if a.get('kind') == 'BinaryOperator' and a.get('opcode') == '=':
                    asg = a
                    break
                if a.get('kind') not in ('ImplicitCastExpr', 'ParenExpr', 'CXXStaticCastExpr', 'CStyleCastExpr'):
                    break
            if asg is not None and peel(kids(asg)[0]).get('kind') in ('ArraySubscriptExpr', 'CXXOperatorCallExpr'):
                ctx.unknown(rule, 'digit lookup strchr(%s, %s) in %s excludes NUL' % (setk.split('#')[0], ck.split('#')[0][:30], where), dx,
                            'the digit value is stored in an array element (%s): the test that excludes the terminator is not tied to '
                            'the element' % raw.key(kids(asg)[0]), construct='nul:%s:%s' % (where, pv.get('name')))
                continue
        if not ok and dv is not None and n is not None:
            dk = keys.subst.get(dv['id'], '%s#%s' % (dv['name'], dv['id']))
            uses = [y for y in walk(f) if y.get('kind') == 'DeclRefExpr' and (y.get('referencedDecl') or {}).get('id') == dv['id']]
            bad = []
            for y in uses:
                nodes = ctx.cfg(f).nodes_for(y)
                if nodes and all(nn.kind == 'cond' for nn in nodes):
                    # is this the guard itself?  (d >= n / d < n / d == n ...)
                    cf = F.cond_facts(nodes[0].ast, True) + F.cond_facts(nodes[0].ast, False)
                    if any(dk in (a, b) for (op, a, b) in cf):
                        continue
                fs2 = F.facts_at_ast(y) or frozenset()
                lt = any((op == '<' and a == dk and b.startswith('n:') and int(b[2:]) <= n) or
                         (op == '<=' and a == dk and b.startswith('n:') and int(b[2:]) <= n - 1) for (op, a, b) in fs2)
                if not lt:
                    bad.append(y)
            ok = not bad
            if bad:
                why = 'value used at %s without d < %d' % (pos(bad[0]), n)
        elif not ok:
            why = 'digit value used directly without excluding the terminator'
        ctx.check(ok, rule, 'digit lookup strchr(%s, %s) in %s excludes NUL' % (setk.split('#')[0], ck.split('#')[0][:30], where), dx,
                  'strchr also finds the terminating NUL of the digit set, so a NUL input byte is taken for the digit %s: %s'
                  % (n, why), construct='nul:%s:%s' % (where, pv.get('name')), detail='guard d < %s or c != 0' % n)
    return True
