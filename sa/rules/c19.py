"""C19 — names resolve as documented; failures always fall back to UTC (fallback clause)."""
import re
from ..frontend import kids, walk, qn, qtype, dtype, pos, ancestors, AnalysisBroken, params_of
from ..expr import callee, call_args, peel, Keys
from ..callgraph import fname
from ..effects import var_refs
from . import loader

EXPLANATION = (
    'Definite-assignment and dominance analysis of the fallback clause. On every return of the '
    'cache-owning loader the out time_zone has been assigned, and the boolean returned is the '
    'comparison of that very value with the UTC singleton (or literal true together with the '
    'singleton): false implies UTC (C19-out). A default-constructed time_zone carries a null Impl '
    'which effective_impl maps to the UTC singleton, and equality compares effective Impls '
    '(C19-null). local_time_zone and fixed_time_zone return the zone load_time_zone wrote, with no '
    'later write (C19-local). Impl(name) stores the requested name and Name() returns it, '
    'and every lookup in / insertion into the name cache made by the loader is keyed by the very name the Impl is built '
    'with, so two spellings never share an entry (C19-name). The environment variables consulted and the default paths are the ones the '
    'property names, and an empty/unset TZDIR keeps the default (C19-env). Does not decide the '
    'file-system resolution matrix itself.')
LEVEL = ('Path-insensitive-free structural proof (all paths of four small functions) of the "failure means UTC" '
         'clause and of the constants of name resolution; the environment matrix itself is runtime configuration.')
LEVEL_NOTE = 'Trusts clang 14 AST and sa/; the $TZDIR/$TZ/$LOCALTIME/file: resolution behaviour is not decided.'
TECHNIQUE = 'definite assignment + must-hold branch facts (dominance) + must-pass-through on the CFG + resolved string-constant agreement'


def _subst_const_locals(u, F, key, depth=0):
    """Replace write-once const locals in a key by what they were initialised from."""
    if depth > 3:
        return key
    out = key
    for m in re.finditer(r'\b(\w+)#(0x[0-9a-f]+)', key):
        d = u.by_id.get(m.group(2))
        if d is not None and d.get('kind') == 'VarDecl' and kids(d) and re.search(r'\bconst\b', qtype(d) or '') and '&' not in (qtype(d) or ''):
            ik = F.ident_key(kids(d)[-1])
            if ik and ik != m.group(0):
                out = out.replace(m.group(0), ik)
    return out if out == key else _subst_const_locals(u, F, out, depth + 1)


def _owner_fn(x):
    """The function (or lambda call operator) whose body directly contains x."""
    p_ = x.get('_p')
    while p_ is not None:
        if p_.get('kind') in ('FunctionDecl', 'CXXMethodDecl', 'CXXConstructorDecl', 'CXXDestructorDecl', 'CXXConversionDecl'):
            return p_
        if p_.get('kind') == 'LambdaExpr':
            # (clang lists the body twice: inside the closure type's call operator and as a child of the expression)
            for y in walk(p_):
                if y.get('kind') == 'CXXMethodDecl' and y.get('name') == 'operator()':
                    return y
        p_ = p_.get('_p')
    return None


def _strip_tmp(e):
    x = peel(e)
    while x is not None and x.get('kind') in ('ExprWithCleanups', 'MaterializeTemporaryExpr', 'CXXBindTemporaryExpr') and kids(x):
        x = peel(kids(x)[0])
    return x


def _strip_ctor(e):
    x = _strip_tmp(e)
    while x is not None and x.get('kind') in ('CXXConstructExpr', 'ImplicitCastExpr', 'CXXFunctionalCastExpr') and \
            len([a for a in kids(x) if a.get('kind') != 'CXXDefaultArgExpr']) == 1:
        x = _strip_tmp([a for a in kids(x) if a.get('kind') != 'CXXDefaultArgExpr'][0])
    return x


def _holder_getter(G, wrappers, call):
    """The member call returns the member that the class's environment-reading constructor stored getenv(..) into."""
    from .c20 import call_targets
    for t in call_targets(G, call):
        if t not in G.defs:
            continue
        hu, hf = G.defs[t]
        rets = [y for y in walk(hf) if y.get('kind') == 'ReturnStmt' and kids(y)]
        if len(rets) != 1:
            return False
        m = peel(kids(rets[0])[0])
        if m.get('kind') != 'MemberExpr' or peel(kids(m)[0]).get('kind') != 'CXXThisExpr':
            return False
        cls = t[0].rsplit('::', 1)[0]
        for w in wrappers:
            if w[0] == cls + '::' + cls.split('::')[-1]:
                wu, wf = G.defs[w]
                for y in walk(wf):
                    if y.get('kind') == 'BinaryOperator' and y.get('opcode') == '=' and peel(kids(y)[0]).get('kind') == 'MemberExpr' and \
                            peel(kids(y)[0]).get('name') == m.get('name'):
                        r = _strip_tmp(kids(y)[1])
                        if r.get('kind') == 'CallExpr' and callee(r) and callee(r)[0] == 'fn' and \
                                callee(r)[1].get('name') in ('getenv', 'secure_getenv'):
                            return True
                    if y.get('kind') == 'CXXCtorInitializer' and (y.get('anyInit') or {}).get('name') == m.get('name'):
                        r = _strip_tmp(kids(y)[0]) if kids(y) else None
                        if r is not None and r.get('kind') == 'CallExpr' and callee(r) and callee(r)[0] == 'fn' and \
                                callee(r)[1].get('name') in ('getenv', 'secure_getenv'):
                            return True
        return False
    return False


def _env_wrappers(G):
    """Internal functions / lambdas that hand back getenv(<their own parameter>): {function key: parameter index}."""
    out = {}
    for kk, (u, f) in G.defs.items():
        ps = params_of(f)
        for x in walk(f):
            if _owner_fn(x) is not f:
                continue
            if x.get('kind') == 'CallExpr' and callee(x) and callee(x)[0] == 'fn' and callee(x)[1].get('name') in ('getenv', 'secure_getenv') \
                    and call_args(x):
                a = peel(call_args(x)[0])
                if a.get('kind') == 'DeclRefExpr' and (a.get('referencedDecl') or {}).get('kind') == 'ParmVarDecl':
                    idx = [i for i, p_ in enumerate(ps) if p_['id'] == a['referencedDecl'].get('id')]
                    if idx:
                        out[kk] = idx[0]
    return out


def _env_read(G, wrappers, x):
    """Name of the environment variable the call x reads (None: not a literal), or False when x reads none."""
    if x is not None and x.get('kind') in ('CXXConstructExpr', 'CXXTemporaryObjectExpr'):
        # an object whose constructor reads the variable named by its argument
        q = (x.get('type') or {}).get('qualType', '').replace('const ', '').strip()
        for t in wrappers:
            if t[0].endswith('::' + q.split('::')[-1] + '::' + q.split('::')[-1]) and len(call_args(x)) > wrappers[t] and \
                    len(t[1]) == len(call_args(x)):
                a = peel(call_args(x)[wrappers[t]])
                while a.get('kind') in ('ImplicitCastExpr',) and kids(a):
                    a = peel(kids(a)[0])
                return a.get('value', '').strip('"') if a.get('kind') == 'StringLiteral' else None
        return False
    if x is None or x.get('kind') not in ('CallExpr', 'CXXOperatorCallExpr', 'CXXMemberCallExpr') or not callee(x):
        return False
    c = callee(x)
    if c[0] == 'fn' and c[1].get('name') in ('getenv', 'secure_getenv') and call_args(x):
        a = peel(call_args(x)[0])
        return a.get('value', '').strip('"') if a.get('kind') == 'StringLiteral' else None
    if c[0] == 'fn':
        for t in G.resolve_decl(c[1]):
            if t in wrappers:
                args = call_args(x)
                if x.get('kind') == 'CXXOperatorCallExpr':
                    args = args[1:]         # the closure object
                if len(args) > wrappers[t]:
                    a = peel(args[wrappers[t]])
                    while a.get('kind') in ('ImplicitCastExpr',) and kids(a):
                        a = peel(kids(a)[0])
                    return a.get('value', '').strip('"') if a.get('kind') == 'StringLiteral' else None
    return False


def _returns_loaded(ctx, u, f, depth):
    """[(return node, good, why)]: whether each return of <f> hands back the time_zone that load_time_zone filled in, directly or
    through a helper that does."""
    G = ctx.G
    out = []
    if True:
        g = ctx.cfg(f)
        F = ctx.facts(f)
        dom = g.dominators()
        # (load_time_zone is a one-line wrapper of the loader: calling either is the same)
        loader_qns = ('cctz::load_time_zone', loader.analyse(ctx)['key'][0])
        calls = [x for x in walk(f) if x.get('kind') in ('CallExpr', 'CXXMemberCallExpr') and callee(x) and callee(x)[0] == 'fn'
                 and qn(callee(x)[1]) in loader_qns]
        for rn in g.returns:
            rv = peel(kids(rn.ast)[0]) if kids(rn.ast) else None
            while rv is not None and rv.get('kind') == 'CXXConstructExpr' and len(kids(rv)) == 1:
                rv = peel(kids(rv)[0])
            vid = (rv.get('referencedDecl') or {}).get('id') if rv is not None and rv.get('kind') == 'DeclRefExpr' else None
            good = False
            why = 'the function does not return the time_zone that load_time_zone filled in'
            for c in calls:
                args = call_args(c)
                a1 = peel(args[1]) if len(args) == 2 else None
                if a1 is not None and a1.get('kind') == 'UnaryOperator' and a1.get('opcode') == '&' and \
                        (peel(kids(a1)[0]).get('referencedDecl') or {}).get('id') == vid and vid is not None:
                    cn = g.nodes_for(c)
                    if cn and all(any(x.id in dom[rn.id] for x in cn) for _ in [0]):
                        # no other write to the variable anywhere
                        ws = [n for (i, nm, n, w) in var_refs(f) if i == vid and w and not any(y is c for y in ancestors(n))]
                        good = not ws
                        if ws:
                            why = 'the zone returned is modified after/besides load_time_zone at %s' % pos(ws[0])
                    # result of the call must not steer control flow
                    p = c.get('_p')
                    while p is not None and (p.get('kind') in ('ExprWithCleanups', 'ParenExpr') or (
                            p.get('kind') in ('CStyleCastExpr', 'CXXStaticCastExpr', 'CXXFunctionalCastExpr') and
                            (dtype(p) or qtype(p)) == 'void')):
                        p = p.get('_p')         # (void)f(..) / static_cast<void>(f(..)): the result is discarded
                    while p is not None and p.get('kind') in ('ImplicitCastExpr',):
                        p = p.get('_p')
                    if p is not None and p.get('kind') == 'VarDecl':
                        # the result is named: fine as long as the name is only ever discarded
                        uses = [y for y in walk(f) if y.get('kind') == 'DeclRefExpr' and (y.get('referencedDecl') or {}).get('id') == p.get('id')]

                        def discarded(y):
                            q = y.get('_p')
                            while q is not None and q.get('kind') in ('ImplicitCastExpr', 'ParenExpr'):
                                q = q.get('_p')
                            return q is not None and q.get('kind') in ('CStyleCastExpr', 'CXXStaticCastExpr', 'CXXFunctionalCastExpr') and \
                                (dtype(q) or qtype(q)) == 'void'
                        if all(discarded(y) for y in uses):
                            p = None
                    if p is not None and p.get('kind') not in ('CompoundStmt',):
                        good = False
                        why = 'the result of load_time_zone is used: the fallback-to-UTC value it stored may be replaced'
            if not good and vid is None and rv is not None and rv.get('kind') == 'CallExpr' and callee(rv) and callee(rv)[0] == 'fn' and \
                    qn(callee(rv)[1]) == 'cctz::utc_time_zone' and not call_args(rv):
                good = True         # UTC itself, the value the loader falls back to (an early-out for a name known to be UTC)
            if not good and vid is None and rv is not None and rv.get('kind') == 'CallExpr' and depth < 3 and callee(rv) and \
                    callee(rv)[0] == 'fn':
                # return H(..): H itself returns what the loader stored on every path
                tk = [kk for kk in G.defs if kk[0] == qn(callee(rv)[1])]
                tk = [kk for kk in tk if len(kk[1]) == len(call_args(rv))] if len(tk) > 1 else tk
                if len(tk) == 1 and tk[0][0] not in ('cctz::utc_time_zone',):
                    hu, hf = G.defs[tk[0]]
                    sub = _returns_loaded(ctx, hu, hf, depth + 1)
                    if sub and all(gd for (_r, gd, _w) in sub):
                        good = True
                    elif sub:
                        why = 'through %s: %s' % (tk[0][0], [w for (_r, gd, w) in sub if not gd][0])
            out.append((rn, good, why))
    return out


def run(ctx):
    G = ctx.G
    L = loader.analyse(ctx)
    # ---- C19-out
    for r in L['returns']:
        out = r['out']
        ctx.check(out is not None, 'C19-out', '*tz assigned before return in %s' % L['fname'], r['node'],
                  'a return of the loader is reachable on a path that never assigns the caller\'s time_zone',
                  construct='unassigned-out:%s' % L['fname'], detail='last value: %s' % (out[1] if out else None))
        if out is None:
            continue
        rk = r['retkey']
        if rk == 'n:1':
            ok = out[2] in ('utc', 'cache')
            why = 'the loader returns true with a zone that is neither the UTC singleton nor a cached Impl'
        elif rk == 'n:0':
            ok = out[2] == 'utc'
            why = 'the loader returns false with a zone that is not the UTC singleton'
        else:
            m = re.match(r'^\((.+) != (.+)\)$', rk)
            ok = False
            why = ('the boolean returned is not "the zone handed out differs from the UTC singleton" for the '
                   'value stored in *tz: a failed load can return true, or false with a non-UTC zone')
            if m:
                a, b = m.group(1), m.group(2)
                if b in L['utc_keys'] and a == out[1]:
                    ok = True
                elif a in L['utc_keys'] and b == out[1]:
                    ok = True
        ctx.check(ok, 'C19-out', 'return value agrees with *tz in %s' % L['fname'], r['node'], why,
                  construct='retval:%s' % L['fname'], detail='%s with *tz = %s' % (rk[:60], out[1][:60]))
    for w in L['slot_writes']:
        for arm in w['arms']:
            ctx.check(arm['ok'], 'C19-out', 'outcome recorded for a name: %s' % arm['kind'], arm['node'],
                      'a load that failed (null zone_) can be recorded and handed out as a real zone: the loader then returns true '
                      'for a name that could not be resolved' if arm['kind'] == 'fresh' else arm['why'],
                      construct='outcome:%s' % arm['kind'], detail=arm['kind'])
    ctx.minimum('C19-out', 6)

    # ---- C19-null
    ks = [k for k in G.find('cctz::time_zone::time_zone') if len(k[1]) == 0]
    if len(ks) != 1:
        raise AnalysisBroken('C19-null: default constructor of time_zone not found')
    u, f = G.defs[ks[0]]
    inits = [c for c in kids(f) if c.get('kind') == 'CXXCtorInitializer']
    K = Keys(u)
    ok = False
    for c in inits:
        for x in walk(c):
            if x.get('kind') == 'CXXConstructExpr' and call_args(x) and K.key(call_args(x)[0]) == 'null':
                ok = True
            if x.get('kind') in ('CXXNullPtrLiteralExpr',) and c.get('anyInit', {}).get('name') == 'impl_':
                ok = True
    ctx.check(ok, 'C19-null', 'time_zone() carries a null Impl', f,
              'the default constructor does not initialise the Impl pointer to null: a default-constructed '
              'time_zone is not recognised as implicit UTC', construct='default-ctor')
    u, f = ctx.fn('cctz::time_zone::effective_impl')
    F = ctx.facts(f)
    g = ctx.cfg(f)
    n_ok = 0
    from ..symval import SymVal as _SV, render as _render
    sv_ = _SV(ctx, f)
    cases_ = []
    for rn in sv_.cfg.returns:
        if not kids(rn.ast):
            continue
        base_ = set(F.facts_at_ast(rn.ast) or ())
        alts_ = sv_.value(rn, kids(rn.ast)[0]) or ()
        if not alts_:
            cases_.append((rn, base_, F.ident_key(kids(rn.ast)[0])))
        for (gd_, t_) in alts_:
            # what is returned on this path, with the tests that select it (the result may be merged in a local first)
            cases_.append((rn, base_ | set(fa for fa in sv_.facts(gd_) if len(fa) == 3 and fa[0] in ('==', '!=', '<', '<=')),
                           _subst_const_locals(u, F, F.resolve_key(_render(t_)))))
    for (rn, fs, rk) in cases_:
        isnull = any(op == '==' and set((a, b)) == set(('this.impl_', 'null')) for (op, a, b) in fs)
        notnull = any(op == '!=' and set((a, b)) == set(('this.impl_', 'null')) for (op, a, b) in fs)
        if isnull:
            good = 'cctz::time_zone::Impl::UTC()' in rk
            ctx.check(good, 'C19-null', 'effective_impl(): null -> UTC singleton', rn.ast,
                      'a null Impl is not mapped to the UTC singleton', construct='effective-null', detail=rk[:80])
            n_ok += 1
        elif notnull:
            ctx.check(rk == '*(this.impl_)', 'C19-null', 'effective_impl(): non-null -> itself', rn.ast,
                      'a non-null Impl is not returned as itself', construct='effective-nonnull', detail=rk[:80])
            n_ok += 1
        else:
            ctx.bad('C19-null', 'effective_impl(): return not decided by impl_ == nullptr', rn.ast,
                    'a return of effective_impl is reached without the null test', construct='effective-undecided')
    uu, ff = ctx.fn('cctz::time_zone::Impl::UTC')
    rets = [x for x in walk(ff) if x.get('kind') == 'ReturnStmt']
    good = len(rets) == 1 and any(x.get('kind') == 'CallExpr' and callee(x) and callee(x)[0] == 'fn' and
                                  loader._returns_singleton(ctx, callee(x)[1]) for x in ctx.facts(ff).walk_ident(rets[0]))
    ctx.check(good, 'C19-null', 'Impl::UTC() wraps the UTC singleton', ff,
              'Impl::UTC() does not return the process-wide UTC Impl', construct='impl-utc')
    eq = [k for k in G.find('cctz::operator==') if len(k[1]) == 2 and 'time_zone' in k[1][0]]
    if len(eq) == 1:
        u2, f2 = G.defs[eq[0]]
        rets = [x for x in walk(f2) if x.get('kind') == 'ReturnStmt']
        K2 = Keys(u2)
        rk = K2.key(kids(rets[0])[0]) if len(rets) == 1 else ''
        m = re.match(r'^\(&\((\w+)#\w+\.effective_impl\(\)\) == &\((\w+)#\w+\.effective_impl\(\)\)\)$', rk)
        ctx.check(bool(m) and m.group(1) != m.group(2), 'C19-null', 'operator== compares effective Impls', f2,
                  'time_zone equality does not compare the effective (null -> UTC) Impls of both operands: '
                  'time_zone() == utc_time_zone() no longer holds', construct='op-eq', detail=rk[:90])
    else:
        ctx.note('operator==(time_zone, time_zone) not instantiated in any library unit')
    ctx.minimum('C19-null', 4)

    # ---- C19-local: return the zone load_time_zone wrote, nothing written afterwards
    for name in ('cctz::local_time_zone', 'cctz::fixed_time_zone'):
        u, f = ctx.fn(name)
        for (rn, good, why) in _returns_loaded(ctx, u, f, 0):
            ctx.check(good, 'C19-local', '%s returns what load_time_zone stored' % name, rn.ast, why,
                      construct='local:%s' % name, detail='load_time_zone(name, &tz) dominates return tz; no other write')
    ctx.minimum('C19-local', 2)

    # ---- C19-name
    k = [kk for kk in G.find('cctz::time_zone::Impl::Impl') if len(kk[1]) == 1]
    if len(k) != 1:
        raise AnalysisBroken('C19-name: Impl(name) constructor not found')
    u, f = G.defs[k[0]]
    K = Keys(u)
    par = [p for p in kids(f) if p.get('kind') == 'ParmVarDecl'][0]
    good = False
    for c in kids(f):
        if c.get('kind') == 'CXXCtorInitializer' and (c.get('anyInit') or {}).get('name') == 'name_':
            good = any(x.get('kind') == 'DeclRefExpr' and (x.get('referencedDecl') or {}).get('id') == par['id']
                       for x in walk(c))
    ctx.check(good, 'C19-name', 'Impl(name) stores the requested name', f,
              'the Impl does not record the name it was loaded under', construct='impl-name')
    u, f = ctx.fn('cctz::time_zone::Impl::Name')
    rets = [x for x in walk(f) if x.get('kind') == 'ReturnStmt']
    ctx.check(len(rets) == 1 and Keys(u).key(kids(rets[0])[0]) == 'this.name_', 'C19-name', 'Name() returns it', f,
              'Name() does not return the recorded name', construct='impl-name-get')
    u, f = ctx.fn('cctz::time_zone::name')
    rets = [x for x in walk(f) if x.get('kind') == 'ReturnStmt']
    ctx.check(len(rets) == 1 and Keys(u).key(kids(rets[0])[0]) == 'this.effective_impl().Name()', 'C19-name',
              'time_zone::name() forwards to the effective Impl', f,
              'time_zone::name() does not report the effective Impl\'s name', construct='tz-name')
    # the cache hands back the Impl that was built for the very name asked for
    loader.check_cache_key(ctx, 'C19-name')

    # ---- C19-env: the variables and defaults named by the property
    want_env = {'TZDIR': 'cctz::FileZoneInfoSource::Open', 'TZ': 'cctz::local_time_zone',
                'LOCALTIME': 'cctz::local_time_zone'}
    seen = {}
    wrappers = _env_wrappers(G)
    for kk, (u, f) in G.defs.items():
        for x in walk(f):
            if _owner_fn(x) is not f:
                continue            # (a lambda body is visited as the function it is)
            v = _env_read(G, wrappers, x)
            if v is not False:
                if kk in wrappers and v is None:
                    continue        # the wrapper's own getenv(parameter): judged at the wrapper's call sites
                seen.setdefault(v, []).append((kk, x))
    # (a documented function may have been split into file-local helpers)
    scope_qn = {}
    for v_, q_ in want_env.items():
        ks_ = G.find(q_)
        scope_qn[v_] = set([q_]) | set(qn(ff_) for k_ in ks_ for (uu_, ff_) in ctx.scope(G.defs[k_][1]))
    for v, where in sorted(seen.items(), key=lambda kv: str(kv[0])):
        for (kk, x) in where:
            ctx.check(v in want_env and kk[0] in scope_qn.get(v, ()), 'C19-env', 'getenv("%s") in %s' % (v, fname(kk)), x,
                      'an environment variable outside the documented set {TZDIR, TZ, LOCALTIME} (or in an '
                      'undocumented place) influences name resolution', construct='getenv:%s:%s' % (v, fname(kk)))
    for v in want_env:
        if v not in seen:
            ctx.bad('C19-env', 'getenv("%s")' % v, None, 'the documented variable $%s is never consulted' % v,
                    construct='getenv-missing:%s' % v)
    # default directory and the non-empty test on $TZDIR
    u, f = ctx.fn('cctz::FileZoneInfoSource::Open')
    F = ctx.facts(f)
    tz = [x for x in walk(f) if x.get('kind') == 'VarDecl' and any(
        y.get('kind') == 'StringLiteral' and y.get('value') == '"/usr/share/zoneinfo"' for y in walk(x))]
    ctx.check(len(tz) == 1, 'C19-env', 'default zoneinfo directory /usr/share/zoneinfo', tz[0] if tz else f,
              'the default directory is not /usr/share/zoneinfo', construct='default-tzdir')
    if len(tz) == 1:
        did = tz[0]['id']
        for x in walk(f):
            if x.get('kind') == 'BinaryOperator' and x.get('opcode') == '=' and \
                    (peel(kids(x)[0]).get('referencedDecl') or {}).get('id') == did:
                fs = F.facts_at_ast(x) or frozenset()
                rk = F.keys.key(kids(x)[1])
                nonnull = any(op == '!=' and set((a, b)) == set((rk, 'null')) for (op, a, b) in fs)
                nonempty = any(op == '!=' and set((a, b)) == set(('*(%s)' % rk, 'n:0')) for (op, a, b) in fs)
                ctx.check(nonnull and nonempty, 'C19-env', '$TZDIR overrides the default only when set and non-empty', x,
                          'the default directory is replaced without $TZDIR having been found set and non-empty',
                          construct='tzdir-override', detail='non-null (%s), non-empty (%s)' % (nonnull, nonempty))
    # $TZ and $LOCALTIME override whenever they are set (an empty value is a value)
    u, f = ctx.fn('cctz::local_time_zone')
    f_local = f
    for (uu_, ff_) in ctx.scope(f):
        if any(_env_read(G, wrappers, x_) == 'TZ' for x_ in walk(ff_) if _owner_fn(x_) is ff_):
            u, f = uu_, ff_          # the part of local_time_zone that consults the environment
            break
    F = ctx.facts(f)
    envvars = {}
    for x in walk(f):
        if x.get('kind') == 'BinaryOperator' and x.get('opcode') == '=':
            v_ = _env_read(G, wrappers, _strip_tmp(kids(x)[1]))
            if v_:
                envvars[F.keys.key(kids(x)[0])] = v_
        elif x.get('kind') == 'VarDecl' and kids(x) and 'init' in x:
            v_ = _env_read(G, wrappers, _strip_tmp(kids(x)[-1]))
            if v_:
                envvars['%s#%s' % (x.get('name'), x['id'])] = v_
    # an object that holds the value: its no-argument const accessor returning the stored pointer stands for the value
    for x in walk(f):
        if x.get('kind') == 'CXXMemberCallExpr' and callee(x) and callee(x)[2] is not None and not call_args(x):
            ok_ = F.keys.key(callee(x)[2])
            if ok_ in envvars and _holder_getter(G, wrappers, x):
                envvars[F.keys.key(x)] = envvars[ok_]
    n_ov = 0

    def _str_assign(x):
        # name = <env value> where name is a std::string (operator=)
        return x.get('kind') == 'CXXOperatorCallExpr' and callee(x) and callee(x)[0] == 'fn' and callee(x)[1].get('name') == 'operator=' and \
            len(call_args(x)) == 2 and F.keys.key(_strip_ctor(call_args(x)[1])) in envvars
    for x in walk(f):
        is_ret = x.get('kind') == 'ReturnStmt' and f is not f_local and kids(x) and F.keys.key(_strip_ctor(kids(x)[0])) in envvars
        if is_ret or _str_assign(x) or (x.get('kind') == 'BinaryOperator' and x.get('opcode') == '=' and F.keys.key(kids(x)[1]) in envvars):
            vk = F.keys.key(_strip_ctor(kids(x)[0])) if is_ret else F.keys.key(_strip_ctor(call_args(x)[1])) if _str_assign(x) else \
                F.keys.key(kids(x)[1])
            n_ov += 1
            fs = F.facts_at_ast(x) or frozenset()
            about = [ft for ft in fs if vk in ft[1] or vk in ft[2]]
            only_set = all(ft[0] == '!=' and set(ft[1:]) == set((vk, 'null')) for ft in about) and about
            ctx.check(bool(only_set), 'C19-env', '$%s overrides whenever it is set' % envvars[vk], x,
                      '$%s is ignored for some values although it is set (extra condition %s): an empty value must be used as given '
                      '(and then fails over to UTC)' % (envvars[vk], [ft for ft in about if not (ft[0] == '!=' and 'null' in ft[1:])]),
                      construct='env-override:%s' % envvars[vk], detail=str(sorted(about))[:80])
    # the override written as the initialiser of the name:  std::string name = tz_env ? tz_env : default_zone;
    cond_inits = []
    for x in walk(f):
        if x.get('kind') == 'VarDecl' and kids(x) and 'init' in x:
            i_ = _strip_ctor(kids(x)[-1])
            if i_ is not None and i_.get('kind') == 'ConditionalOperator':
                c_, a_, b_ = kids(i_)
                ak_ = F.keys.key(_strip_ctor(a_))
                if ak_ in envvars:
                    n_ov += 1
                    cf_ = F.cond_facts(c_, True)
                    about = [ft for ft in cf_ if ak_ in ft[1] or ak_ in ft[2]]
                    only_set = bool(about) and all(ft[0] == '!=' and set(ft[1:]) == set((ak_, 'null')) for ft in cf_)
                    ctx.check(only_set, 'C19-env', '$%s overrides whenever it is set' % envvars[ak_], x,
                              '$%s is ignored for some values although it is set (the name is initialised from it only under %s): an '
                              'empty value must be used as given' % (envvars[ak_], cf_), construct='env-override:%s' % envvars[ak_],
                              detail=str(sorted(about))[:80])
                    cond_inits.append((x, envvars[ak_]))
    # (a value handed to a file-local helper -- wrapped in a pointer+length record, say -- is not followed)
    handed_on = False
    for x in walk(f):
        if x.get('kind') == 'CallExpr' and callee(x) and callee(x)[0] == 'fn' and callee(x)[1].get('_qn') and \
                G.resolve_decl(callee(x)[1]) and any(F.keys.key(a_) in envvars for a_ in call_args(x)):
            handed_on = True
    ctx.check3(None if (n_ov != 2 and handed_on) else n_ov == 2, 'C19-env', '$TZ and $LOCALTIME each override the zone name once', f,
               'found %d override assignments' % n_ov, construct='env-override:count',
               unknown_why='a value read from the environment is handed to a file-local helper: how it becomes the zone name is not followed')
    # one leading ':' of the $TZ value is ignored: every path from the $TZ override to a use of the name (the comparison
    # with "localtime", the name handed to the loader) passes the test of its first character against ':'
    g = ctx.cfg(f)
    for x in walk(f):
        if _str_assign(x) and envvars[F.keys.key(_strip_ctor(call_args(x)[1]))] == 'TZ':
            lhs_ = call_args(x)[0]
        elif x.get('kind') == 'BinaryOperator' and x.get('opcode') == '=' and F.keys.key(kids(x)[1]) in envvars and \
                envvars[F.keys.key(kids(x)[1])] == 'TZ':
            lhs_ = kids(x)[0]
        elif any(x is d_ and v_ == 'TZ' for (d_, v_) in cond_inits):
            lhs_ = None
        else:
            continue
        zk = F.keys.key(lhs_) if lhs_ is not None else '%s#%s' % (x.get('name'), x['id'])
        zid = (peel(lhs_).get('referencedDecl') or {}).get('id') if lhs_ is not None else x['id']
        strips = []
        for n in g.live:
            if n.kind != 'cond':
                continue
            for (op, a, b) in list(F.cond_facts(n.ast, True)) + list(F.cond_facts(n.ast, False)):
                if op in ('==', '!=') and 'n:58' in (a, b) and (a if b == 'n:58' else b) in ('*(%s)' % zk, '%s[n:0]' % zk, '*%s' % zk):
                    strips.append(n)
        # (`!name.empty() && name.front() == ':'`: an empty name has no first character to test)
        for n in g.live:
            if n.kind == 'cond' and n.ast is not None and ('%s.empty()' % zk) in F.keys.key(n.ast):
                nxt = []
                for (m_, _l) in n.succs:
                    while m_.kind == 'join' and len(m_.succs) == 1:
                        m_ = m_.succs[0][0]
                    nxt.append(m_)
                if any(any(m_ is s_ for s_ in strips) for m_ in nxt):
                    strips.append(n)
        uses = []
        for y in walk(f):
            if y.get('kind') == 'CallExpr' and callee(y) and callee(y)[0] == 'fn' and callee(y)[1].get('name') in ('strcmp', 'strncmp') and \
                    any(F.keys.key(a_) == zk for a_ in call_args(y)):
                uses.append(y)
            if y.get('kind') == 'VarDecl' and 'basic_string' in ((dtype(y) or '') + (qtype(y) or '')) and kids(y) and \
                    any(z.get('kind') == 'DeclRefExpr' and (z.get('referencedDecl') or {}).get('id') == zid for z in walk(kids(y)[-1])):
                uses.append(y)
            if y.get('kind') in ('CallExpr',) and callee(y) and callee(y)[0] == 'fn' and callee(y)[1].get('name') == 'load_time_zone' and \
                    any(z.get('kind') == 'DeclRefExpr' and (z.get('referencedDecl') or {}).get('id') == zid for a_ in call_args(y) for z in walk(a_)):
                uses.append(y)
            if y.get('kind') == 'ReturnStmt' and f is not f_local and kids(y) and \
                    any(z.get('kind') == 'DeclRefExpr' and (z.get('referencedDecl') or {}).get('id') == zid for z in walk(kids(y)[0])):
                uses.append(y)          # (a helper that hands the name back)
        starts = g.nodes_for(x)
        targets = set(n_.id for y in uses for n_ in g.nodes_for(y))
        if not uses or not starts or not targets:
            ctx.unknown('C19-env', 'one leading colon of $TZ is ignored', x, 'the uses of the zone name after the $TZ override were not found',
                        construct='env-colon')
            continue
        cut = set(n_.id for n_ in strips)
        seen = set()
        stack = [m_ for s_ in starts for (m_, _) in s_.succs]
        leak = None
        while stack:
            n_ = stack.pop()
            if n_.id in seen or n_.id in cut:
                continue
            seen.add(n_.id)
            if n_.id in targets:
                leak = n_
                break
            stack.extend(m_ for (m_, _) in n_.succs)
        ctx.check(leak is None and bool(strips), 'C19-env', 'one leading colon of the $TZ value is ignored before the name is used', x,
                  'a value taken from $TZ reaches %s without its first character having been tested against \':\': TZ=":Zone" is '
                  'looked up with the colon (and fails over to UTC), TZ=":localtime" is not mapped to the system zone'
                  % (('the use at %s' % pos(leak.ast)) if leak is not None and leak.ast is not None else 'its uses'), construct='env-colon',
                  detail='%d colon test(s), %d use(s)' % (len(strips), len(uses)))
    # leap-second ("right/") data is rejected
    kl = G.one('cctz::TimeZoneInfo::Load', 'ZoneInfoSource')
    ul, fl = G.defs[kl]
    Fl = ctx.facts(fl)
    gl = ctx.cfg(fl)
    accl = [rn for rn in gl.returns if Fl.keys.key(kids(rn.ast)[0]) == 'n:1']
    okl = bool(accl) and all(any(op == '==' and 'n:0' in (a, b) and (a.endswith('.leapcnt') or b.endswith('.leapcnt')) for (op, a, b) in Fl.facts_at(rn)) for rn in accl)
    ctx.check(okl, 'C19-data', 'zone data with leap-second records is rejected', fl,
              'Load can succeed without leapcnt == 0 having been established for the header whose data is decoded (e.g. only the '
              'first header of a version-2 file is checked): leap-second files load as ordinary zones', construct='data:leapcnt')
    # end of data while the footer is read is a failed load: once a character read from the source is known to be
    # EOF no accepting return is reachable -- in Load itself or in a file-local helper it delegates the footer to
    # (whose refusal must in turn make Load fail)
    from .loader import _reach_from
    n_eof = 0
    for (ux, fx) in ctx.scope(fl):
        Fx = ctx.facts(fx)
        gx = ctx.cfg(fx)
        accx = [rn for rn in gx.returns if kids(rn.ast) and Fx.keys.key(kids(rn.ast)[0]) not in ('n:0', 'n:-1', 'null')]
        is_helper = fx is not fl
        found_here = 0
        for n in gx.live:
            if n.kind != 'cond':
                continue
            for lab in ('T', 'F'):
                for (op, a, b) in Fx.cond_facts(n.ast, lab == 'T'):
                    if op == '==' and 'n:-1' in (a, b):
                        var = a if b == 'n:-1' else b
                        m = re.match(r'^\w+#(0x[0-9a-f]+)$', var)
                        d = ux.by_id.get(m.group(1)) if m else None
                        if d is None or d.get('kind') != 'VarDecl' or (dtype(d) or qtype(d)).replace('const ', '') != 'int':
                            continue
                        src = [kids(d)[-1]] if kids(d) else []
                        src += [kids(y)[1] for y in walk(fx) if y.get('kind') == 'BinaryOperator' and y.get('opcode') == '=' and
                                (peel(kids(y)[0]).get('referencedDecl') or {}).get('id') == d['id']]
                        if not src or not all(any(z.get('kind') in ('CallExpr', 'CXXOperatorCallExpr', 'CXXMemberCallExpr') for z in walk(e_)) for e_ in src):
                            continue
                        if is_helper and (qtype(fx).split('(')[0].strip() != 'bool'):
                            continue        # (a byte reader that hands EOF on to its caller)
                        n_eof += 1
                        found_here += 1
                        starts = [m_ for (m_, l_) in n.succs if l_ == lab]
                        leak = _reach_from(gx, starts, accx)
                        ctx.check(not leak, 'C19-data', 'end of data in the footer (%s == EOF) fails the load' % var.split('#')[0], n.ast,
                                  'after a character read from the source is found to be EOF, %s can still return true: a file '
                                  'truncated inside its footer loads as a zone' % (qn(fx).split('::')[-1]), construct='data:eof:%s' % var.split('#')[0])
        if is_helper and found_here:
            # the helper's refusal fails the load
            from ..callgraph import fkey as _fk
            good = False
            for n in gl.live:
                if n.kind != 'cond':
                    continue
                for lab in ('T', 'F'):
                    for (op, a, b) in Fl.cond_facts(n.ast, lab == 'T'):
                        if op == '==' and 'n:0' in (a, b) and (a if b == 'n:0' else b).startswith(qn(fx) + '('):
                            starts = [m_ for (m_, l_) in n.succs if l_ == lab]
                            good = not _reach_from(gl, starts, accl)
            ctx.check(good, 'C19-data', 'refusal of %s fails the load' % qn(fx).split('::')[-1], fx,
                      'Load can return true after %s reported end of data' % qn(fx), construct='data:eof:delegate')
    if n_eof < 1:
        ctx.bad('C19-data', 'end of data in the footer fails the load', fl,
                'no test of a character read from the source against EOF was found in Load: a file truncated inside its footer '
                'is not refused', construct='data:eof')
    # C19-path: a list of directory prefixes that contains the empty prefix is walked only for absolute names
    from ..symval import SymVal, render
    n_lists = 0
    for kk, (uu, ff) in sorted(G.defs.items()):
        if not re.search(r'ZoneInfoSource::Open$', kk[0]):
            continue
        lists = {}
        for x in walk(ff):
            if x.get('kind') == 'VarDecl' and kids(x):
                strs = [y for y in walk(kids(x)[-1]) if y.get('kind') == 'StringLiteral']
                il = [y for y in walk(kids(x)[-1]) if y.get('kind') == 'InitListExpr']
                if strs and (il or 'initializer_list' in (dtype(x) or qtype(x))):
                    lists['%s#%s' % (x.get('name'), x['id'])] = [y.get('value') for y in strs]
        loops_ = [x for x in walk(ff) if x.get('kind') == 'CXXForRangeStmt']
        if not lists or not loops_:
            continue
        sv = SymVal(ctx, ff)
        Ff = ctx.facts(ff)
        for lp in loops_:
            rng = [x for x in walk(lp) if x.get('kind') == 'VarDecl' and (x.get('name') or '').startswith('__range')]
            if not rng or not kids(rng[0]):
                continue
            val = sv.value_ast(kids(rng[0])[-1])
            own = '%s#%s' % (rng[0].get('name'), rng[0]['id'])
            if own in lists and not any(render(t) in lists for (gd, t) in (val or ())):
                val = ((frozenset(), ('key', None, own)),)       # the list is written in the loop header itself
            for (gd, t) in (val or ()):
                lk = render(t)
                if lk not in lists:
                    continue
                n_lists += 1
                if '""' not in lists[lk]:
                    ctx.ok('C19-path', 'prefix list %s in %s has no empty prefix' % (lk.split('#')[0], fname(kk)), lp, '')
                    continue
                fs = sv.facts(gd)
                absolute = False
                for fa in fs:
                    if fa[0] == '!=' and 'n:0' in (fa[1], fa[2]):
                        other = fa[1] if fa[2] == 'n:0' else fa[2]
                        if re.search(r"== (n|int):47\)", Ff.resolve_key(other)):
                            absolute = True
                ctx.check(absolute, 'C19-path', 'empty prefix (%s) in %s is used only for absolute names' % (lk.split('#')[0], fname(kk)), lp,
                          'a list of directory prefixes containing the empty prefix is walked without the name having been found to '
                          'start with "/": a relative name that is not found under the zoneinfo directories is opened relative to '
                          'the current directory, so load_time_zone succeeds for names it must refuse',
                          construct='path:%s:%s' % (fname(kk), lk.split('#')[0]), detail=str(fs)[:120])
    if n_lists < 1:
        raise AnalysisBroken('C19-path: no prefix list walked by a zone source was found')
    ctx.minimum('C19-path', 2)
    lits = set(y.get('value') for (uu_, ff_) in ctx.scope(f_local) for y in walk(ff_) if y.get('kind') == 'StringLiteral')
    for (uu_, ff_) in ctx.scope(f_local):
        for y in walk(ff_):
            if y.get('kind') == 'DeclRefExpr' and (y.get('referencedDecl') or {}).get('kind') == 'VarDecl':
                d_ = uu_.by_id.get((y.get('referencedDecl') or {}).get('id'))
                if d_ is not None and re.search(r'const char', dtype(d_) or qtype(d_) or '') and kids(d_):
                    lits |= set(z.get('value') for z in walk(kids(d_)[-1]) if z.get('kind') == 'StringLiteral')   # a named constant
    for lit in ('":localtime"', '"localtime"', '"/etc/localtime"'):
        ctx.check(lit in lits, 'C19-env', 'local_time_zone uses %s' % lit, f,
                  'the documented default %s is not used by local_time_zone' % lit, construct='lit:%s' % lit)
    ctx.minimum('C19-env', 11)
    ctx.minimum('C19-data', 2)
