"""Resolved whole-library call graph.

Function identity across units = (qualified name, normalised parameter list).
Virtual calls are expanded over all overriders found in the class hierarchy;
calls through function-pointer / std::function objects are kept as 'indirect'
edges naming the variable they go through."""
import re
from .frontend import (kids, qn, qtype, dtype, walk, body_of, in_repo, FUNC_KINDS, pos,
                       AnalysisBroken, enclosing_function)
from .expr import callee, call_args, peel, split_params


def norm_type(t):
    t = re.sub(r'\b(cctz::|std::|detail::|time_zone::|\(anonymous namespace\)::|__cxx11::)', '', t)
    t = re.sub(r'\s*noexcept(\(.*?\))?', '', t)
    t = re.sub(r'\bbasic_string<char>', 'string', t)
    t = t.replace('class ', '').replace('struct ', '')
    return re.sub(r'\s+', '', t)


class UnitParams(tuple):
    """Parameter list of a function with internal linkage whose (name, parameters) is also defined, with internal linkage,
    in another unit: the two are different functions, told apart by the unit."""
    def __new__(cls, ps, unit):
        o = tuple.__new__(cls, ps)
        o.unit = unit
        return o

    def __eq__(self, other):
        return isinstance(other, UnitParams) and tuple.__eq__(self, other) and self.unit == other.unit

    def __ne__(self, other):
        return not self.__eq__(other)

    def __hash__(self):
        return hash((tuple(self), self.unit))


def _internal_linkage(f):
    if f.get('kind') != 'FunctionDecl':
        p = f.get('_p')
        while p is not None:
            if p.get('kind') == 'NamespaceDecl' and not p.get('name'):
                return True
            p = p.get('_p')
        return False
    if f.get('storageClass') == 'static':
        return True
    p = f.get('_p')
    while p is not None:
        if p.get('kind') == 'NamespaceDecl' and not p.get('name'):
            return True
        p = p.get('_p')
    return False


def in_repo_src(f):
    """Defined in a .cc file (a definition with internal linkage in a header is the same text in every unit)."""
    return bool(re.search(r'\.(cc|cpp|cxx|c)\b', pos(f) or ''))


def fkey(fn):
    if '_fkey' in fn:
        return fn['_fkey']
    ps = [norm_type(p) for p in split_params(qtype(fn))]
    return (qn(fn), tuple(ps))


def fname(key):
    return '%s(%s)' % (key[0], ', '.join(key[1]))


class CallGraph(object):
    def __init__(self, program):
        self.P = program
        self.defs = {}        # fkey -> (unit, fn)
        self.by_qn = {}       # qn -> [fkey]
        for (u, f) in program.functions():
            if f.get('_p', {}).get('kind') == 'FunctionTemplateDecl' and _is_pattern(f):
                continue
            if _in_template_pattern(f):
                continue
            k = fkey(f)
            if k in self.defs and self.defs[k][0] is not u and _internal_linkage(f) and _internal_linkage(self.defs[k][1]) and \
                    pos(f) != pos(self.defs[k][1]):
                # one name, one signature, two units, internal linkage: two functions
                k = (k[0], UnitParams(k[1], u.name))
                f['_fkey'] = k
            self.defs.setdefault(k, (u, f))
            self.by_qn.setdefault(k[0], [])
            if k not in self.by_qn[k[0]]:
                self.by_qn[k[0]].append(k)
        self._hier()
        self.edges = {}       # fkey -> list of (kind, target, callsite ast)
        for k, (u, f) in self.defs.items():
            self.edges[k] = self._calls(u, f)

    # -- class hierarchy
    def _hier(self):
        self.bases = {}       # class qn -> set(base qn)
        for u in self.P.units:
            for d in u.walk():
                if d.get('kind') == 'CXXRecordDecl' and d.get('completeDefinition'):
                    bs = set()
                    for b in d.get('bases', ()):  # noqa
                        bs.add(norm_type((b.get('type') or {}).get('qualType', '')))
                    self.bases.setdefault(norm_type(qn(d)), set()).update(bs)
        self.derived = {}
        for c, bs in self.bases.items():
            for b in bs:
                for c2 in self.bases:
                    if c2 == b or c2.endswith('::' + b) or b.endswith('::' + c2):
                        self.derived.setdefault(c2, set()).add(c)

    def all_derived(self, cls):
        out, stack = set(), [cls]
        while stack:
            c = stack.pop()
            for d in self.derived.get(c, ()):
                if d not in out:
                    out.add(d)
                    stack.append(d)
        return out

    # -- resolution
    def resolve_decl(self, d):
        """Definitions matching a (possibly body-less) function declaration."""
        name = qn(d)
        ks = self.by_qn.get(name, [])
        if not ks:
            return []
        want = tuple(norm_type(p) for p in split_params(qtype(d)))
        du = d.get('_u')

        def visible(k):
            # a definition with internal linkage is the callee only of calls made in its own unit
            (ku, kf) = self.defs[k]
            return du is None or ku is du or not _internal_linkage(kf) or not in_repo_src(kf)
        exact = [k for k in ks if tuple(k[1]) == want and visible(k)]
        if exact:
            return exact
        same = [k for k in ks if len(k[1]) == len(want) and visible(k)]
        return same if len(same) == 1 else []

    def _calls(self, u, f):
        out = []
        for x in _walk_no_lambda(f):
            k = x.get('kind')
            if k == 'LambdaExpr':
                for c in walk(x):
                    if c.get('kind') == 'CXXMethodDecl' and c.get('name') == 'operator()':
                        out.append(('lambda', fkey(c), x))
                continue
            if k in ('CallExpr', 'CXXMemberCallExpr', 'CXXOperatorCallExpr',
                     'CXXConstructExpr', 'CXXTemporaryObjectExpr'):
                c = callee(x)
                if c is None:
                    continue
                if c[0] == 'fn':
                    d = c[1]
                    tg = self.resolve_decl(d) if d.get('_qn') else []
                    if tg:
                        for t in tg:
                            out.append(('direct', t, x))
                        if d.get('virtual'):
                            for t in self._overriders(d):
                                out.append(('virtual', t, x))
                    else:
                        out.append(('extern', _ext_name(d), x))
                elif c[0] == 'method':
                    d = u.by_id.get(c[3])
                    if d is not None and d.get('kind') in FUNC_KINDS:
                        tg = self.resolve_decl(d)
                        for t in tg:
                            out.append(('direct', t, x))
                        if d.get('virtual') or self._overrides_any(d):
                            for t in self._overriders(d):
                                if t not in tg:
                                    out.append(('virtual', t, x))
                        if not tg and not d.get('virtual'):
                            out.append(('extern', qn(d), x))
                        if not tg and d.get('virtual') and d.get('pure'):
                            pass
                    else:
                        obj = c[2]
                        out.append(('extern', 'std-method:%s' % c[1], x))
                        if c[1] == 'operator()' and obj is not None:
                            out.append(('indirect', _var_name(obj), x))
                elif c[0] == 'ctor':
                    cls = norm_type(c[1]).replace('const', '')
                    found = False
                    for nm, ks in self.by_qn.items():
                        for kk in ks:
                            uu, ff = self.defs[kk]
                            if ff.get('kind') == 'CXXConstructorDecl' and \
                                    norm_type(_class_of(ff)) == cls and \
                                    kk[1] == tuple(norm_type(p) for p in split_params(c[2])):
                                out.append(('direct', kk, x))
                                found = True
                    if not found:
                        out.append(('extern', 'ctor:%s' % c[1], x))
                elif c[0] == 'indirect':
                    out.append(('indirect', _var_name(c[1]), x))
                if k == 'CXXOperatorCallExpr' and c[0] == 'fn' and c[1].get('name') == 'operator()' \
                        and not c[1].get('_qn', '').startswith('cctz'):
                    args = call_args(x)
                    if args:
                        out.append(('indirect', _var_name(args[0]), x))
        return out

    def _overrides_any(self, d):
        return False

    def _overriders(self, d):
        cls = norm_type('::'.join(qn(d).split('::')[:-1]))
        name = d.get('name')
        out = []
        for dc in self.all_derived(cls):
            for k in self.by_qn:
                if k.endswith('::' + name) and norm_type('::'.join(k.split('::')[:-1])) == dc:
                    for kk in self.by_qn[k]:
                        if len(kk[1]) == len(split_params(qtype(d))):
                            out.append(kk)
        return out

    # -- queries
    def callees(self, k, kinds=('direct', 'virtual', 'lambda')):
        return [(kind, t, site) for (kind, t, site) in self.edges.get(k, ()) if kind in kinds]

    def reachable(self, roots, kinds=('direct', 'virtual', 'lambda'), stop=()):
        seen = set()
        stack = list(roots)
        while stack:
            k = stack.pop()
            if k in seen or k in stop:
                continue
            seen.add(k)
            for (kind, t, site) in self.edges.get(k, ()):
                if kind in kinds and t in self.defs and t not in seen:
                    stack.append(t)
        return seen

    def paths_to(self, roots, pred, kinds=('direct', 'virtual', 'lambda'), limit=256):
        """All acyclic call chains root -> ... -> f ending in an edge e of f with
        pred(f_key, e).  Returns [(steps, e)], steps = [(fkey, call-site ast that
        continues the chain)]; the last step's site is e's site."""
        out = []

        def dfs(k, steps, onpath):
            if len(out) >= limit:
                return
            for e in self.edges.get(k, ()):
                if pred(k, e):
                    out.append((steps + [(k, e[2])], e))
            for (kind, t, site) in self.edges.get(k, ()):
                if kind in kinds and t in self.defs and t not in onpath and t != k:
                    dfs(t, steps + [(k, site)], onpath | {t})
        for r in roots:
            dfs(r, [], {r})
        return out

    def roots(self, kinds=('direct', 'virtual', 'lambda')):
        called = set()
        for k, es in self.edges.items():
            for (kind, t, site) in es:
                if kind in kinds and t != k:
                    called.add(t)
        return [k for k in self.defs if k not in called]

    def find(self, qualified, nparams=None):
        ks = self.by_qn.get(qualified, [])
        if nparams is not None:
            ks = [k for k in ks if len(k[1]) == nparams]
        return ks

    def one(self, qualified, param_substr=None):
        ks = self.by_qn.get(qualified, [])
        if param_substr is not None:
            ks = [k for k in ks if any(param_substr in p for p in k[1])]
        if len(ks) != 1:
            raise AnalysisBroken('anchor %s%s: %d definitions' % (
                qualified, '[%s]' % param_substr if param_substr else '', len(ks)))
        return ks[0]


def _walk_no_lambda(f):
    stack = [f]
    first = True
    while stack:
        x = stack.pop()
        yield x
        if x.get('kind') == 'LambdaExpr' and not first:
            continue
        first = False
        inner = x.get('inner')
        if inner:
            for c in reversed(inner):
                if isinstance(c, dict) and 'kind' in c:
                    if c.get('kind') in FUNC_KINDS and c is not f:
                        continue
                    if c.get('kind') in ('CXXRecordDecl',):
                        continue
                    stack.append(c)


def _is_pattern(f):
    p = f.get('_p')
    ks = [c for c in kids(p) if c.get('kind') in FUNC_KINDS]
    return bool(ks) and ks[0] is f


def _in_template_pattern(f):
    p = f.get('_p')
    while p is not None:
        if p.get('kind') == 'ClassTemplateDecl':
            # the first CXXRecordDecl child is the pattern
            q = f
            while q.get('_p') is not p:
                q = q.get('_p')
            return q.get('kind') == 'CXXRecordDecl'
        if p.get('kind') in ('ClassTemplateSpecializationDecl',):
            return False
        p = p.get('_p')
    return False


def _class_of(ctor):
    return '::'.join(qn(ctor).split('::')[:-1])


def _ext_name(d):
    return d.get('_qn') or d.get('name') or '?'


def _var_name(e):
    x = peel(e)
    if x is None:
        return '?'
    if x.get('kind') == 'DeclRefExpr':
        rd = x.get('referencedDecl', {})
        d = x['_u'].by_id.get(rd.get('id'))
        return (d.get('_qn') if d is not None and d.get('_qn') else rd.get('name')) or '?'
    if x.get('kind') == 'MemberExpr':
        return x.get('name') or '?'
    return x.get('kind', '?')
