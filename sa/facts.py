"""DOM engine: must-hold branch facts at every CFG node.

A fact is a canonical comparison (op, lhs_key, rhs_key), op in {'<','<=','==','!='},
learned from the branch edge of a condition and killed when any lvalue it
mentions is (potentially) written.  Meet = intersection, so a fact at node n
holds on *every* path from entry to n: "n is dominated by the true edge of the
test" in a form that survives early-return/nesting/negation rewrites."""
from .frontend import kids, walk, qtype, dtype
from .expr import Keys, Folder, peel, written_lvalues, callee, call_args
import re, os, sys

NEG = {'<': '>=', '<=': '>', '>': '<=', '>=': '<', '==': '!=', '!=': '=='}


def canon(op, a, b):
    if op == '>':
        op, a, b = '<', b, a
    elif op == '>=':
        op, a, b = '<=', b, a
    if op in ('==', '!=') and b < a:
        a, b = b, a
    return (op, a, b)


class FactEngine(object):
    def __init__(self, cfg, unit, subst_consts=True, helper_summaries=None, param_bindings=None):
        self.cfg = cfg
        self.unit = unit
        self.helper_summaries = helper_summaries
        self.param_bindings = param_bindings or {}
        self.folder = Folder(unit)
        self.keys = Keys(unit, self.folder)
        self.fn = cfg.fn
        if subst_consts:
            self._aliases()
        self._run()

    # -- alias substitution: a local that is initialised once from a pure
    # expression and never written afterwards is keyed as its initialiser.
    def _aliases(self):
        written = set()
        write_sites = {}          # root decl id -> [ast node of the write]
        decls = {}
        for x in walk(self.fn):
            if x.get('kind') == 'VarDecl' and 'init' in x:
                decls[x['id']] = x
        for x in walk(self.fn):
            for lv in (written_lvalues(x) if x.get('kind') in (
                    'BinaryOperator', 'CompoundAssignOperator', 'UnaryOperator', 'CallExpr',
                    'CXXMemberCallExpr', 'CXXOperatorCallExpr', 'CXXConstructExpr') else ()):
                r = _root_decl(lv)
                if r:
                    written.add(r)
                    write_sites.setdefault(r, []).append(x)
        for x in walk(self.fn):
            if x.get('kind') == 'ParmVarDecl':
                decls.setdefault(x['id'], x)
        self.never_written = set(decls) - written
        self._write_sites = write_sites
        self._init_all = {i: [c for c in kids(d) if not c.get('kind', '').endswith('Attr')][-1]
                          for i, d in decls.items() if i not in written and d.get('kind') == 'VarDecl' and
                          [c for c in kids(d) if not c.get('kind', '').endswith('Attr')]}
        # locals that are written again later: their initialiser still stands for them at a test reached before any write
        self._init_later_written = {i: [c for c in kids(d) if not c.get('kind', '').endswith('Attr')][-1]
                                    for i, d in decls.items() if i in written and d.get('kind') == 'VarDecl' and 'init' in d and
                                    [c for c in kids(d) if not c.get('kind', '').endswith('Attr')]}
        self._decl_node = decls
        const_method = bool(re.search(r'\)\s*const\b', qtype(self.fn)))

        def written_after(decl_node, i):
            """Is variable i written at a CFG node reachable after the declaration?"""
            starts = self.cfg.nodes_for(decl_node)
            if not starts:
                return True
            seen = set()
            stack = [m for s_ in starts for (m, _) in s_.succs]
            while stack:
                n = stack.pop()
                if n.id in seen:
                    continue
                seen.add(n.id)
                stack.extend(m for (m, _) in n.succs)
            for w in write_sites.get(i, ()):
                for n in self.cfg.nodes_for(w):
                    if n.id in seen:
                        return True
            return False

        def stable(init, decl_node=None, ref=False):
            """Every variable the initialiser reads keeps its value from the declaration on.
            (ref: the local is a reference, so only the address computation has to be stable.)"""
            for y in walk(init):
                k = y.get('kind')
                if k == 'DeclRefExpr':
                    rd = y.get('referencedDecl') or {}
                    if rd.get('kind') in ('VarDecl', 'ParmVarDecl'):
                        i = rd.get('id')
                        if i in decls or i in written:
                            if i in written and (decl_node is None or written_after(decl_node, i)):
                                return False
                        else:
                            d = self.unit.by_id.get(i)
                            t = qtype(d) if d is not None else qtype(y)
                            if not (t.startswith('const ') or (d is not None and d.get('constexpr'))):
                                return False
                elif k == 'CXXThisExpr' and not const_method:
                    return False
                elif k == 'UnaryOperator' and y.get('opcode') == '*' and not ref and not qtype(y).startswith('const '):
                    return False
                elif k == 'ArraySubscriptExpr' and not ref and not qtype(y).startswith('const '):
                    return False        # (a read through a pointer to const denotes the same value throughout)
            return True
        subst = {}
        snapshots = {}
        for i, d in decls.items():
            if i in written:
                continue
            t = qtype(d)
            if t.endswith('&') and not t.startswith('const '):
                # a non-const reference is an alias of its referent
                pass
            ks = [c for c in kids(d) if not c.get('kind', '').endswith('Attr')]
            if not ks:
                continue
            init = ks[-1]
            isref = t.rstrip().endswith('&') and not t.rstrip().endswith('&&')
            # (in a const method the elements of member containers cannot change either: element reads are stable)
            relaxed = isref or (const_method and all(_root_is_this(y) for y in walk(init)
                                                       if y.get('kind') == 'CXXOperatorCallExpr'))
            if d.get('kind') == 'ParmVarDecl' or not _pure(init, ref=relaxed, folder=self.folder):
                continue
            if not stable(init, d, ref=relaxed):
                # a snapshot (`const std::size_t n = v_.size();`, `const T t = tr.field;`): it still stands for what it was
                # taken from at every use that no write to the places it read can reach -- decided below, once the locals
                # declared before it have their keys
                dt = dtype(d)
                if re.match(r'^const (unsigned |signed )?(bool|char|short|int|long|long long)$', dt or '') or \
                        (dt or '').endswith('* const') or (dt or '').endswith('*const'):
                    snapshots[i] = init
                continue
            # only scalar / pointer / reference locals
            dt = dtype(d)
            if not (dt.endswith('*') or dt.endswith('&') or re.match(
                    r'^(const )?(unsigned |signed )?(bool|char|short|int|long|long long)( const)?$', dt)
                    or dt.endswith('* const') or dt.endswith('*const')):
                continue
            subst[i] = init
        self._named_tests = {i: init for i, init in subst.items()
                             if re.match(r'^(const )?bool( const)?$', dtype(decls[i]) or '')}
        # resolve recursively (definitions precede uses, so iterate in order)
        self.keys.subst = {}
        # parameters of an internal helper that every caller binds to the same value are keyed as that value
        for i, kk in self.param_bindings.items():
            if i not in written:
                self.keys.subst[i] = kk
        for i in sorted(list(subst) + list(snapshots), key=lambda j: (decls[j].get('_pos') or ('', 0, 0))[1] or 0):
            if i in snapshots:
                if self._snapshot_stable(snapshots[i], decls[i], i):
                    subst[i] = snapshots[i]
                else:
                    continue
            self.keys.subst[i] = self.keys.key(subst[i])
        # element accesses through write-once pointer locals are keyed as the container element
        from .ptrnorm import build_env
        penv = build_env(self.fn, self.keys, self.never_written)
        self.keys.ptrenv = {i: v for i, v in penv.items() if v[0] == 'ptr'}
        # identification keys: additionally, a never-written local (scalar, pointer, reference or
        # const-qualified object) initialised from a call stands for that call's value.  Used by
        # rules to tell WHAT value an expression denotes, never to relate two evaluations.
        ident = {}
        for i, d in decls.items():
            if i in written or i in subst or d.get('kind') == 'ParmVarDecl':
                continue
            ks = [c for c in kids(d) if not c.get('kind', '').endswith('Attr')]
            if not ks or not stable(ks[-1], d):
                continue
            if any(y.get('kind') in ('CXXNewExpr', 'LambdaExpr', 'CompoundAssignOperator') or
                   (y.get('kind') == 'UnaryOperator' and y.get('opcode') in ('++', '--')) or
                   (y.get('kind') == 'BinaryOperator' and y.get('opcode') == '=') for y in walk(ks[-1])):
                continue
            dt = dtype(d)
            if not (dt.endswith('*') or dt.endswith('&') or dt.endswith('* const') or dt.endswith('*const') or
                    dt.startswith('const ') or re.match(r'^(unsigned |signed )?(bool|char|short|int|long|long long)$', dt)):
                continue
            ident[i] = ks[-1]
        self._ident = dict(self.keys.subst)
        self._ident_init = dict(subst)
        self._ident_init.update(ident)
        saved = self.keys.subst
        self.keys.subst = self._ident
        for i in sorted(ident, key=lambda j: (decls[j].get('_pos') or ('', 0, 0))[1] or 0):
            self._ident[i] = self.keys.key(ident[i])
        self.keys.subst = saved

    def _snapshot_stable(self, init, decl_node, i):
        """No write to a place the initialiser reads lies on a path from the declaration to a use of the local.  Places are
        compared as access paths with subscripts erased (two elements of one container may be the same element)."""
        def norm(k):
            return re.sub(r'\[[^\[\]]*\]', '[*]', re.sub(r'\[[^\[\]]*\]', '[*]', k))

        def overlap(a, b):
            if a == b:
                return True
            for (x_, y_) in ((a, b), (b, a)):
                if x_.startswith(y_) and x_[len(y_):len(y_) + 1] in ('.', '[', '-'):
                    return True
            return False
        reads = set()
        skip = set()
        for y in walk(init):
            if y.get('kind') == 'CXXMemberCallExpr' and callee(y) and callee(y)[0] == 'method' and callee(y)[2] is not None and \
                    callee(y)[1] in ('size', 'length', 'empty', 'capacity') and not call_args(y):
                # the extent of a container: changed by what restructures it, not by writes to its elements
                reads.add(norm(self.keys.key(callee(y)[2])) + '.<size>')
                o_ = callee(y)[2]
                while o_ is not None:
                    skip.add(id(o_))
                    if o_.get('kind') in ('ImplicitCastExpr', 'ParenExpr') and kids(o_):
                        o_ = kids(o_)[0]
                    else:
                        break
        for y in walk(init):
            k = y.get('kind')
            if id(y) in skip:
                continue
            if k in ('MemberExpr', 'ArraySubscriptExpr') or (k == 'DeclRefExpr' and (y.get('referencedDecl') or {}).get('kind') in ('VarDecl', 'ParmVarDecl')) \
                    or (k == 'UnaryOperator' and y.get('opcode') == '*') or k == 'CXXThisExpr' or \
                    (k == 'CXXOperatorCallExpr' and callee(y) and callee(y)[0] == 'fn' and callee(y)[1].get('name') in ('operator[]', 'operator*', 'operator->')):
                if k == 'MemberExpr' and 'CXXMethodDecl' in str((self.unit.by_id.get(y.get('referencedMemberDecl')) or {}).get('kind')):
                    continue
                kk = norm(self.keys.key(y))
                if kk and kk != 'this':
                    reads.add(kk)
                # (only the outermost access path is the place read: `tr.unix_time` reads that field, not all of tr)
                b_ = kids(y)[0] if k in ('MemberExpr', 'ArraySubscriptExpr') and kids(y) else None
                while b_ is not None:
                    skip.add(id(b_))
                    if b_.get('kind') in ('ImplicitCastExpr', 'ParenExpr', 'MemberExpr') and kids(b_):
                        b_ = kids(b_)[0]
                    else:
                        break
        if not reads:
            return False
        # a place reached through a reference / pointer local whose referent is not known by name may also be reached through
        # another name: for such reads any write to a field of that name, or to a whole element / pointee, counts
        def _rec(t):
            t = re.sub(r'\b(const|volatile|struct|class)\b', '', t or '').replace('&', '').strip()
            return t

        loose = set()
        loose_type = {}
        for rk in reads:
            m_ = re.match(r'^\*?\(?(\w+)#(0x[0-9a-f]+)\)?((?:->|\.).*)?$', rk)
            d_ = self._decl_node.get(m_.group(2)) if m_ else None
            if d_ is not None and ((qtype(d_) or '').rstrip().endswith('&') or (dtype(d_) or '').rstrip().rstrip('const').rstrip().endswith('*')):
                loose.add(rk)
                loose_type[rk] = _rec(dtype(d_) or qtype(d_)).rstrip('*').strip()
        g = self.cfg
        starts = g.nodes_for(decl_node)
        if not starts:
            return False

        start_ids = set(s_.id for s_ in starts)

        def closure(ns):
            # (a path that passes the declaration again takes a new snapshot there)
            seen = set()
            stack = [m for s_ in ns for (m, _) in s_.succs]
            while stack:
                n = stack.pop()
                if n.id in seen or n.id in start_ids:
                    continue
                seen.add(n.id)
                stack.extend(m for (m, _) in n.succs)
            return seen
        after_decl = closure(starts)
        use_nodes = set()
        for y in walk(self.fn):
            if y.get('kind') == 'DeclRefExpr' and (y.get('referencedDecl') or {}).get('id') == i:
                for n in g.nodes_for(y):
                    use_nodes.add(n.id)
        byid = {n.id: n for n in g.live}
        for x in walk(self.fn):
            k = x.get('kind')
            if k not in ('BinaryOperator', 'CompoundAssignOperator', 'UnaryOperator', 'CallExpr', 'CXXMemberCallExpr',
                         'CXXOperatorCallExpr', 'CXXConstructExpr'):
                continue
            wkeys = []
            wtypes = {}
            for lv in written_lvalues(x):
                if lv.get('_p') is not x and not any(c is lv for c in kids(x)) and k in ('BinaryOperator', 'CompoundAssignOperator', 'UnaryOperator'):
                    continue        # (reported again at its own node)
                wk_ = norm(self.keys.key(lv))
                cx = callee(x) if k in ('CXXMemberCallExpr', 'CXXOperatorCallExpr') else None
                if cx and ((cx[0] == 'method' and cx[2] is lv and cx[1] in ('operator[]', 'at', 'front', 'back', 'begin', 'end', 'data', 'find',
                                                                           'rbegin', 'rend')) or
                           (cx[0] == 'fn' and cx[1].get('name') in ('operator[]',) and call_args(x) and call_args(x)[0] is lv)):
                    wk_ += '[*]'        # access to an element: the elements may be written through the result, the extent not
                    wtypes[wk_] = _rec(dtype(x) or qtype(x))
                else:
                    wtypes.setdefault(wk_, _rec(dtype(lv) or qtype(lv)))
                wkeys.append(wk_)
            if k == 'CXXMemberCallExpr':
                c = callee(x)
                me = peel(kids(x)[0], explicit=False)
                if c and c[0] == 'method' and (c[2] is None or peel(c[2]).get('kind') == 'CXXThisExpr'):
                    from .expr import _member_fn_type, _is_const_method
                    if not _is_const_method(_member_fn_type(x, me)):
                        wkeys.append('this')        # a non-const member function of this object: any member may change
            if k == 'CallExpr':
                c = callee(x)
                if c and c[0] not in ('fn',):
                    wkeys.append('this')            # an indirect call: not followed
            hit = False
            for wk in wkeys:
                for rk in reads:
                    if wk == 'this' and (rk.startswith('this.') or rk in loose):
                        hit = True
                    elif wk != 'this' and overlap(wk, rk):
                        hit = True
                    elif rk in loose and wk != 'this' and re.match(r'^\w+#0x[0-9a-f]+$', wk):
                        # a local assigned as a whole: the same place only if the reference was bound to that very local
                        m2_ = re.match(r'^\*?\(?\w+#(0x[0-9a-f]+)', rk)
                        d2_ = self._decl_node.get(m2_.group(1)) if m2_ else None
                        ini_ = [c for c in kids(d2_) if not c.get('kind', '').endswith('Attr')] if d2_ is not None else []
                        if not ini_ or any(y.get('kind') == 'DeclRefExpr' and '%s#%s' % ((y.get('referencedDecl') or {}).get('name'),
                                                                                         (y.get('referencedDecl') or {}).get('id')) == wk
                                           for y in walk(ini_[-1])):
                            hit = True
                    elif rk in loose and wk != 'this':
                        rf = re.split(r'\.|->', rk)[-1] if re.search(r'\.|->', rk) else None
                        wf = re.split(r'\.|->', wk)[-1] if re.search(r'\.|->', wk) else None
                        whole = wk.endswith(']') or wk.startswith('*') or wf is None
                        if whole:
                            # (objects of two different class types are two objects)
                            tw, tr_ = wtypes.get(wk), loose_type.get(rk)
                            if not (tw and tr_ and tw != tr_ and not tw.endswith('*') and not tr_.endswith('*')):
                                hit = True
                        elif rf is None or rf == wf:
                            hit = True
            if not hit:
                continue
            wn = [n for n in g.nodes_for(x)]
            for n in wn:
                if n.id not in after_decl and not any(n is s_ for s_ in starts):
                    continue
                if n.id in after_decl and n.id in use_nodes:
                    if os.environ.get('VERIF_DBG_SNAP'):
                        print('SNAP same-node', decl_node.get('name'), wkeys, file=sys.stderr)
                    return False        # written and used in one evaluation: order not followed
                if n.id in after_decl and (closure([n]) & use_nodes):
                    if os.environ.get('VERIF_DBG_SNAP'):
                        print('SNAP later', decl_node.get('name'), wkeys, n, file=sys.stderr)
                    return False
        return True

    def walk_ident(self, e, _seen=None):
        """Nodes of e, and of the initialisers of the write-once locals it names (recursively)."""
        _seen = _seen if _seen is not None else set()
        for x in walk(e):
            yield x
            if x.get('kind') == 'DeclRefExpr':
                i = (x.get('referencedDecl') or {}).get('id')
                if i in getattr(self, '_ident_init', {}) and i not in _seen:
                    _seen.add(i)
                    for y in self.walk_ident(self._ident_init[i], _seen):
                        yield y

    def resolve_key(self, k):
        """A key that is just a write-once local: the key of what it was initialised from."""
        m = re.match(r'^\w+#(0x[0-9a-f]+)$', k or '')
        if m and m.group(1) in getattr(self, '_ident', {}):
            return self._ident[m.group(1)]
        return k

    def ident_key(self, e):
        """Key of e with write-once locals replaced by what they were initialised from (calls included)."""
        saved = self.keys.subst
        self.keys.subst = getattr(self, '_ident', saved)
        try:
            return self.keys.key(e)
        finally:
            self.keys.subst = saved

    def key(self, e):
        return self.keys.key(e)

    # -- facts from one condition node's edge
    def cond_facts(self, e, truth):
        """Facts implied by condition expression e evaluating to `truth`."""
        x = peel(e)
        k = x.get('kind')
        out = []
        if k == 'VarDecl':
            # condition variable: if (T* p = init)
            out.append(self._truthy(x, truth, key='%s#%s' % (x.get('name'), x.get('id')), ty=dtype(x)))
            ks = [c for c in kids(x)]
            if ks:
                out.append(self._truthy(ks[-1], truth))
                call = self._call_behind(peel(ks[-1]))
                if call is not None:
                    out += self._helper_facts(call, truth)
            return [f for f in out if f]
        if k == 'BinaryOperator' and x.get('opcode') in ('<', '<=', '>', '>=', '==', '!='):
            a, b = kids(x)
            op = x.get('opcode') if truth else NEG[x.get('opcode')]
            out.append(canon(op, self.key(a), self.key(b)))
            if op in ('==', '!='):
                for (p_, q_) in ((peel(a), peel(b)), (peel(b), peel(a))):
                    if q_ is not None and q_.get('kind') in ('CXXNullPtrLiteralExpr', 'GNUNullExpr') and p_ is not None:
                        call = self._call_behind(p_)
                        if call is not None:
                            out += self._helper_facts(call, op == '!=')
            return out
        if k == 'CXXOperatorCallExpr':
            c = callee(x)
            nm = c[1].get('name') if c and c[0] == 'fn' else None
            args = call_args(x)
            if nm in ('operator<', 'operator<=', 'operator>', 'operator>=', 'operator==',
                      'operator!=') and len(args) == 2:
                op = nm[8:] if truth else NEG[nm[8:]]
                out.append(canon(op, self.key(args[0]), self.key(args[1])))
                return out
        f = self._truthy(x, truth)
        out = [f] if f else []
        if k == 'CallExpr':
            out += self._helper_facts(x, truth)
        if k == 'DeclRefExpr':
            call = self._call_behind(x)
            if call is not None:
                out += self._helper_facts(call, truth)      # the result of a helper call, tested through a local
            # a named test: a write-once bool local whose initialiser is still valid here stands for that test
            i = (x.get('referencedDecl') or {}).get('id')
            init = getattr(self, '_named_tests', {}).get(i)
            if init is not None:
                sel = [fs for (fs, v) in self.bool_cases(init) if v is truth]
                if sel:
                    common = set(sel[0])
                    for fs in sel[1:]:
                        common &= set(fs)
                    out += list(common)
        return out

    def _call_behind(self, x):
        """The call whose value x is: the call itself, or the initialiser of the write-once local x names."""
        if x is None:
            return None
        if x.get('kind') == 'CallExpr':
            return x
        if x.get('kind') == 'DeclRefExpr':
            i = (x.get('referencedDecl') or {}).get('id')
            init = getattr(self, '_ident_init', {}).get(i)
            if init is not None and peel(init) is not None and peel(init).get('kind') == 'CallExpr':
                return peel(init)
            # a write-once local holding the result of a call whose arguments are changed later on: usable at a test
            # that is reached from the declaration before any of them is written
            init = getattr(self, '_init_all', {}).get(i)
            cur = getattr(self, '_cur_node', None)
            if init is not None and cur is not None and peel(init) is not None and peel(init).get('kind') == 'CallExpr':
                if self._unwritten_between(self._decl_node[i], cur, peel(init)):
                    return peel(init)
            init = getattr(self, '_init_later_written', {}).get(i)
            if init is not None and cur is not None and peel(init) is not None and peel(init).get('kind') == 'CallExpr':
                if self._unwritten_between(self._decl_node[i], cur, peel(init), also=(i,)):
                    return peel(init)
        return None

    def _unwritten_between(self, decl, node, call, also=()):
        """No variable the call's arguments read (nor any of `also`) is written on a path from the declaration to `node`."""
        roots = set(also)
        for a in call_args(call):
            for y in walk(a):
                if y.get('kind') == 'DeclRefExpr' and (y.get('referencedDecl') or {}).get('kind') in ('VarDecl', 'ParmVarDecl'):
                    roots.add((y.get('referencedDecl') or {}).get('id'))
        starts = self.cfg.nodes_for(decl)
        if not starts:
            return False
        wnodes = set()
        for r in roots:
            for w in self._write_sites.get(r, ()):
                for n in self.cfg.nodes_for(w):
                    wnodes.add(n.id)
        # nodes on some path decl -> node: reachable from decl and reaching node
        fwd = set()
        stack = [m for s_ in starts for (m, _) in s_.succs]
        while stack:
            n = stack.pop()
            if n.id in fwd:
                continue
            fwd.add(n.id)
            if n is node:
                continue
            stack.extend(m for (m, _) in n.succs)
        if node.id not in fwd:
            return False
        bwd = set()
        stack = [node]
        while stack:
            n = stack.pop()
            if n.id in bwd:
                continue
            bwd.add(n.id)
            stack.extend(p for (p, _) in n.preds if p.id in fwd)
        between = (fwd & bwd) - {node.id}
        return not (between & wnodes)

    def _helper_facts(self, call, truth, _depth=0):
        """Facts a call of a small internal predicate implies: what holds on every return of the helper that yields
        `truth`, with the helper's parameters replaced by the arguments (its own locals keep their keys)."""
        hs = getattr(self, 'helper_summaries', None)
        if hs is None:
            return []
        c = callee(call)
        if not (c and c[0] == 'fn' and c[1].get('_qn')):
            return []
        summ = hs(c[1])
        if summ is None:
            return []
        ps, cases = summ
        args = call_args(call)
        if len(ps) != len(args):
            return []
        ren = [(pk, self.key(a)) for (pk, a) in zip(ps, args)]
        if all(isinstance(v, bool) for (_, v) in cases):
            sel = [fs for (fs, v) in cases if v is truth]
        elif all(isinstance(v, str) for (_, v) in cases):
            # a pointer result: "non-null" selects the returns of something other than the null literal
            sel = [fs for (fs, v) in cases if (v != 'null') == truth]
            vals = set(v for (fs, v) in cases if v != 'null')
            if truth and len(vals) == 1:
                ren.append((list(vals)[0], self.key(call)))       # what it hands back is the value of the call
        else:
            return []
        if not sel:
            return []
        common = set(sel[0])
        for fs in sel[1:]:
            common &= set(fs)
        out = []
        for (op, a, b) in common:
            for (pk, ak) in ren:
                a = a.replace(pk, ak)
                b = b.replace(pk, ak)
            out.append(canon(op, a, b))
        return out

    def bool_cases(self, e):
        """Short-circuit expansion of a boolean expression: [(facts that hold, value)] where value is
        True / False, or the key of the expression when it is not a boolean combination of tests."""
        x = peel(e)
        k = x.get('kind')
        if k == 'BinaryOperator' and x.get('opcode') in ('&&', '||'):
            a, b = kids(x)
            out = []
            stop = (x['opcode'] == '||')
            for (fa, va) in self.bool_cases(a):
                if va is stop:
                    out.append((fa, va))
                elif va is (not stop):
                    for (fb, vb) in self.bool_cases(b):
                        out.append((fa + fb, vb))
                else:
                    return [([], self.key(x))]
            return out
        if k == 'UnaryOperator' and x.get('opcode') == '!':
            return [(fs, (not v) if isinstance(v, bool) else '!(%s)' % v) for (fs, v) in self.bool_cases(kids(x)[0])]
        if k == 'CXXBoolLiteralExpr':
            return [([], bool(x.get('value')))]
        v = self.folder.fold(x)
        if v is not None and ((dtype(x) or '').replace('const ', '').strip() == 'bool' or k == 'IntegerLiteral'):
            return [([], bool(v))]
        if k == 'ConditionalOperator':
            c, a, b = kids(x)
            out = []
            for (fc, vc) in self.bool_cases(c):
                if not isinstance(vc, bool):
                    return [([], self.key(x))]
                for (fb, vb) in self.bool_cases(a if vc else b):
                    out.append((fc + fb, vb))
            return out
        # std::tie(a1, .., an) == std::tie(b1, .., bn): the conjunction of the member-wise equalities
        if k == 'CXXOperatorCallExpr' and callee(x) and callee(x)[0] == 'fn' and callee(x)[1].get('name') in ('operator==', 'operator!=') \
                and len(call_args(x)) == 2:
            def _tie_args(e_):
                y = peel(e_)
                while y is not None and y.get('kind') in ('MaterializeTemporaryExpr', 'CXXBindTemporaryExpr', 'ExprWithCleanups',
                                                          'CXXConstructExpr') and len(kids(y)) == 1:
                    y = peel(kids(y)[0])
                if y is not None and y.get('kind') == 'CallExpr' and callee(y) and callee(y)[0] == 'fn' and \
                        callee(y)[1].get('name') in ('tie', 'make_tuple', 'forward_as_tuple'):
                    return call_args(y)
                return None
            ta, tb = _tie_args(call_args(x)[0]), _tie_args(call_args(x)[1])
            if ta is not None and tb is not None and len(ta) == len(tb) and ta:
                eq_cases = [([], True)]
                for (p_, q_) in zip(ta, tb):
                    kp, kq = self.key(p_), self.key(q_)
                    nxt = []
                    for (fs_, v_) in eq_cases:
                        if v_ is True:
                            nxt.append((fs_ + [canon('==', kp, kq)], True))
                            nxt.append((fs_ + [canon('!=', kp, kq)], False))
                        else:
                            nxt.append((fs_, v_))
                    eq_cases = nxt
                if callee(x)[1].get('name') == 'operator!=':
                    eq_cases = [(fs_, not v_) for (fs_, v_) in eq_cases]
                return eq_cases
        is_test = (k == 'BinaryOperator' and x.get('opcode') in ('<', '<=', '>', '>=', '==', '!=')) or \
            (k == 'CXXOperatorCallExpr' and callee(x) and callee(x)[0] == 'fn' and
             callee(x)[1].get('name') in ('operator<', 'operator<=', 'operator>', 'operator>=', 'operator==', 'operator!='))
        if is_test or (dtype(x) or '').replace('const ', '').strip() == 'bool' or dtype(x).endswith('*'):
            return [(self.cond_facts(x, True), True), (self.cond_facts(x, False), False)]
        return [([], self.key(x))]

    def return_cases(self, rn):
        """[(facts, value)] for a return node: must-facts on arrival plus the short-circuit cases of
        the returned expression (value True/False for boolean results, else its key)."""
        ks = kids(rn.ast)
        base = list(self.facts_at(rn))
        if not ks:
            return [(frozenset(base), None)]
        t = (dtype(ks[0]) or '').replace('const ', '').strip()
        if t != 'bool':
            return [(frozenset(base + list(fs)), self.key(arm)) for (fs, arm) in self.value_cases(ks[0])]
        x0 = peel(ks[0])
        if x0 is not None and x0.get('kind') == 'DeclRefExpr' and (x0.get('referencedDecl') or {}).get('kind') == 'VarDecl':
            r = self._bool_local_cases(rn, x0)
            if r is not None:
                return r
        return [(frozenset(base + list(fs)), v) for (fs, v) in self.bool_cases(ks[0])]

    def _bool_local_cases(self, rn, ref):
        """Cases of a returned bool local that is assigned on several paths (single-exit style): per simple path, the
        short-circuit cases of the expression last assigned to it, with the facts holding on arrival; cases that contradict
        a later test of the local on the same path are dropped.  None when the local is modified other than by plain
        assignment."""
        did = (ref.get('referencedDecl') or {}).get('id')
        d = self.unit.by_id.get(did)
        if d is None or d.get('kind') != 'VarDecl':
            return None
        vk = '%s#%s' % (d.get('name'), did)
        writes = {}
        for n in self.cfg.live:
            if n.ast is None or n.kind != 'stmt':
                continue
            a = n.ast
            if a is d and kids(d):
                writes[n.id] = kids(d)[-1]
                continue
            for y in walk(a):
                if y.get('kind') in ('BinaryOperator', 'CompoundAssignOperator', 'UnaryOperator') and \
                        any((peel(l_).get('referencedDecl') or {}).get('id') == did for l_ in written_lvalues(y)):
                    if y.get('kind') == 'BinaryOperator' and y.get('opcode') == '=' and a is y:
                        writes[n.id] = kids(y)[1]
                    else:
                        return None
        if len(writes) < 2:
            return None
        out = []
        seen = set()
        for (fs, ever, trail) in self.path_facts([rn], nodes=True, cap=4000):
            last = None
            for n in trail:
                if n.id in writes:
                    last = n
            if last is None:
                return None
            for (fc, val) in self.bool_cases(writes[last.id]):
                if isinstance(val, bool):
                    if val and canon('==', vk, 'n:0') in fs:
                        continue
                    if not val and canon('!=', vk, 'n:0') in fs:
                        continue
                # (with value control flow in the CFG the path already fixes the operands' tests: drop the cases it refutes)
                if any((('!=' if op == '==' else '==') if op in ('==', '!=') else None, a, b) in fs for (op, a, b) in fc):
                    continue
                # the operands of the assigned expression must still hold their values on arrival
                kills = set()
                i0 = trail.index(last)
                for n in trail[i0:]:
                    kills |= set(self.kills.get(n.id) or ())
                kills.discard(vk)
                fc2 = self._apply_kills(frozenset(fc), list(kills)) if kills else frozenset(fc)
                item = (frozenset(fs | fc2), val)
                if item not in seen:
                    seen.add(item)
                    out.append(item)
        return out or None

    def value_cases(self, e):
        """[(facts, sub-expression)]: the operand a (possibly nested) conditional expression evaluates to, with the
        facts of the tests that select it."""
        x = peel(e)
        while x is not None and x.get('kind') in ('CXXConstructExpr', 'CXXBindTemporaryExpr', 'MaterializeTemporaryExpr', 'ExprWithCleanups') \
                and len([a_ for a_ in kids(x) if a_.get('kind') != 'CXXDefaultArgExpr']) == 1:
            x = peel([a_ for a_ in kids(x) if a_.get('kind') != 'CXXDefaultArgExpr'][0])     # copy of the selected value
        if x is not None and x.get('kind') == 'ConditionalOperator':
            c, a, b = kids(x)
            out = []
            for (fc, vc) in self.bool_cases(c):
                if not isinstance(vc, bool):
                    return [([], e)]
                for (fs, arm) in self.value_cases(a if vc else b):
                    out.append((list(fc) + list(fs), arm))
            return out
        return [([], e)]

    def _truthy(self, x, truth, key=None, ty=None):
        key = key or self.key(x)
        ty = ty or dtype(x)
        if ty.endswith('*') or ty.endswith('* const') or ty.endswith('*const') or 'unique_ptr' in ty or ty == 'std::nullptr_t':
            return canon('!=' if truth else '==', key, 'null')
        return canon('!=' if truth else '==', key, 'n:0')

    # -- dataflow
    def _kills(self, node):
        if node.kind not in ('stmt', 'cond', 'switch') or node.ast is None:
            return []
        ast = node.ast
        ks = []
        for lv in written_lvalues(ast):
            ks.append(self.key(lv))
        if ast.get('kind') == 'VarDecl':
            ks.append('%s#%s' % (ast.get('name'), ast.get('id')))
        return ks

    def _apply_kills(self, facts, kills):
        if not kills or not facts:
            return facts
        out = set()
        for f in facts:
            txt = f[1] + ' ' + f[2]
            dead = False
            for k in kills:
                if not k or k.startswith('n:'):
                    continue
                if _mentions(txt, k):
                    dead = True
                    break
            if not dead:
                out.add(f)
        return frozenset(out)

    def _run(self):
        kills = {n.id: self._kills(n) for n in self.cfg.live}
        self.kills = kills

        def transfer(n, st):
            return self._apply_kills(st, kills.get(n.id))

        def edge(n, label, st):
            if n.kind == 'cond' and label in ('T', 'F') and n.info != 'range-for':
                self._cur_node = n
                fs = self.cond_facts(n.ast, label == 'T')
                self._cur_node = None
                # a fact that contradicts a must-fact makes the edge infeasible
                return frozenset(st | set(fs))
            if n.kind == 'switch' and isinstance(label, tuple):
                v = self.folder.fold(label[1])
                if v is not None:
                    return frozenset(st | {canon('==', self.key(n.ast), 'n:%d' % v)})
            if n.kind == 'switch' and label in ('default', 'nomatch'):
                return frozenset(st | self._switch_default_facts(n))
            return st

        def meet(ins):
            r = ins[0]
            for s in ins[1:]:
                r = r & s
            return r
        self.at, self.after = self.cfg.forward(frozenset(), transfer, meet, edge)

    # -- per-path facts (for disjunctive guards); acyclic simple paths only
    def path_facts(self, targets, cap=20000, history=False, nodes=False):
        """One entry per simple path from entry to a node in targets: the frozenset of
        facts that hold on arrival (history=False) or the pair (holding, ever
        established along the path) (history=True)."""
        tg = set(n.id for n in targets)
        out = []
        count = [0]

        def step(n, fs, ever, onpath, trail=()):
            if count[0] > cap:
                return
            if nodes:
                trail = trail + (n,)
            if n.id in tg:
                # facts on arrival (before the target's own writes), as in facts_at()
                out.append((fs, ever, trail) if nodes else (fs, ever) if history else fs)
                count[0] += 1
                return
            fs = self._apply_kills(fs, self.kills.get(n.id))
            if False:
                count[0] += 1
                return
            for (m, lab) in n.succs:
                if m.id in onpath:
                    continue
                f2, e2 = fs, ever
                new = None
                if n.kind == 'cond' and lab in ('T', 'F') and n.info != 'range-for':
                    self._cur_node = n
                    new = set(self.cond_facts(n.ast, lab == 'T'))
                    self._cur_node = None
                elif n.kind == 'switch' and isinstance(lab, tuple):
                    v = self.folder.fold(lab[1])
                    if v is not None:
                        new = {canon('==', self.key(n.ast), 'n:%d' % v)}
                elif n.kind == 'switch' and lab in ('default', 'nomatch'):
                    new = self._switch_default_facts(n)
                if new:
                    if self._path_infeasible(n, lab, fs, trail):      # (facts still holding here, not stale ones)
                        continue        # the test names a bool local whose value, computed earlier on this very path, is the opposite
                    f2 = frozenset(fs | new)
                    e2 = frozenset(ever | new)
                step(m, f2, e2, onpath | {m.id}, trail)
        import sys
        old = sys.getrecursionlimit()
        sys.setrecursionlimit(max(old, 10000))
        try:
            step(self.cfg.entry, frozenset(), frozenset(), {self.cfg.entry.id})
        finally:
            sys.setrecursionlimit(old)
        if count[0] > cap:
            from .frontend import AnalysisBroken
            raise AnalysisBroken('path enumeration exceeded %d paths in %s' % (cap, self.fn.get('name')))
        return out

    def _switch_default_facts(self, n):
        """On the default (or no-match) edge of a switch the operand differs from every case label."""
        out = set()
        k = self.key(n.ast)
        for (m, lab) in n.succs:
            if isinstance(lab, tuple):
                v = self.folder.fold(lab[1])
                if v is not None:
                    out.add(canon('!=', k, 'n:%d' % v))
        return out

    def _path_infeasible(self, n, lab, ever, trail):
        """Branching on a bool local B: if B was initialised on this path from a boolean expression whose operands have not
        been written since, and the facts gathered while that expression was evaluated refute every way it can have the
        value the branch asserts, the path does not exist.  (Only used with nodes=True trails or when the declaration is
        known to precede; otherwise nothing is pruned.)"""
        if n.kind != 'cond' or n.ast is None or lab not in ('T', 'F'):
            return False
        x = peel(n.ast)
        neg = False
        while x is not None and x.get('kind') == 'UnaryOperator' and x.get('opcode') == '!':
            x = peel(kids(x)[0])
            neg = not neg
        if x is None or x.get('kind') != 'DeclRefExpr':
            return False
        i = (x.get('referencedDecl') or {}).get('id')
        d = getattr(self, '_decl_node', {}).get(i)
        if d is None or d.get('kind') != 'VarDecl' or (dtype(d) or '').replace('const ', '').strip() != 'bool':
            return False
        ks = [c for c in kids(d) if not c.get('kind', '').endswith('Attr')]
        if not ks:
            return False
        init = ks[-1]
        if not self._unwritten_between_vars(d, n, init, extra=[i]):
            return False
        want = (lab == 'T') != neg
        cases = self.bool_cases(init)
        if any(not isinstance(v, bool) for (_, v) in cases):
            return False
        for (fs, v) in cases:
            if v is not want:
                continue
            if not any(self._contradicts(f_, ever) for f_ in fs):
                return False        # this way of getting the asserted value is compatible with the path
        return True

    @staticmethod
    def _contradicts(f, facts):
        op, a, b = f
        for (o2, a2, b2) in facts:
            if (a2, b2) == (a, b):
                if (op, o2) in (('==', '!='), ('!=', '=='), ('<', '=='), ('==', '<'), ('<', '<='), ('<=', '<')) and not (
                        (op, o2) in (('<', '<='), ('<=', '<'))):
                    return True
            if (a2, b2) == (b, a):
                if (op, o2) in (('<', '<'), ('<', '<='), ('<=', '<'), ('<', '=='), ('==', '<')):
                    return True
        return False

    def _unwritten_between_vars(self, decl, node, expr, extra=()):
        roots = set(extra)
        for y in walk(expr):
            if y.get('kind') == 'DeclRefExpr' and (y.get('referencedDecl') or {}).get('kind') in ('VarDecl', 'ParmVarDecl'):
                roots.add((y.get('referencedDecl') or {}).get('id'))
        starts = self.cfg.nodes_for(decl)
        if not starts:
            return False
        wnodes = set()
        for r in roots:
            for w in self._write_sites.get(r, ()):
                for nn in self.cfg.nodes_for(w):
                    wnodes.add(nn.id)
        fwd = set()
        stack = [m for s_ in starts for (m, _) in s_.succs]
        while stack:
            nn = stack.pop()
            if nn.id in fwd:
                continue
            fwd.add(nn.id)
            if nn is node:
                continue
            stack.extend(m for (m, _) in nn.succs)
        if node.id not in fwd:
            return False
        bwd = set()
        stack = [node]
        while stack:
            nn = stack.pop()
            if nn.id in bwd:
                continue
            bwd.add(nn.id)
            stack.extend(p for (p, _) in nn.preds if p.id in fwd)
        between = (fwd & bwd) - {node.id}
        return not (between & wnodes)

    # -- queries
    def facts_at(self, node):
        return self.at.get(node.id, frozenset())

    def facts_at_ast(self, ast):
        """Facts holding whenever `ast` is evaluated (intersection over its nodes)."""
        ns = self.cfg.nodes_for(ast)
        if not ns:
            return None
        r = None
        for n in ns:
            f = self.facts_at(n)
            r = f if r is None else (r & f)
        return r

    def holds(self, ast, op, a, b):
        fs = self.facts_at_ast(ast)
        if fs is None:
            return False
        return implied(fs, canon(op, a, b))


def has_lower_bound(fs, k, n, unsigned=False):
    """Do the facts imply k >= n ?"""
    for (op, a, b) in fs:
        if b == k and a.startswith('n:'):
            m = int(a[2:])
            if (op == '<' and m >= n - 1) or (op == '<=' and m >= n) or (op == '==' and m >= n):
                return True
        if a == k and b.startswith('n:') and op == '==' and int(b[2:]) >= n:
            return True
        if unsigned and n == 1 and op == '!=' and set((a, b)) == set((k, 'n:0')):
            return True
    return unsigned and n <= 0


def implied(fs, f):
    if f in fs:
        return True
    op, a, b = f
    if op == '<=':
        if ('<', a, b) in fs or canon('==', a, b) in fs:
            return True
    if op == '!=':
        if ('<', a, b) in fs or ('<', b, a) in fs:
            return True
    # numeric strengthening: a < n:5 implies a < n:7
    if b.startswith('n:') and op in ('<', '<='):
        bv = int(b[2:])
        for (o2, a2, b2) in fs:
            if a2 == a and b2.startswith('n:') and o2 in ('<', '<=', '=='):
                v = int(b2[2:])
                if o2 == '<' and (v <= bv if op == '<' else v - 1 <= bv):
                    return True
                if o2 == '<=' and (v < bv if op == '<' else v <= bv):
                    return True
                if o2 == '==' and (v < bv if op == '<' else v <= bv):
                    return True
    if a.startswith('n:') and op in ('<', '<='):
        av = int(a[2:])
        for (o2, a2, b2) in fs:
            if b2 == b and a2.startswith('n:') and o2 in ('<', '<='):
                v = int(a2[2:])
                if o2 == '<' and (v >= av if op == '<' else v + 1 >= av):
                    return True
                if o2 == '<=' and (v > av if op == '<' else v >= av):
                    return True
            if o2 == '==' and a2.startswith('n:') and b2 == b:
                v = int(a2[2:])
                if (av < v if op == '<' else av <= v):
                    return True
    return False


def _mentions(txt, k):
    i = txt.find(k)
    while i >= 0:
        j = i + len(k)
        before = txt[i - 1] if i > 0 else ' '
        after = txt[j] if j < len(txt) else ' '
        if not (before.isalnum() or before in '_#') and not (after.isalnum() or after in '_#'):
            return True
        i = txt.find(k, i + 1)
    return False


def _root_decl(e):
    x = peel(e)
    while x is not None:
        k = x.get('kind')
        if k == 'DeclRefExpr':
            return (x.get('referencedDecl') or {}).get('id')
        if k in ('MemberExpr', 'ArraySubscriptExpr'):
            ks = kids(x)
            if not ks:
                return None
            x = peel(ks[0])
            continue
        if k == 'UnaryOperator' and x.get('opcode') in ('*', '&', '++', '--'):
            x = peel(kids(x)[0])
            continue
        if k == 'CXXOperatorCallExpr':
            a = call_args(x)
            if a:
                x = peel(a[0])
                continue
        return None
    return None


def _root_is_this(opcall):
    """operator[] / * / -> applied (possibly through members) to an object of *this."""
    args = call_args(opcall)
    if not args:
        return False
    x = peel(args[0])
    while x is not None and x.get('kind') == 'MemberExpr':
        ks = kids(x)
        if not ks:
            return True          # implicit this
        x = peel(ks[0])
    return x is not None and x.get('kind') == 'CXXThisExpr'


def _pure(e, ref=False, folder=None):
    if folder is not None and folder.fold(e) is not None:
        return True             # a constant, however spelled (std::chrono::seconds::max().count())
    for x in walk(e):
        k = x.get('kind')
        if k == 'CallExpr' and folder is not None and folder.fold(x) is not None:
            continue            # a call the constant folder evaluates (numeric_limits<T>::max() and the like)
        if k == 'CXXOperatorCallExpr' and ref:
            c = callee(x)
            if c and c[0] == 'fn' and c[1].get('name') in ('operator[]', 'operator*', 'operator->'):
                continue        # element access naming the referent of a reference local
        if k in ('CallExpr', 'CXXOperatorCallExpr'):
            return False
        if k == 'CXXMemberCallExpr':
            c = callee(x)
            if not (c and c[0] == 'method' and c[1] in ('size', 'c_str', 'data', 'length', 'count',
                                                          'begin', 'end', 'get')):
                return False
        if k == 'UnaryOperator' and x.get('opcode') in ('++', '--'):
            return False
        if k == 'BinaryOperator' and (x.get('opcode') == '=' or (
                x.get('opcode', '').endswith('=') and x.get('opcode') not in ('==', '!=', '<=', '>='))):
            return False
        if k in ('CXXNewExpr', 'LambdaExpr', 'CompoundAssignOperator'):
            return False
    return True
