#!/bin/bash
# verify_mut.sh <ID> <variant> [san]  : confirm a delivered mutant in a scratch worktree.
#  - patch applies to /repo HEAD, builds, ctest passes
#  - demo exits 0 without the patch and non-zero with it (optionally under sanitizers)
# Writes /verif/seeded/<ID><variant>/{patch.diff,demo.cc,meta.json} when confirmed.
set -u
ID=$1; V=$2; SAN=${3:-}
D=/tmp/mut/$ID/deliver/$V
W=/tmp/mv_$ID$V
rm -rf $W; git -C /repo worktree prune; git -C /repo worktree add -q --detach $W HEAD || exit 9
cd $W
CXXF=""; CXX=g++
if [ "$SAN" = "tsan" ]; then CXX=clang++; CXXF="-fsanitize=thread"; fi
if [ "$SAN" = "asan" ]; then CXX=g++; CXXF="-fsanitize=address,undefined -fno-omit-frame-pointer"; fi
build() { # $1 builddir
  cmake -G Ninja -B $1 -DCMAKE_BUILD_TYPE=RelWithDebInfo -DBUILD_BENCHMARK=OFF -DBUILD_EXAMPLES=OFF -DCMAKE_CXX_COMPILER=$CXX -DCMAKE_CXX_FLAGS="$CXXF" >/dev/null 2>&1 && cmake --build $1 >/dev/null 2>&1
}
demo() { # $1 builddir $2 out
  $CXX -std=c++17 -O1 -g $CXXF -pthread -Iinclude -Isrc $D/demo.cc $1/libcctz.a -o $2 2>&1 | head -5
}
export TZDIR=$W/testdata/zoneinfo
build _b0 || { echo "BASE BUILD FAIL"; exit 8; }
demo _b0 _b0/demo
timeout 300 _b0/demo ${DEMO_ARGS-$TZDIR} >/tmp/mv_$ID$V.base.out 2>&1; RC0=$?
git apply $D/patch.diff || { echo "PATCH DOES NOT APPLY"; cd /; git -C /repo worktree remove --force $W; exit 7; }
build _b1 || { echo "MUT BUILD FAIL"; exit 6; }
# tests always with a plain build
if [ -n "$SAN" ]; then
  cmake -G Ninja -B _bt -DCMAKE_BUILD_TYPE=RelWithDebInfo -DBUILD_BENCHMARK=OFF -DBUILD_EXAMPLES=OFF >/dev/null 2>&1 && cmake --build _bt >/dev/null 2>&1
  TESTS=$(ctest --test-dir _bt -j8 --timeout 900 2>&1 | grep "tests passed")
else
  TESTS=$(ctest --test-dir _b1 -j8 --timeout 900 2>&1 | grep "tests passed")
fi
demo _b1 _b1/demo
timeout 300 _b1/demo ${DEMO_ARGS-$TZDIR} >/tmp/mv_$ID$V.mut.out 2>&1; RC1=$?
echo "$ID$V san=$SAN base_rc=$RC0 mut_rc=$RC1 tests=[$TESTS]"
if [ $RC0 -eq 0 ] && [ $RC1 -ne 0 ] && echo "$TESTS" | grep -q "100% tests passed"; then
  mkdir -p /verif/seeded/$ID$V
  git diff > /verif/seeded/$ID$V/patch.diff
  cp $D/demo.cc /verif/seeded/$ID$V/demo.cc
  cp $D/README.md /verif/seeded/$ID$V/README.md
  tail -5 /tmp/mv_$ID$V.mut.out > /verif/seeded/$ID$V/demo_output_with_mutant.txt
  echo "CONFIRMED $ID$V"
else
  echo "NOT CONFIRMED $ID$V"; tail -5 /tmp/mv_$ID$V.mut.out
fi
cd /; git -C /repo worktree remove --force $W; rm -f /tmp/mv_$ID$V.*.out
