#!/usr/bin/env python3
"""Dev harness: tryvar.py <PROP[,PROP..]> <file> <python-regex> <replacement> [--base=<patch.diff>]
   One-line variant on a scratch copy of /repo's working tree (never touches /repo)."""
import os, re, shutil, subprocess, sys, tempfile
V = os.path.dirname(os.path.dirname(os.path.abspath(__file__)))
args = [a for a in sys.argv[1:] if not a.startswith('--')]
base = [a.split('=', 1)[1] for a in sys.argv[1:] if a.startswith('--base=')]
props, file_, pat, repl = args[0].split(','), args[1], args[2], args[3]
scratch = tempfile.mkdtemp(prefix='tryvar.')
try:
    root = os.path.join(scratch, 'repo')
    os.makedirs(root)
    for sub in ('include', 'src'):
        shutil.copytree(os.path.join('/repo', sub), os.path.join(root, sub))
    shutil.copy('/repo/CMakeLists.txt', root)
    for b in base:
        subprocess.run(['patch', '-p1', '-s', '-d', root, '-i', os.path.abspath(b)], check=True)
    fp = os.path.join(root, file_)
    s = open(fp).read()
    n = len(re.findall(pat, s))
    if n != 1:
        print('PATTERN MATCHES', n); sys.exit(3)
    open(fp, 'w').write(re.sub(pat, lambda m: repl.replace('\\n', '\n'), s, count=1))
    cc = subprocess.run(['clang++', '-std=gnu++17', '-fsyntax-only', '-I' + root + '/include', '-I' + root + '/src', '-x', 'c++', fp],
                        capture_output=True, text=True)
    if cc.returncode:
        print(cc.stderr[:800]); print('DOES NOT COMPILE'); sys.exit(4)
    env = dict(os.environ, VERIF_REPO=root, VERIF_WORK=os.path.join(scratch, 'work'))
    for p in props:
        o = subprocess.run(['python3', 'sa/check.py', p, '--scratch'], cwd=V, capture_output=True, text=True, env=env)
        lines = [l for l in (o.stdout + o.stderr).splitlines() if not l.startswith('    via')]
        for l in lines[-int(os.environ.get('TAILN', '4')):]:
            print(l[:260])
        print('%s rc=%d' % (p, o.returncode))
finally:
    shutil.rmtree(scratch, ignore_errors=True)
