"""LOCK engine: RAII lock context.

A local of type std::lock_guard / unique_lock / scoped_lock constructed from
mutex expression M holds M from its declaration to the end of the enclosing
compound statement.  Raw lock()/unlock() calls on a guard or a mutex make the
function's lock regions unknowable for this engine; such a function is
reported and its regions are treated as not held."""
import re
from .frontend import kids, walk, qtype, dtype, ancestors, pos
from .expr import Keys, callee, call_args, peel

GUARD_RE = re.compile(r'\b(std::)?(lock_guard|unique_lock|scoped_lock|shared_lock)<')


def wrapper_guard_records(unit):
    """{record decl id: mutex key} for classes that hold a std::lock_guard / scoped_lock member which every
    constructor locks on one and the same mutex expression: an object of such a class is a guard of that mutex for
    its whole lifetime (lock_guard cannot be released)."""
    if hasattr(unit, '_wrapper_guards'):
        return unit._wrapper_guards
    out = {}
    K = Keys(unit)
    for r in unit.walk():
        if r.get('kind') != 'CXXRecordDecl' or not r.get('completeDefinition'):
            continue
        flds = [c for c in kids(r) if c.get('kind') == 'FieldDecl' and re.search(r'\b(lock_guard|scoped_lock)<', (dtype(c) or '') + qtype(c))]
        if len(flds) != 1:
            continue
        keys = set()
        ctors = [c for c in kids(r) if c.get('kind') == 'CXXConstructorDecl' and not c.get('explicitlyDeleted') and not c.get('isImplicit')
                 and not c.get('explicitlyDefaulted')]
        ok = bool(ctors)
        for c in ctors:
            body = c
            if not any(k.get('kind') == 'CompoundStmt' for k in kids(c)):
                # defined out of class: find the definition
                defs = [d for d in unit.walk() if d.get('kind') == 'CXXConstructorDecl' and d.get('previousDecl') == c.get('id')]
                body = defs[0] if defs else None
            if body is None:
                ok = False
                break
            inits = [ci for ci in kids(body) if ci.get('kind') == 'CXXCtorInitializer' and (ci.get('anyInit') or {}).get('name') == flds[0].get('name')]
            if len(inits) != 1:
                ok = False
                break
            ce = [y for y in walk(inits[0]) if y.get('kind') == 'CXXConstructExpr']
            args = call_args(ce[0]) if ce else []
            if len(args) != 1:
                ok = False
                break
            keys.add(K.key(args[0]))
        if ok and len(keys) == 1:
            out[r['id']] = (list(keys)[0], r)
    unit._wrapper_guards = out
    return out


def wrapper_guard_key(unit, type_text):
    t = re.sub(r'\b(const|volatile|class|struct)\b', '', type_text or '').replace('&', '').strip()
    if not t or '*' in t or '<' in t:
        return None
    name = t.split('::')[-1].strip()
    for rid, (mk, r) in wrapper_guard_records(unit).items():
        if r.get('name') == name:
            return mk
    return None


def _mutex_expr(unit, e, depth=0):
    """The expression a guard's argument denotes: a reference local (or `*p` of a const pointer local initialised with
    `&m`) stands for what it was bound to -- neither can be re-seated."""
    x = peel(e)
    if x is None or depth > 3:
        return e
    if x.get('kind') == 'DeclRefExpr':
        d = unit.by_id.get((x.get('referencedDecl') or {}).get('id'))
        if d is not None and d.get('kind') == 'VarDecl' and kids(d) and (qtype(d) or '').rstrip().endswith('&') and \
                d.get('storageClass') != 'static':
            return _mutex_expr(unit, kids(d)[-1], depth + 1)
    if x.get('kind') == 'UnaryOperator' and x.get('opcode') == '*':
        y = peel(kids(x)[0])
        if y is not None and y.get('kind') == 'DeclRefExpr':
            d = unit.by_id.get((y.get('referencedDecl') or {}).get('id'))
            t = (qtype(d) or '').rstrip() if d is not None else ''
            if d is not None and d.get('kind') == 'VarDecl' and kids(d) and t.endswith('*const') or t.endswith('* const'):
                i = peel(kids(d)[-1])
                if i is not None and i.get('kind') == 'UnaryOperator' and i.get('opcode') == '&':
                    return _mutex_expr(unit, kids(i)[0], depth + 1)
    return e


class LockRegions(object):
    def __init__(self, unit, fn):
        self.fn = fn
        self.keys = Keys(unit)
        self.guards = []      # (vardecl, mutex_key, compound, index_in_compound)
        self.manual = []      # raw lock/unlock calls that cannot be followed
        self.toggles = []     # (call, guard decl id, locks?) : unique_lock::lock()/unlock() on a local guard
        for x in walk(fn):
            if x.get('kind') == 'VarDecl' and not GUARD_RE.search(dtype(x) or qtype(x)):
                # a local object of a class that owns a lock_guard member locked in its constructor: a guard too
                mk = wrapper_guard_key(unit, dtype(x) or qtype(x))
                if mk is not None:
                    ds = x.get('_p')
                    comp = ds.get('_p') if ds is not None else None
                    if ds is not None and ds.get('kind') == 'DeclStmt' and comp is not None and comp.get('kind') == 'CompoundStmt':
                        idx = [i for i, c in enumerate(kids(comp)) if c is ds][0]
                        self.guards.append((x, mk, comp, idx))
                    else:
                        self.manual.append(x)
                    continue
            if x.get('kind') == 'VarDecl' and GUARD_RE.search(dtype(x) or qtype(x)):
                ds = x.get('_p')
                comp = ds.get('_p') if ds is not None else None
                if ds is None or ds.get('kind') != 'DeclStmt' or comp is None or \
                        comp.get('kind') != 'CompoundStmt':
                    self.manual.append(x)
                    continue
                ctor = [c for c in kids(x) if c.get('kind') in ('CXXConstructExpr', 'ExprWithCleanups')]
                mk = None
                if ctor:
                    c = peel(ctor[0])
                    args = call_args(c) if c.get('kind') == 'CXXConstructExpr' else []
                    if len(args) >= 1:
                        mk = self.keys.key(_mutex_expr(unit, args[0]))
                    if len(args) > 1:
                        # defer_lock / try_to_lock / adopt_lock variants: not a plain hold
                        self.manual.append(x)
                        continue
                if mk is None:
                    self.manual.append(x)
                    continue
                idx = [i for i, c in enumerate(kids(comp)) if c is ds][0]
                self.guards.append((x, mk, comp, idx))
            if x.get('kind') == 'CXXMemberCallExpr':
                c = callee(x)
                if c and c[0] == 'method' and c[1] in ('lock', 'unlock', 'try_lock', 'release') \
                        and c[2] is not None:
                    t = dtype(c[2]) or qtype(c[2])
                    if GUARD_RE.search(t) or re.search(r'\bmutex\b', t):
                        o = peel(c[2])
                        gid = (o.get('referencedDecl') or {}).get('id') if o is not None and o.get('kind') == 'DeclRefExpr' else None
                        if c[1] in ('lock', 'unlock') and gid is not None and re.search(r'unique_lock<', t):
                            self.toggles.append((x, gid, c[1] == 'lock'))     # followed flow-sensitively
                        else:
                            self.manual.append(x)
        self._flow = None

    def held_at(self, node):
        """[(mutex_key, guard_decl)] held when AST node `node` is evaluated."""
        if self.manual:
            return []
        out = []
        chain = [node] + list(ancestors(node))
        held_now = self._held_flow(node) if self.toggles else None
        for (g, mk, comp, idx) in self.guards:
            if held_now is not None and g['id'] in held_now and not held_now[g['id']]:
                continue        # inside the guard's scope but after an unlock() on every/any path
            for i, a in enumerate(chain):
                if a is comp and i > 0:
                    child = chain[i - 1]
                    ks = kids(comp)
                    ci = [j for j, c in enumerate(ks) if c is child]
                    if ci and ci[0] > idx:
                        out.append((mk, g))
                    break
        return out

    def _held_flow(self, node):
        """{guard decl id: held?} at `node` for guards that are unlocked / re-locked by hand: forward must-analysis
        over the CFG (held at a join only if held on every incoming path)."""
        from .cfg import CFG
        if self._flow is None:
            g = CFG(self.fn)
            tog = {}
            for (x, gid, locks) in self.toggles:
                for n in g.nodes_for(x):
                    tog.setdefault(n.id, []).append((x, gid, locks))
            decl_nodes = {}
            for (gd, mk, comp, idx) in self.guards:
                for n in g.nodes_for(gd):
                    decl_nodes.setdefault(n.id, []).append(gd['id'])

            def transfer(n, st):
                st = dict(st)
                for gid in decl_nodes.get(n.id, ()):
                    st[gid] = True
                    st[('epoch', gid)] = 0
                for (x, gid, locks) in tog.get(n.id, ()):
                    st[gid] = locks
                    if locks and st.get(('epoch', gid)) is not None:
                        st[('epoch', gid)] = st.get(('epoch', gid), 0) + 1      # a new hold begins
                return st

            def meet(ins):
                r = dict(ins[0])
                for s_ in ins[1:]:
                    for k in list(r):
                        if isinstance(k, tuple):
                            r[k] = r[k] if s_.get(k) == r[k] else None
                        else:
                            r[k] = r[k] and s_.get(k, False)
                    for k in s_:
                        r.setdefault(k, None if isinstance(k, tuple) else False)
                return r
            at, after = g.forward({}, transfer, meet)
            self._flow = (g, at, after, tog)
        g, at, after, tog = self._flow
        ns = g.nodes_for(node)
        if not ns:
            return {}
        out = None
        for n in ns:
            st = dict(at.get(n.id, {}))
            # within the node that toggles, the state after the call applies to what follows it
            if out is None:
                out = st
            else:
                out = {k: ((out.get(k) if out.get(k) == st.get(k) else None) if isinstance(k, tuple) else
                           (out.get(k, False) and st.get(k, False))) for k in set(out) | set(st)}
        return out or {}

    def same_epoch(self, a, b, guard):
        """Are a and b inside one continuous hold of `guard` (no unlock()/lock() of it in between)?"""
        if not self.toggles:
            return True
        fa, fb = self._held_flow(a), self._held_flow(b)
        ea, eb = fa.get(('epoch', guard['id'])), fb.get(('epoch', guard['id']))
        if not any(gid == guard['id'] for (_, gid, _) in self.toggles):
            return True
        return ea is not None and ea == eb

    def same_hold(self, a, b):
        """Guards whose region contains both a and b."""
        ga = {id(g): (mk, g) for (mk, g) in self.held_at(a)}
        gb = {id(g) for (mk, g) in self.held_at(b)}
        both = [v for k, v in ga.items() if k in gb]
        if self.toggles:
            # a guard that is unlocked and re-locked by hand: both points must lie in the same hold of it
            fa, fb = self._held_flow(a), self._held_flow(b)
            both = [(mk, g) for (mk, g) in both
                    if fa.get(('epoch', g['id'])) is not None and fa.get(('epoch', g['id'])) == fb.get(('epoch', g['id']))]
        return both


def static_mutex_keys(program):
    """Keys that denote a mutex object with static storage duration: namespace-scope
    mutex variables, and calls of functions that return a reference to one."""
    out = {}
    for u in program.units:
        for d in u.walk():
            if d.get('kind') == 'VarDecl' and re.search(r'\bmutex\b', dtype(d) or qtype(d)):
                st = d.get('storageClass') == 'static' or d.get('_p', {}).get('kind') in (
                    'NamespaceDecl', 'TranslationUnitDecl')
                if st:
                    out[d['id']] = d
    fnkeys = {}
    for (u, f) in program.functions():
        t = qtype(f)
        if re.match(r'^(std::)?mutex\s*&\s*\(', t):
            # every return must yield a static mutex (direct, or *static_pointer)
            rets = [x for x in walk(f) if x.get('kind') == 'ReturnStmt']
            good = bool(rets)
            for r in rets:
                x = peel(kids(r)[0]) if kids(r) else None
                if x is not None and x.get('kind') == 'UnaryOperator' and x.get('opcode') == '*':
                    x = peel(kids(x)[0])
                if x is None or x.get('kind') != 'DeclRefExpr':
                    good = False
                    break
                d = u.by_id.get((x.get('referencedDecl') or {}).get('id'))
                if d is None or not (d.get('storageClass') == 'static' or d.get('_p', {}).get('kind') in (
                        'NamespaceDecl',)):
                    good = False
                    break
            if good:
                fnkeys[(f.get('_qn') or f.get('name')) + '()'] = f
    return out, fnkeys


def _in_class_decl(f):
    """The declaration of a member function inside its class (the node itself when defined in class)."""
    u = f.get('_u')
    d = f
    seen = 0
    while d is not None and (d.get('_p') or {}).get('kind') not in ('CXXRecordDecl', 'ClassTemplateSpecializationDecl') and seen < 4:
        pid = d.get('previousDecl')
        d = u.by_id.get(pid) if (u is not None and pid) else None
        seen += 1
    return d


def _member_access(d):
    """'public' / 'protected' / 'private' of an in-class member declaration (by the access specifiers before it)."""
    rec = d.get('_p') or {}
    acc = 'private' if rec.get('tagUsed') == 'class' else 'public'
    for c in rec.get('inner') or ():
        if c is d:
            return acc
        if isinstance(c, dict) and c.get('kind') == 'AccessSpecDecl':
            acc = c.get('access') or acc
    return acc


def is_internal(f):
    """Callable only from inside the library's own code: a free function declared static or inside an unnamed
    namespace, a member of a class declared in an unnamed namespace, or a private member function (its callers
    are members and friends, all of which the whole-library call graph sees)."""
    k = f.get('kind')
    if k in ('CXXMethodDecl', 'CXXConstructorDecl'):
        if f.get('name') == 'operator()' and ((f.get('_p') or {}).get('_p') or {}).get('kind') == 'LambdaExpr':
            return False            # (lambdas are followed through the 'lambda' edges)
        d = _in_class_decl(f)
        if d is None:
            return False
        p = d.get('_p')
        while p is not None:
            if p.get('kind') == 'NamespaceDecl' and not p.get('name'):
                return True
            p = p.get('_p')
        return k == 'CXXMethodDecl' and _member_access(d) == 'private' and not d.get('virtual')
    if k != 'FunctionDecl':
        return False
    if f.get('storageClass') == 'static':
        return True
    p = f.get('_p')
    while p is not None:
        if p.get('kind') == 'NamespaceDecl' and not p.get('name'):
            return True
        p = p.get('_p')
    return False


def _address_taken(u, f):
    """Is the function named anywhere other than as the callee of a direct call?"""
    ids = set([f.get('id'), f.get('previousDecl')]) - {None}
    for d in u.walk():
        if d.get('kind') == 'FunctionDecl' and d.get('previousDecl') in ids:
            ids.add(d.get('id'))
    for x in u.walk():
        if x.get('kind') == 'DeclRefExpr' and (x.get('referencedDecl') or {}).get('id') in ids:
            p = x.get('_p')
            while p is not None and p.get('kind') in ('ImplicitCastExpr', 'ParenExpr'):
                p = p.get('_p')
            if p is None or p.get('kind') not in ('CallExpr',):
                return True
            c = callee(p)
            if not (c and c[0] == 'fn' and c[1].get('id') in ids):
                return True
    return False


def entry_held(G, is_static_mutex_key):
    """Static mutexes held on entry to each internal-linkage helper: the intersection, over all
    of its call sites, of the mutexes held at the site (RAII regions of the caller, plus what
    the caller itself is entered with).  Functions with external linkage, with no call site or
    whose address is taken are entered with nothing held."""
    TOP = None
    sites = {}
    for k, es in G.edges.items():
        for (kind, tgt, site) in es:
            if kind in ('direct', 'virtual', 'lambda') and tgt in G.defs:
                sites.setdefault(tgt, []).append((k, site))
    lrs = {}
    cand = set(k for k, (u, f) in G.defs.items() if is_internal(f) and sites.get(k) and not _address_taken(u, f))
    held = {k: (TOP if k in cand else frozenset()) for k in G.defs}
    # a member function of a class that owns a lock_guard member runs while the object (hence the hold) exists
    for k, (u, f) in G.defs.items():
        if f.get('kind') == 'CXXMethodDecl' and f.get('storageClass') != 'static':
            d = _in_class_decl(f)
            rec = (d or {}).get('_p') or {}
            w = wrapper_guard_records(u).get(rec.get('id'))
            if w is not None and is_static_mutex_key(w[0]):
                held[k] = frozenset([w[0]])
                cand.discard(k)

    def lr_of(k):
        if k not in lrs:
            u, f = G.defs[k]
            lrs[k] = LockRegions(u, f)
        return lrs[k]
    changed = True
    while changed:
        changed = False
        for k in cand:
            acc = TOP
            for (ck, site) in sites[k]:
                if held[ck] is TOP:
                    continue        # caller still unknown: optimistic
                here = frozenset(mk for (mk, g) in lr_of(ck).held_at(site) if is_static_mutex_key(mk)) | held[ck]
                acc = here if acc is TOP else (acc & here)
            if acc is not TOP and acc != held[k]:
                held[k] = acc
                changed = True
    return {k: (v if v is not None else frozenset()) for k, v in held.items()}
