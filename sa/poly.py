"""Tiny polynomial arithmetic over non-negative integer symbols (byte counts)."""


class Poly(object):
    def __init__(self, terms=None):
        self.t = {k: v for k, v in (terms or {}).items() if v != 0}

    @staticmethod
    def const(c):
        return Poly({(): c})

    @staticmethod
    def sym(name):
        return Poly({(name,): 1})

    def __add__(self, o):
        t = dict(self.t)
        for k, v in o.t.items():
            t[k] = t.get(k, 0) + v
        return Poly(t)

    def __sub__(self, o):
        t = dict(self.t)
        for k, v in o.t.items():
            t[k] = t.get(k, 0) - v
        return Poly(t)

    def __mul__(self, o):
        t = {}
        for k1, v1 in self.t.items():
            for k2, v2 in o.t.items():
                k = tuple(sorted(k1 + k2))
                t[k] = t.get(k, 0) + v1 * v2
        return Poly(t)

    def __eq__(self, o):
        return isinstance(o, Poly) and self.t == o.t

    def __hash__(self):
        return hash(tuple(sorted(self.t.items())))

    def nonneg(self):
        """Sufficient: every coefficient is >= 0 (all symbols denote counts >= 0)."""
        return all(v >= 0 for v in self.t.values())

    def is_zero(self):
        return not self.t

    def __repr__(self):
        if not self.t:
            return '0'
        parts = []
        for k, v in sorted(self.t.items()):
            m = '*'.join(k)
            parts.append(('%d' % v) if not m else (m if v == 1 else '%d*%s' % (v, m)))
        return ' + '.join(parts)


def poly_of(e, keys, symbols):
    """Polynomial of an integer expression whose leaves are constants or expressions
    whose canonical key is in `symbols` (key -> symbol name).  None if not polynomial."""
    from .expr import peel
    from .frontend import kids
    x = peel(e)
    if x is None:
        return None
    k = keys.key(x)
    if k.startswith('n:'):
        return Poly.const(int(k[2:]))
    if k in symbols:
        v = symbols[k]
        return v if isinstance(v, Poly) else Poly.sym(v)
    if x.get('kind') == 'BinaryOperator' and x.get('opcode') in ('+', '-', '*'):
        a = poly_of(kids(x)[0], keys, symbols)
        b = poly_of(kids(x)[1], keys, symbols)
        if a is None or b is None:
            return None
        return a + b if x['opcode'] == '+' else a - b if x['opcode'] == '-' else a * b
    return None


def poly_of_function(fn, keys, symbols):
    """Polynomial returned by a function whose body is straight-line code over integer locals
    (declarations with initialisers, =, +=, -=, *=, one return); None if it is anything else."""
    from .expr import peel
    from .frontend import kids, body_of
    env = dict(symbols)
    body = body_of(fn)
    if body is None:
        return None
    result = None
    for s in kids(body):
        k = s.get('kind')
        if result is not None:
            return None                     # code after the return
        if k == 'DeclStmt':
            for d in kids(s):
                if d.get('kind') != 'VarDecl':
                    return None
                ks = [c for c in kids(d) if not c.get('kind', '').endswith('Attr')]
                if not ks:
                    return None
                p = poly_of(ks[-1], keys, env)
                if p is None:
                    return None
                env['%s#%s' % (d.get('name'), d.get('id'))] = p
        elif k in ('CompoundAssignOperator', 'BinaryOperator') and s.get('opcode') in ('=', '+=', '-=', '*='):
            lhs, rhs = kids(s)
            lk = keys.key(lhs)
            p = poly_of(rhs, keys, env)
            if p is None or (s['opcode'] != '=' and not isinstance(env.get(lk), Poly)) or peel(lhs).get('kind') != 'DeclRefExpr':
                return None
            env[lk] = p if s['opcode'] == '=' else env[lk] + p if s['opcode'] == '+=' else \
                env[lk] - p if s['opcode'] == '-=' else env[lk] * p
        elif k == 'ReturnStmt':
            if not kids(s):
                return None
            result = poly_of(kids(s)[0], keys, env)
            if result is None:
                return None
        elif k == 'NullStmt':
            continue
        elif _no_effect(s):
            continue                        # assert(..) under NDEBUG, (void)0, a discarded side-effect-free expression
        else:
            return None
    return result


def _no_effect(s):
    from .frontend import walk
    for x in walk(s):
        k = x.get('kind')
        if k in ('CallExpr', 'CXXMemberCallExpr', 'CXXOperatorCallExpr', 'CXXConstructExpr', 'CompoundAssignOperator', 'CXXNewExpr',
                 'CXXDeleteExpr', 'LambdaExpr', 'DeclStmt', 'ReturnStmt', 'IfStmt', 'ForStmt', 'WhileStmt', 'DoStmt', 'SwitchStmt',
                 'CXXThrowExpr', 'BreakStmt', 'ContinueStmt', 'GotoStmt'):
            return False
        if k == 'UnaryOperator' and x.get('opcode') in ('++', '--'):
            return False
        if k == 'BinaryOperator' and (x.get('opcode') == '=' or (x.get('opcode', '').endswith('=') and
                                                                  x.get('opcode') not in ('==', '!=', '<=', '>='))):
            return False
    return True
