#!/usr/bin/env python3
"""setup: verify the tools the checks need are present (nothing to build)."""
import shutil, subprocess, sys
ok = True
for tool in ('clang++',):
    if not shutil.which(tool):
        print('missing', tool); ok = False
if ok:
    v = subprocess.run(['clang++', '--version'], capture_output=True, text=True).stdout.splitlines()[0]
    print('setup ok:', v)
sys.exit(0 if ok else 1)
