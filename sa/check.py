#!/usr/bin/env python3
"""Driver: python3 sa/check.py <ID> [--tier quick|thorough] | --replay <file>

exit 0  every rule instance holds (known findings printed as KNOWN-FINDING)
exit 1  a rule instance is violated: VIOLATION property=<ID> replay=<path>
exit 2  analysis broken (anchor vanished, unit unparsable, vacuous rule)"""
import argparse
import importlib
import json
import os
import sys
import time
import traceback

sys.path.insert(0, os.path.dirname(os.path.dirname(os.path.abspath(__file__))))

from sa.frontend import Program, AnalysisBroken, VERIF, cleanup  # noqa: E402
from sa.callgraph import CallGraph  # noqa: E402
from sa import core  # noqa: E402

CONFIGS_QUICK = [('gnu++17', ())]
CONFIGS_THOROUGH = [('gnu++17', ()), ('gnu++11', ()), ('gnu++17', ('HAS_STRPTIME=0',))]


def run_property(prop, tier, only=None):
    mod = importlib.import_module('sa.rules.' + prop.lower())
    configs = CONFIGS_THOROUGH if tier == 'thorough' else CONFIGS_QUICK
    configs = getattr(mod, 'CONFIGS_' + tier.upper(), configs)
    ctxs = []
    for (std, defs) in configs:
        tag = '%s-%s-%s' % (prop, std.replace('+', 'p'), '_'.join(defs).replace('=', '') or 'base')
        P = Program(tag=tag, std=std, defs=defs)
        ctx = core.Ctx(prop, tier, P, CallGraph(P), config=std + (' ' + ' '.join('-D' + d for d in defs) if defs else ''))
        try:
            mod.run(ctx)
            ctx.verify_minimums()
        except AnalysisBroken as e:
            ctx.broken = str(e)      # reported as exit 2 unless a violation was found anyway
        ctxs.append(ctx)
    # cross-configuration agreement: same verdict per (rule, construct)
    if len(ctxs) > 1:
        base = {(o['rule'], o['instance']): o['status'] for o in ctxs[0].obligations}
        for c in ctxs[1:]:
            allow = getattr(mod, 'CONFIG_DEPENDENT_RULES', ())
            other = {(o['rule'], o['instance']): o['status'] for o in c.obligations}
            for k in set(base) | set(other):
                if k[0] in allow:
                    continue
                if base.get(k) != other.get(k):
                    c.note('configuration difference %s: %s vs %s' % (k, base.get(k), other.get(k)))
    return mod, ctxs


def main():
    ap = argparse.ArgumentParser()
    ap.add_argument('prop', nargs='?')
    ap.add_argument('--tier', default=os.environ.get('VERIF_TIER', 'quick'))
    ap.add_argument('--replay')
    ap.add_argument('--keep', action='store_true')
    a = ap.parse_args()
    seed = int(os.environ.get('VERIF_SEED', '0') or 0)
    t0 = time.time()
    only = None
    if a.replay:
        rp = json.load(open(a.replay))
        a.prop = rp['property']
        only = (rp['rule'], rp['construct'])
    prop = a.prop.upper()
    tier = 'thorough' if a.tier == 'thorough' else 'quick'
    try:
        mod, ctxs = run_property(prop, tier)
    except AnalysisBroken as e:
        print('ANALYSIS-BROKEN property=%s: %s' % (prop, e))
        return 2
    except Exception:
        traceback.print_exc()
        print('ANALYSIS-BROKEN property=%s: internal error' % prop)
        return 2
    known = core.load_known()
    viol, known_hits = [], []
    seen = set()
    for c in ctxs:
        for o in c.obligations:
            if o['status'] != 'violated':
                continue
            key = (o['rule'], o.get('construct'))
            if key in seen:
                continue
            seen.add(key)
            if only and key != only:
                continue
            k = core.match_known(o, prop, known)
            if k:
                known_hits.append((o, k))
            else:
                viol.append((o, c))
    os.makedirs(os.path.join(core.EVID, 'replay'), exist_ok=True)
    for (o, k) in known_hits:
        print('KNOWN-FINDING: property=%s %s [%s] %s: %s' % (prop, k.get('id', ''), o['rule'], o['where'], k.get('text', o['detail'])))
    for i, (o, c) in enumerate(viol):
        print('%s: rule %s: instance %s: %s' % (o['where'], o['rule'], o['instance'], o['detail']))
        for st in o.get('path') or []:
            print('    via %s at %s' % (st.get('function'), st.get('site')))
        rp = os.path.join(core.EVID, 'replay', '%s-%d.json' % (prop, i))
        with open(rp, 'w') as f:
            json.dump(dict(property=prop, rule=o['rule'], construct=o.get('construct'), instance=o['instance'],
                           where=o['where'], why=o['detail'], path=o.get('path'), config=c.config), f, indent=1)
        print('VIOLATION property=%s replay=%s' % (prop, rp))
    if not a.replay:
        n = sum(len(c.obligations) for c in ctxs)
        d = sum(1 for c in ctxs for o in c.obligations if o['status'] == 'ok')
        core.write_evidence(prop, tier, seed, ctxs, time.time() - t0, len(viol),
                            [dict(id=k.get('id'), rule=o['rule'], construct=o.get('construct'), where=o['where'])
                             for (o, k) in known_hits],
                            getattr(mod, 'EXPLANATION', ''), getattr(mod, 'TECHNIQUE', ''),
                            extra=dict(stats={c.config: c.stats for c in ctxs}))
        print('%s %s: %d rule instances, %d hold, %d known finding(s), %d violation(s) [%.1fs]' % (
            prop, tier, n, d, len(known_hits), len(viol), time.time() - t0))
    if viol:
        return 1
    broken = [getattr(c, 'broken', None) for c in ctxs if getattr(c, 'broken', None)]
    if broken:
        print('ANALYSIS-BROKEN property=%s: %s' % (prop, broken[0]))
        return 2
    return 0


if __name__ == '__main__':
    sys.exit(main())
