#!/usr/bin/env python3
"""Driver: python3 sa/check.py <ID> [--tier quick|thorough] | --replay <file>

exit 0  every rule instance holds (known findings printed as KNOWN-FINDING)
exit 1  a rule instance is violated: VIOLATION property=<ID> replay=<path>
exit 2  analysis broken (anchor vanished, unit unparsable, vacuous rule)"""
import argparse
import importlib
import json
import os
import sys
import time
import traceback

sys.path.insert(0, os.path.dirname(os.path.dirname(os.path.abspath(__file__))))

from sa.frontend import Program, AnalysisBroken, VERIF, cleanup  # noqa: E402
from sa.callgraph import CallGraph  # noqa: E402
from sa import core  # noqa: E402

CONFIGS_QUICK = [('gnu++17', ())]
CONFIGS_THOROUGH = [('gnu++17', ()), ('gnu++11', ())]   # -DHAS_STRPTIME=0 does not compile against glibc (ambiguous strptime)


# which properties each group of refactorings (by the area of code it rewrites) is swept against
PRESERVING = {
    'RF1': ('C13', 'C14', 'C15', 'C19', 'C20'),             # impl / lookup: loader, cache, UTC singleton
    'RF2': ('C01', 'C11', 'C12', 'C14', 'C19'),             # Load, Header, Decode*, GetTransitionType, EquivTransitions
    'RF3': ('C01', 'C02', 'C06', 'C10', 'C11', 'C12', 'C14'),   # ExtendTransitions, BreakTime, MakeTime, TimeLocal, Next/PrevTransition
    'RF4': ('C12', 'C15', 'C16', 'C20'),                    # posix and fixed-offset parsers
    'RF5': ('C08', 'C18'),                                  # format()
    'RF6': ('C04', 'C09', 'C12', 'C16', 'C17'),             # parse() and civil_time_detail.h
    # second set (structural: helper extraction, std algorithms, iterators, two-phase splits)
    'RG1': ('C13', 'C14', 'C15', 'C19', 'C20'),
    'RG2': ('C01', 'C02', 'C11', 'C12', 'C14', 'C19'),
    'RG3': ('C01', 'C02', 'C06', 'C10', 'C11', 'C12', 'C14'),
    'RG4': ('C12', 'C15', 'C16', 'C20'),
    'RG5': ('C08', 'C18'),
    'RG6': ('C04', 'C06', 'C09', 'C12', 'C16', 'C17', 'C18'),
    # third set (modernisation: std::array, auto, named constants, lambdas for snippets, operand swaps, switch <-> table)
    'RH1': ('C13', 'C14', 'C15', 'C19', 'C20'),
    'RH2': ('C01', 'C02', 'C10', 'C11', 'C12', 'C14', 'C19'),
    'RH3': ('C01', 'C02', 'C06', 'C10', 'C11', 'C12', 'C14'),
    'RH4': ('C12', 'C15', 'C16', 'C20'),
    'RH5': ('C08', 'C18'),
    'RH6': ('C04', 'C06', 'C09', 'C12', 'C16', 'C17', 'C18'),
    # fourth set (algorithmic shape: lambdas, single exit, index arithmetic, std::min/max/abs, counted scans, out-parameter helpers)
    'RI1': ('C13', 'C14', 'C15', 'C19', 'C20'),
    'RI2': ('C01', 'C02', 'C10', 'C11', 'C12', 'C14', 'C19'),
    'RI3': ('C01', 'C02', 'C06', 'C10', 'C11', 'C12', 'C14'),
    'RI4': ('C12', 'C15', 'C16', 'C20'),
    'RI5': ('C08', 'C18'),
    'RI6': ('C04', 'C06', 'C09', 'C12', 'C16', 'C17', 'C18'),
    # fifth set (moving code between functions: private members, RAII wrapper of the lock, value-returning helpers, std::tie,
    # front/back, distance/prev, carried loop variables, guards moved into bool helpers)
    'RJ1': ('C13', 'C14', 'C15', 'C19', 'C20'),
    'RJ2': ('C01', 'C02', 'C10', 'C11', 'C12', 'C14', 'C19'),
    'RJ3': ('C01', 'C02', 'C06', 'C10', 'C11', 'C12', 'C14'),
    'RJ4': ('C12', 'C15', 'C16', 'C20'),
    'RJ5': ('C08', 'C18'),
    'RJ6': ('C04', 'C06', 'C09', 'C12', 'C16', 'C17', 'C18'),
    # sixth set ("a contributor's clean-up": RAII holder for getenv values, LoadOrUTC, lazily created sink, table-driven header,
    # emplace_back + back(), brace-initialised results, range predicates for digits, loops over tables of field maxima)
    'RK1': ('C13', 'C14', 'C15', 'C19', 'C20'),
    'RK2': ('C01', 'C02', 'C10', 'C11', 'C12', 'C14', 'C19'),
    'RK3': ('C01', 'C02', 'C06', 'C10', 'C11', 'C12', 'C14'),
    'RK4': ('C01', 'C09', 'C12', 'C15', 'C16', 'C20'),
    'RK5': ('C08', 'C18'),
    'RK6': ('C04', 'C06', 'C09', 'C12', 'C16', 'C17', 'C18'),
    # seventh set (performance tidy-ups with snapshot locals, defensive passes, data-representation changes inside one unit,
    # control-flow restatements: peeled iterations, do-while, flag variables and single exits)
    'RL1': ('C13', 'C14', 'C15', 'C19', 'C20'),
    'RL2': ('C01', 'C02', 'C10', 'C11', 'C12', 'C14', 'C19'),
    'RL3': ('C01', 'C02', 'C06', 'C10', 'C11', 'C12', 'C14'),
    'RL4': ('C01', 'C09', 'C12', 'C15', 'C16', 'C20'),
    'RL5': ('C08', 'C18'),
    'RL6': ('C04', 'C06', 'C09', 'C12', 'C16', 'C17', 'C18'),
    # a last probe of 12 (DESIGN 8.17); RM1b, on which C13/C14/C20 still report a false violation, is kept apart in
    # preserving_open/ and is not part of the expected-silent set
    'RM1': ('C13', 'C14', 'C15', 'C19', 'C20'),
    'RM3': ('C01', 'C02', 'C06', 'C10', 'C11', 'C12', 'C14'),
    'RM4': ('C01', 'C09', 'C12', 'C15', 'C16', 'C20'),
}
# refactorings on which a rule is allowed to end without a verdict (exit 2, "not recognised"): the form is outside what the
# engine follows; it must still never report a violation there
NO_VERDICT_OK = {('RG4c', 'C15'), ('RI4c', 'C15'), ('RI2b', 'C12'), ('RI3a', 'C02'), ('RI3a', 'C06'), ('RI3a', 'C10'), ('RI3a', 'C14'),
                 ('RJ1a', 'C13'), ('RJ1a', 'C14'), ('RJ2a', 'C12'), ('RJ2b', 'C12'), ('RJ4c', 'C15'), ('RJ5a', 'C08'),
                 ('RK2a', 'C12'), ('RK2b', 'C12'), ('RK2b', 'C01'), ('RK3c', 'C02'), ('RK3c', 'C06'), ('RK3c', 'C10'), ('RK4d', 'C15'),
                 ('RL1c', 'C19'), ('RL2c', 'C12'), ('RL2d', 'C02'), ('RL2d', 'C12'), ('RL2d', 'C14'), ('RL3c', 'C01'), ('RL3d', 'C02'),
                 ('RL3d', 'C06'), ('RL3d', 'C10'), ('RL3d', 'C11'), ('RL4a', 'C15'), ('RL4d', 'C12'), ('RL4d', 'C15'), ('RL4d', 'C16'),
                 ('RM4a', 'C16'), ('RM4c', 'C15'), ('RM4d', 'C15')}


def run_property(prop, tier, only=None):
    mod = importlib.import_module('sa.rules.' + prop.lower())
    configs = CONFIGS_THOROUGH if tier == 'thorough' else CONFIGS_QUICK
    configs = getattr(mod, 'CONFIGS_' + tier.upper(), configs)
    ctxs = []
    for (std, defs) in configs:
        tag = '%s-%s-%s' % (prop, std.replace('+', 'p'), '_'.join(defs).replace('=', '') or 'base')
        P = Program(tag=tag, std=std, defs=defs)
        ctx = core.Ctx(prop, tier, P, CallGraph(P), config=std + (' ' + ' '.join('-D' + d for d in defs) if defs else ''))
        try:
            mod.run(ctx)
            ctx.verify_minimums()
        except AnalysisBroken as e:
            ctx.broken = str(e)      # reported as exit 2 unless a violation was found anyway
        ctxs.append(ctx)
    # cross-configuration agreement: same verdict per (rule, construct)
    if len(ctxs) > 1:
        base = {(o['rule'], o['instance']): o['status'] for o in ctxs[0].obligations}
        for c in ctxs[1:]:
            allow = getattr(mod, 'CONFIG_DEPENDENT_RULES', ())
            other = {(o['rule'], o['instance']): o['status'] for o in c.obligations}
            for k in set(base) | set(other):
                if k[0] in allow:
                    continue
                if base.get(k) != other.get(k):
                    c.note('configuration difference %s: %s vs %s' % (k, base.get(k), other.get(k)))
    return mod, ctxs


def variant_sweep(prop):
    """Thorough tier: every hand-made variant and every kept seeded change for this property is
    applied to a scratch copy of /repo's current working tree (outside /repo and /verif); the
    quick check must report a violation on the breaking ones and stay silent on the
    behaviour-preserving ones.  A mismatch means the checker is broken (exit 2), not cctz."""
    import glob
    import re
    import shutil
    import subprocess
    import tempfile
    from concurrent.futures import ThreadPoolExecutor
    from sa.frontend import REPO
    from sa import variants as VV
    jobs = []
    for (p_, name, expect, file_, pat, repl) in VV.V:
        if p_ == prop:
            jobs.append(('variant:' + name, expect, ('regex', file_, pat, repl)))
    import json as _json
    for d in sorted(glob.glob(os.path.join(VERIF, 'seeded', '*'))):
        mp = os.path.join(d, 'meta.json')
        if not (os.path.exists(os.path.join(d, 'patch.diff')) and os.path.exists(mp)):
            continue
        det = (_json.load(open(mp)).get('detected_by') or {})
        rules = list(det.get('rules') or ()) + list(det.get('also') or ())
        # a kept change is swept against every property one of whose rules is recorded as reporting it
        if any(r.startswith(prop + '-') for r in rules):
            jobs.append(('seeded:' + os.path.basename(d), 'violation', ('patch', os.path.join(d, 'patch.diff'))))
    # behaviour-preserving refactorings (written by independent agents): the check must stay silent
    for d in sorted(glob.glob(os.path.join(VERIF, 'preserving', '*'))):
        grp = os.path.basename(d)[:3]
        if prop in PRESERVING.get(grp, ()) and os.path.exists(os.path.join(d, 'patch.diff')):
            exp = 'no-violation' if (os.path.basename(d), prop) in NO_VERDICT_OK else 'silent'
            jobs.append(('preserving:' + os.path.basename(d), exp, ('patch', os.path.join(d, 'patch.diff'))))

    def one(job):
        name, expect, how = job
        scratch = tempfile.mkdtemp(prefix='verif-scratch-')
        try:
            for sub in ('include', 'src', 'CMakeLists.txt'):
                src = os.path.join(REPO, sub)
                dst = os.path.join(scratch, 'repo', sub)
                if os.path.isdir(src):
                    shutil.copytree(src, dst)
                else:
                    os.makedirs(os.path.dirname(dst), exist_ok=True)
                    shutil.copy(src, dst)
            root = os.path.join(scratch, 'repo')
            if how[0] == 'regex':
                fp = os.path.join(root, how[1])
                txt = open(fp).read()
                if len(re.findall(how[2], txt)) != 1:
                    return (name, expect, 'skipped', 'pattern does not match the current tree exactly once')
                open(fp, 'w').write(re.sub(how[2], lambda m: how[3], txt, count=1))
                cc = subprocess.run(['clang++', '-std=gnu++17', '-fsyntax-only', '-I' + os.path.join(root, 'include'),
                                     '-I' + os.path.join(root, 'src'), '-x', 'c++', fp], capture_output=True, text=True)
                if cc.returncode != 0:
                    return (name, expect, 'skipped', 'variant does not compile on the current tree')
            else:
                pr = subprocess.run(['patch', '-p1', '-s', '-d', root, '-i', how[1]], capture_output=True, text=True)
                if pr.returncode != 0:
                    return (name, expect, 'skipped', 'patch does not apply to the current tree')
            env = dict(os.environ, VERIF_REPO=root, VERIF_WORK=os.path.join(scratch, 'work'))
            r = subprocess.run([sys.executable, os.path.abspath(__file__), prop, '--tier', 'quick', '--scratch'],
                               capture_output=True, text=True, env=env, cwd=VERIF)
            got = 'violation' if r.returncode == 1 else 'silent' if r.returncode == 0 else 'broken'
            if got == 'broken':
                got = 'no-verdict'
            rules = sorted(set(l.split('rule ')[1].split(':')[0] for l in r.stdout.splitlines() if ': rule ' in l))
            return (name, expect, got, ','.join(rules))
        finally:
            shutil.rmtree(scratch, ignore_errors=True)
    with ThreadPoolExecutor(max_workers=8) as ex:
        return list(ex.map(one, jobs))


def main():
    ap = argparse.ArgumentParser()
    ap.add_argument('prop', nargs='?')
    ap.add_argument('--tier', default=os.environ.get('VERIF_TIER', 'quick'))
    ap.add_argument('--replay')
    ap.add_argument('--keep', action='store_true')
    ap.add_argument('--scratch', action='store_true', help='run against VERIF_REPO without writing evidence')
    a = ap.parse_args()
    seed = int(os.environ.get('VERIF_SEED', '0') or 0)
    t0 = time.time()
    only = None
    if a.replay:
        rp = json.load(open(a.replay))
        a.prop = rp['property']
        only = (rp['rule'], rp['construct'])
    prop = a.prop.upper()
    tier = 'thorough' if a.tier == 'thorough' else 'quick'
    try:
        mod, ctxs = run_property(prop, tier)
    except AnalysisBroken as e:
        print('ANALYSIS-BROKEN property=%s: %s' % (prop, e))
        return 2
    except Exception:
        traceback.print_exc()
        print('ANALYSIS-BROKEN property=%s: internal error' % prop)
        return 2
    known = core.load_known()
    viol, known_hits = [], []
    seen = set()
    for c in ctxs:
        for o in c.obligations:
            if o['status'] != 'violated':
                continue
            key = (o['rule'], o.get('construct'))
            if key in seen:
                continue
            seen.add(key)
            if only and key != only:
                continue
            k = core.match_known(o, prop, known)
            if k:
                known_hits.append((o, k))
            else:
                viol.append((o, c))
    if not a.scratch:
        os.makedirs(os.path.join(core.EVID, 'replay'), exist_ok=True)
    for (o, k) in known_hits:
        print('KNOWN-FINDING: property=%s %s [%s] %s: %s' % (prop, k.get('id', ''), o['rule'], o['where'], k.get('text', o['detail'])))
    for i, (o, c) in enumerate(viol):
        print('%s: rule %s: instance %s: %s' % (o['where'], o['rule'], o['instance'], o['detail']))
        for st in o.get('path') or []:
            print('    via %s at %s' % (st.get('function'), st.get('site')))
        rp = os.path.join(core.EVID, 'replay', '%s-%d.json' % (prop, i))
        if a.scratch:
            print('VIOLATION property=%s replay=(scratch run)' % prop)
            continue
        with open(rp, 'w') as f:
            json.dump(dict(property=prop, rule=o['rule'], construct=o.get('construct'), instance=o['instance'],
                           where=o['where'], why=o['detail'], path=o.get('path'), config=c.config), f, indent=1)
        print('VIOLATION property=%s replay=%s' % (prop, rp))
    sweep = []
    sweep_bad = []
    if tier == 'thorough' and not a.replay and not a.scratch and not viol:
        sweep = variant_sweep(prop)
        for (name, expect, got, info) in sweep:
            if got in ('skipped',):
                continue
            if got != expect and not (expect == 'no-violation' and got in ('silent', 'no-verdict')):
                sweep_bad.append((name, expect, got, info))
            print('variant %-45s expect=%-9s got=%-9s %s' % (name, expect, got, info))
    if not a.replay and not a.scratch:
        n = sum(len(c.obligations) for c in ctxs)
        d = sum(1 for c in ctxs for o in c.obligations if o['status'] == 'ok')
        core.write_evidence(prop, tier, seed, ctxs, time.time() - t0, len(viol),
                            [dict(id=k.get('id'), rule=o['rule'], construct=o.get('construct'), where=o['where'])
                             for (o, k) in known_hits],
                            getattr(mod, 'EXPLANATION', ''), getattr(mod, 'TECHNIQUE', ''),
                            extra=dict(stats={c.config: c.stats for c in ctxs},
                                       variant_sweep=[dict(name=n_, expect=e_, got=g_, rules=i_) for (n_, e_, g_, i_) in sweep]))
        print('%s %s: %d rule instances, %d hold, %d known finding(s), %d violation(s) [%.1fs]' % (
            prop, tier, n, d, len(known_hits), len(viol), time.time() - t0))
    if viol:
        return 1
    if sweep_bad:
        print('ANALYSIS-BROKEN property=%s: the rules did not behave as required on %d variant(s): %s' % (
            prop, len(sweep_bad), '; '.join('%s expected %s got %s' % (n_, e_, g_) for (n_, e_, g_, i_) in sweep_bad)))
        return 2
    unrec = [o for c in ctxs for o in c.obligations if o['status'] == 'unrecognised']
    if unrec:
        for o in unrec[:6]:
            print('%s: rule %s: instance %s: NOT RECOGNISED: %s' % (o['where'], o['rule'], o['instance'], o['detail']))
        print('ANALYSIS-BROKEN property=%s: %d rule instance(s) could not be decided on this form of the code (no verdict)' % (prop, len(unrec)))
        return 2
    broken = [getattr(c, 'broken', None) for c in ctxs if getattr(c, 'broken', None)]
    if broken:
        print('ANALYSIS-BROKEN property=%s: %s' % (prop, broken[0]))
        return 2
    return 0


if __name__ == '__main__':
    sys.exit(main())
