"""SYMVAL engine: guarded symbolic values of scalar / pointer locals, by forward dataflow.

Domain.  A term is a normal form
    ('int', None, lin) | ('ptr', base, lin) | ('elem', base, lin) | ('key', None, text)
with lin a linear form {symbol: coeff, '': const} over program quantities (keys of
untracked expressions) and analysis symbols:
    U...   seeds (e.g. the result of a search call),
    L<n>   the value a variable written inside a loop has at the loop head (init and per-iteration
           step are recorded in .loops).
A value is a tuple of alternatives (guard, term); guard = frozenset of CFG branch edges
(cond node id, label) under which the alternative is the value.  Values are merged at joins
(alternatives of the predecessors, each guarded by the branch edges its predecessor has in
addition to the others), never enumerated per path.

The engine answers: what does expression e denote at CFG node n, in terms of the table it
points into -- independent of how many locals, helpers or statements the source uses to say it."""
import re
from .frontend import kids, walk, qtype, dtype, ancestors, body_of
from .expr import peel, callee, call_args
from .ptrnorm import ladd, lconst
from .facts import canon, NEG

MAXALT = 8


def lin_str(lin):
    syms = sorted(k for k in lin if k != '')
    out = []
    for s_ in syms:
        c = lin[s_]
        out.append(('%+d*%s' % (c, s_)) if c not in (1, -1) else ('+%s' % s_ if c == 1 else '-%s' % s_))
    c = lin.get('', 0)
    if c or not out:
        out.append('%+d' % c)
    r = ''.join(out)
    return r[1:] if r.startswith('+') else r


def render(t):
    if t is None:
        return '?'
    k, base, x = t
    if k == 'key':
        return x
    if k == 'int':
        return 'int:' + lin_str(x)
    if k == 'ptr':
        return 'ptr:%s+%s' % (base, lin_str(x))
    return '%s[%s]' % (base, lin_str(x))


def single(sv):
    return sv[0][1] if sv is not None and len(sv) == 1 else None


def mk(term, guard=frozenset()):
    return ((guard, term),)


class SymVal(object):
    def __init__(self, ctx, fn, seed_calls=None, helpers=True):
        self.ctx = ctx
        self.fn = fn
        self.u = fn['_u']
        self.F = ctx.facts(fn)
        self.cfg = ctx.cfg(fn)
        self.keys = self.F.keys
        self.seed_calls = seed_calls or []
        self.helpers = helpers
        self.loops = {}            # L symbol -> dict(var, node, init, step)
        self.phis = {}             # P symbol -> alternatives (guard, term) merged at a join
        self.at = {}               # node id -> state on entry
        self.after = {}
        self.addr_taken = self._addr_taken()
        self._run()

    # ------------------------------------------------------------------ state
    # state: dict(vals={var id: sv}, conds=frozenset((nid, label)))
    def _addr_taken(self):
        out = set()
        for x in walk(self.fn):
            if x.get('kind') == 'UnaryOperator' and x.get('opcode') == '&':
                t = peel(kids(x)[0])
                if t.get('kind') == 'DeclRefExpr' and (t.get('referencedDecl') or {}).get('kind') == 'VarDecl':
                    p = x.get('_p')
                    while p is not None and p.get('kind') in ('ImplicitCastExpr', 'ParenExpr'):
                        p = p.get('_p')
                    if p is not None and p.get('kind') in ('CallExpr', 'CXXMemberCallExpr', 'CXXConstructExpr'):
                        out.add((t.get('referencedDecl') or {}).get('id'))
        return out

    def _tracked(self, d):
        if d is None or d.get('kind') not in ('VarDecl', 'ParmVarDecl') or d.get('storageClass') == 'static':
            return False
        if d.get('id') in self.addr_taken:
            return False
        t = (qtype(d) or '').rstrip()
        dt = (dtype(d) or t).rstrip()
        if t.endswith('&') and not t.endswith('&&'):
            return d.get('kind') == 'VarDecl'
        return bool(dt.endswith('*') or dt.endswith('* const') or dt.endswith('*const') or
                    re.match(r'^(const )?(unsigned |signed )?(bool|char|short|int|long|long long)( const)?$', dt))

    def _run(self):
        g = self.cfg
        order = g.rpo()
        idx = {n.id: i for i, n in enumerate(order)}
        out = {}
        loop_written = {}
        for n in order:
            if n.kind == 'loop' and n.ast is not None:
                ws = set()
                for x in walk(n.ast):
                    if x.get('kind') in ('UnaryOperator', 'BinaryOperator', 'CompoundAssignOperator') and (
                            x.get('opcode') in ('++', '--', '=') or (x.get('opcode', '').endswith('=') and
                                                                    x.get('opcode') not in ('==', '!=', '<=', '>='))):
                        t = peel(kids(x)[0])
                        if t.get('kind') == 'DeclRefExpr':
                            ws.add((t.get('referencedDecl') or {}).get('id'))
                    if x.get('kind') == 'VarDecl':
                        ws.add(x.get('id'))
                loop_written[n.id] = ws
        for n in order:
            if n is g.entry:
                st = dict(vals={}, conds=frozenset())
            else:
                ins = []
                for (p, lab) in n.preds:
                    if p.id in out and idx.get(p.id, 1 << 30) < idx[n.id]:      # forward edges only
                        s = out[p.id]
                        if p.kind in ('cond',) and lab in ('T', 'F'):
                            s = dict(vals=self._refine(s['vals'], p, lab), conds=s['conds'] | {(p.id, lab)})
                        ins.append(s)
                if not ins:
                    continue
                st = self._join(ins)
                if n.kind == 'loop':
                    st = dict(vals=dict(st['vals']), conds=st['conds'])
                    for vid in loop_written.get(n.id, ()):
                        cur = st['vals'].get(vid)
                        sym = 'L%d_%s' % (n.id, vid)
                        t0 = single(cur)
                        if t0 is not None and t0[0] in ('ptr', 'int'):
                            st['vals'][vid] = mk((t0[0], t0[1], {sym: 1}))
                        elif cur is not None:
                            st['vals'][vid] = mk(('key', None, sym))
                        else:
                            continue
                        self.loops[sym] = dict(var=vid, node=n, init=cur, step=None)
            self.at[n.id] = st
            st2 = self._transfer(n, st)
            out[n.id] = st2
            self.after[n.id] = st2
        # per-iteration steps from the back edges
        for sym, info in self.loops.items():
            n = info['node']
            steps = set()
            for (p, lab) in n.preds:
                if p.id in out and idx.get(p.id, -1) >= idx[n.id]:
                    t = single(out[p.id]['vals'].get(info['var']))
                    if t is not None and t[0] in ('ptr', 'int') and t[2].get(sym) == 1:
                        steps.add(tuple(sorted(ladd(t[2], {sym: 1}, -1).items())))
                    else:
                        steps.add(None)
            info['step'] = dict(list(steps)[0]) if len(steps) == 1 and None not in steps else None

    def _refine(self, vals, cond, lab):
        """On an edge that tests a tracked pointer local against null, alternatives the test rules out are dropped."""
        x = peel(cond.ast) if cond.ast is not None else None
        if x is None:
            return vals
        var, isnull = None, None
        if x.get('kind') == 'BinaryOperator' and x.get('opcode') in ('==', '!='):
            a, b = [peel(c) for c in kids(x)]
            for (p_, q_) in ((a, b), (b, a)):
                if p_.get('kind') == 'DeclRefExpr' and q_.get('kind') in ('CXXNullPtrLiteralExpr', 'GNUNullExpr'):
                    var = (p_.get('referencedDecl') or {}).get('id')
                    isnull = (x['opcode'] == '==') == (lab == 'T')
        elif x.get('kind') == 'DeclRefExpr' and (dtype(x) or '').rstrip().endswith('*'):
            var = (x.get('referencedDecl') or {}).get('id')
            isnull = (lab == 'F')
        if var is None or var not in vals or len(vals[var]) < 2:
            return vals
        keep = tuple((g_, t) for (g_, t) in vals[var] if (t == ('key', None, 'null')) == isnull)
        if not keep or len(keep) == len(vals[var]):
            return vals
        vals = dict(vals)
        r = self._phi(list(keep), var)
        if r is None:
            vals.pop(var)
        else:
            vals[var] = r
        return vals

    def _join(self, ins):
        if len(ins) == 1:
            return ins[0]
        common = ins[0]['conds']
        for s in ins[1:]:
            common = common & s['conds']
        vals = {}
        allv = set()
        for s in ins:
            allv |= set(s['vals'])
        for v in allv:
            svs = [s['vals'].get(v) for s in ins]
            if any(x is None for x in svs):
                continue
            if all(x == svs[0] for x in svs[1:]):
                vals[v] = svs[0]
                continue
            alts = []
            for s, sv in zip(ins, svs):
                extra = s['conds'] - common
                for (gd, t) in sv:
                    a = (frozenset(gd | extra), t)
                    if a not in alts:
                        alts.append(a)
            r = self._phi(alts, v)
            if r is not None:
                vals[v] = r
        return dict(vals=vals, conds=common)

    def _phi(self, alts, hint=''):
        """Value standing for several guarded alternatives: pointer / integer alternatives over one base
        become one term over a fresh symbol P.. (alternatives kept in .phis), so that they can still be
        compared and offset; anything else stays a list of alternatives."""
        alts = list(alts)
        terms = set(render(t) for (_, t) in alts)
        if len(terms) == 1:
            return mk(alts[0][1])
        if len(alts) > MAXALT:
            return None
        kinds = set((t[0], t[1]) for (_, t) in alts)
        if len(kinds) == 1 and alts[0][1][0] in ('ptr', 'int'):
            self._nphi = getattr(self, '_nphi', 0) + 1
            sym = 'P%d_%s' % (self._nphi, hint)
            self.phis[sym] = tuple(alts)
            return mk((alts[0][1][0], alts[0][1][1], {sym: 1}))
        return tuple(alts)

    # ------------------------------------------------------------------ transfer
    def _transfer(self, n, st):
        if n.ast is None or n.kind not in ('stmt', 'cond', 'switch'):
            return st
        st = dict(vals=dict(st['vals']), conds=st['conds'])
        a = n.ast
        if a.get('kind') == 'VarDecl':
            self._decl(a, st)
        elif a.get('kind') == 'DeclStmt':
            for d in kids(a):
                if d.get('kind') == 'VarDecl':
                    self._decl(d, st)
        else:
            self.ev(a, st)
        return st

    def _decl(self, d, st):
        ks = [c for c in kids(d) if not c.get('kind', '').endswith('Attr')]
        if 'init' not in d or not ks:
            st['vals'].pop(d['id'], None)
            return
        sv = self.ev(ks[-1], st)
        if not self._tracked(d):
            # a write-once local of any type stands for its initialiser (alternatives kept)
            if d.get('id') in self.F.never_written and sv is not None and d.get('id') not in self.addr_taken and \
                    d.get('storageClass') != 'static' and (
                        len(sv) > 1 or (sv[0][1][0] == 'key' and re.match(r'^\w+#0x[0-9a-f]+$', sv[0][1][2]))):
                st['vals'][d['id']] = sv       # a copy of, or a choice between, other locals
            return
        t = (qtype(d) or '').rstrip()
        if t.endswith('&') and not t.endswith('&&'):
            if sv is not None and all(tt[0] in ('elem', 'key') for (_, tt) in sv):
                st['vals'][d['id']] = sv
            return
        if sv is None:
            st['vals'][d['id']] = mk(('key', None, '%s#%s' % (d.get('name'), d['id'])))
        else:
            st['vals'][d['id']] = sv

    # ------------------------------------------------------------------ expressions
    def ev(self, e, st):
        """Value of e (alternatives) in state st; side effects on tracked locals are applied to st."""
        x = peel(e)
        if x is None:
            return None
        for (c, term) in self.seed_calls:
            if x is c:
                for a in call_args(x):
                    self.ev(a, st)
                return mk(term)
        k = x.get('kind')
        v = self.keys.folder.fold(x)
        if v is not None and k not in ('CXXNullPtrLiteralExpr', 'GNUNullExpr') and not (dtype(x) or '').endswith('*'):
            return mk(('int', None, lconst(v)))
        if k in ('CXXConstructExpr', 'CXXTemporaryObjectExpr', 'MaterializeTemporaryExpr', 'CXXBindTemporaryExpr',
                 'ExprWithCleanups', 'CXXFunctionalCastExpr', 'CXXStaticCastExpr'):
            ks_ = [a for a in kids(x) if a.get('kind') != 'CXXDefaultArgExpr']
            if len(ks_) == 1:
                return self.ev(ks_[0], st)
        m = getattr(self, '_e_' + str(k), None)
        if m is not None:
            return m(x, st)
        # default: evaluate children for their effects, value is the expression's key
        for c in kids(x):
            if c.get('kind') != 'LambdaExpr':
                self.ev(c, st)
        return mk(('key', None, self._key(x, st)))

    def _key(self, x, st):
        """Canonical key with pointer locals rendered through their current single value."""
        saved = getattr(self.keys, 'ptrenv', None)
        env = dict(saved or {})
        for vid, sv in st['vals'].items():
            t = single(sv)
            if t is not None and t[0] == 'ptr' and not any(s_.startswith('L') or s_.startswith('U') for s_ in t[2] if s_):
                env[vid] = t
        self.keys.ptrenv = env
        try:
            return self.keys.key(x)
        finally:
            self.keys.ptrenv = saved

    def _e_DeclRefExpr(self, x, st):
        rd = x.get('referencedDecl') or {}
        i = rd.get('id')
        if i in st['vals']:
            return st['vals'][i]
        d = self.u.by_id.get(i)
        if d is not None and d.get('kind') in ('VarDecl', 'ParmVarDecl') and self._tracked(d):
            t = (dtype(d) or qtype(d) or '').rstrip()
            if not (t.endswith('*') or t.endswith('* const') or t.endswith('&')):
                return mk(('int', None, {self.keys.key(x): 1}))
            if d.get('kind') == 'ParmVarDecl' and (t.endswith('*') or t.endswith('* const')):
                return mk(('ptr', 'param:%s#%s' % (d.get('name'), d.get('id')), {}))      # what the caller passed
        return mk(('key', None, self.keys.key(x)))

    def _combine(self, sa, sb, f):
        if sa is None or sb is None:
            return None
        out = []
        for (ga, ta) in sa:
            for (gb, tb) in sb:
                t = f(ta, tb)
                if t is None:
                    return None
                out.append((frozenset(ga | gb), t))
        return tuple(out) if len(out) <= MAXALT else None

    def _map(self, sa, f):
        if sa is None:
            return None
        out = []
        for (g_, t) in sa:
            r = f(t)
            if r is None:
                return None
            out.append((g_, r))
        return tuple(out)

    @staticmethod
    def _as_int(t):
        if t[0] == 'int':
            return t
        if t[0] == 'key':
            return ('int', None, {t[2]: 1})
        return None

    def _e_UnaryOperator(self, x, st):
        op = x.get('opcode')
        sub = kids(x)[0]
        if op in ('++', '--'):
            t = peel(sub)
            cur = self.ev(sub, st)
            i = (t.get('referencedDecl') or {}).get('id') if t.get('kind') == 'DeclRefExpr' else None
            d = 1 if op == '++' else -1
            new = self._map(cur, lambda tt: (tt[0], tt[1], ladd(tt[2], lconst(1), d)) if tt[0] in ('ptr', 'int') else
                            ((self._as_int(tt)[0], None, ladd(self._as_int(tt)[2], lconst(1), d)) if tt[0] == 'key' and
                             not (dtype(t) or '').rstrip().endswith('*') else None))
            if i is not None and i in st['vals'] or (i is not None and self._tracked(self.u.by_id.get(i))):
                if new is not None:
                    st['vals'][i] = new
                else:
                    st['vals'].pop(i, None)
            return cur if x.get('isPostfix') else new
        sv = self.ev(sub, st)
        if op == '&':
            return self._map(sv, lambda t: ('ptr', t[1], t[2]) if t[0] == 'elem' else ('key', None, '&(%s)' % render(t)))
        if op == '*':
            return self._map(sv, lambda t: ('elem', t[1], t[2]) if t[0] == 'ptr' else ('key', None, '*(%s)' % render(t)))
        if op == '-':
            return self._map(sv, lambda t: ('int', None, ladd({}, self._as_int(t)[2], -1)) if self._as_int(t) else None)
        if op == '!':
            return self._map(sv, lambda t: ('key', None, '!(%s)' % render(t)))
        return self._map(sv, lambda t: ('key', None, '%s(%s)' % (op, render(t))))

    def _e_BinaryOperator(self, x, st):
        op = x.get('opcode')
        a, b = kids(x)
        if op == '=':
            sb = self.ev(b, st)
            t = peel(a)
            if t.get('kind') == 'DeclRefExpr':
                i = (t.get('referencedDecl') or {}).get('id')
                if self._tracked(self.u.by_id.get(i)):
                    if sb is not None:
                        st['vals'][i] = sb
                    else:
                        st['vals'].pop(i, None)
                return sb
            self.ev(a, st)
            return sb
        if op == ',':
            self.ev(a, st)
            return self.ev(b, st)
        sa = self.ev(a, st)
        sb = self.ev(b, st)
        if op in ('+', '-'):
            sg = 1 if op == '+' else -1

            def f(ta, tb):
                if ta[0] == 'ptr' and self._as_int(tb):
                    return ('ptr', ta[1], ladd(ta[2], self._as_int(tb)[2], sg))
                if tb[0] == 'ptr' and self._as_int(ta) and sg == 1:
                    return ('ptr', tb[1], ladd(tb[2], self._as_int(ta)[2]))
                if ta[0] == 'ptr' and tb[0] == 'ptr' and sg == -1 and ta[1] == tb[1]:
                    return ('int', None, ladd(ta[2], tb[2], -1))
                ia, ib = self._as_int(ta), self._as_int(tb)
                if ia and ib and not (dtype(x) or '').rstrip().endswith('*'):
                    return ('int', None, ladd(ia[2], ib[2], sg))
                return ('key', None, '(%s %s %s)' % (render(ta), op, render(tb)))
            return self._combine(sa, sb, f)
        return self._combine(sa, sb, lambda ta, tb: ('key', None, '(%s %s %s)' % (render(ta), op, render(tb))))

    def _e_CompoundAssignOperator(self, x, st):
        op = x.get('opcode')
        a, b = kids(x)
        sb = self.ev(b, st)
        t = peel(a)
        cur = self.ev(a, st)
        i = (t.get('referencedDecl') or {}).get('id') if t.get('kind') == 'DeclRefExpr' else None
        new = None
        if op in ('+=', '-='):
            sg = 1 if op == '+=' else -1
            new = self._combine(cur, sb, lambda ta, tb: (ta[0], ta[1], ladd(ta[2], self._as_int(tb)[2], sg))
                                if ta[0] in ('ptr', 'int') and self._as_int(tb) else None)
        if i is not None and self._tracked(self.u.by_id.get(i)):
            if new is not None:
                st['vals'][i] = new
            else:
                st['vals'][i] = mk(('key', None, 'W%s_%s' % (x.get('id'), i)))
        return new

    def _e_ArraySubscriptExpr(self, x, st):
        a, b = kids(x)
        sa = self.ev(a, st)
        sb = self.ev(b, st)

        def f(ta, tb):
            ib = self._as_int(tb)
            if ta[0] == 'ptr' and ib:
                return ('elem', ta[1], ladd(ta[2], ib[2]))
            if ib:
                return ('elem', render(ta), ib[2])
            return None
        return self._combine(sa, sb, f)

    def _e_CXXOperatorCallExpr(self, x, st):
        c = callee(x)
        args = call_args(x)
        nm = c[1].get('name') if c and c[0] == 'fn' else None
        if nm == 'operator[]' and len(args) == 2:
            base = self.keys.key(args[0])
            sb = self.ev(args[1], st)
            return self._map(sb, lambda tb: ('elem', base, self._as_int(tb)[2]) if self._as_int(tb) else None)
        if nm == 'operator*' and len(args) == 1:
            sv = self.ev(args[0], st)
            return self._map(sv, lambda t: ('elem', t[1], t[2]) if t[0] == 'ptr' else ('key', None, '*(%s)' % render(t)))
        svs = [self.ev(a, st) for a in args]
        if nm in ('operator-', 'operator+') and len(args) == 2 and all(single(s) for s in svs):
            ta, tb = single(svs[0]), single(svs[1])
            ia = self._as_int(ta) if ta[0] != 'ptr' else None
            ib = self._as_int(tb) if tb[0] != 'ptr' else None
            if ia and ib and not (ta[0] == 'key' and tb[0] == 'key' and ta[2].startswith('s:')):
                # a count of units: difference / sum of two counts is linear in them
                return mk(('int', None, ladd(ia[2], ib[2], 1 if nm == 'operator+' else -1)))
        if nm and nm.startswith('operator') and len(args) == 2 and all(single(s) for s in svs):
            return mk(('key', None, '(%s %s %s)' % (render(single(svs[0])), nm[8:], render(single(svs[1])))))
        return mk(('key', None, self._key(x, st)))

    def _e_CXXMemberCallExpr(self, x, st):
        c = callee(x)
        args = call_args(x)
        if c and c[0] == 'method' and c[2] is not None and not args and c[1] in ('front', 'back') and \
                re.search(r'\b(vector|array|deque|basic_string)<', (dtype(c[2]) or '') + (qtype(c[2]) or '')):
            # the first / last element of a container, named as the element it is
            base = self.keys.key(c[2])
            return mk(('elem', base, {} if c[1] == 'front' else {'%s.size()' % base: 1, '': -1}))
        if c and c[0] == 'method' and c[2] is not None and not args and c[1] == 'data' and \
                re.search(r'\b(vector|array|basic_string)<', (dtype(c[2]) or '') + (qtype(c[2]) or '')):
            # the address of the first element of a contiguous container
            return mk(('ptr', self.keys.key(c[2]), {}))
        for a in args:
            self.ev(a, st)
        if c and c[0] == 'method' and c[2] is not None:
            self.ev(c[2], st)
        return mk(('key', None, self._key(x, st)))

    def _e_MemberExpr(self, x, st):
        ks = kids(x)
        if not ks:
            return mk(('key', None, self.keys.key(x)))
        sv = self.ev(ks[0], st)
        name = x.get('name')
        if x.get('isArrow'):
            return self._map(sv, lambda t: ('key', None, '%s.%s' % (render(('elem', t[1], t[2])), name)) if t[0] == 'ptr'
                             else ('key', None, '%s.%s' % (render(t), name)))
        return self._map(sv, lambda t: ('key', None, '%s.%s' % (render(t), name)))

    def _e_ConditionalOperator(self, x, st):
        c, a, b = kids(x)
        self.ev(c, st)
        sa = self.ev(a, dict(vals=dict(st['vals']), conds=st['conds']))
        sb = self.ev(b, dict(vals=dict(st['vals']), conds=st['conds']))
        if sa is None or sb is None:
            return None
        out = []
        for arm, sv in ((a, sa), (b, sb)):
            ns = self.cfg.ast_nodes.get(id(arm)) or self.cfg.ast_nodes.get(id(peel(arm))) or []
            extra = None
            for n_ in ns:
                s_ = self.at.get(n_.id)
                if s_ is not None:
                    extra = s_['conds'] - st['conds']
            if extra is None:
                return None
            for (g_, t) in sv:
                out.append((frozenset(g_ | extra), t))
        return self._phi(out, 'c%s' % x.get('id'))

    def _e_CallExpr(self, x, st):
        c = callee(x)
        args = call_args(x)
        svs = [self.ev(a, st) for a in args]
        if self.helpers and c and c[0] == 'fn' and c[1].get('_qn'):
            r = self._helper(c[1], args, svs, st)
            if r is not None:
                return r
        if c and c[0] == 'fn' and c[1].get('_qn') and args and all(single(s_) is not None for s_ in svs):
            from .frontend import qn as _qn
            return mk(('key', None, '%s(%s)' % (c[1].get('_qn') or c[1].get('name'), ','.join(render(single(s_)) for s_ in svs))))
        return mk(('key', None, self._key(x, st)))

    # -- internal helpers returning one of their pointer arguments, moved by a constant under a test
    def _helper(self, d, args, svs, st):
        from .lock import is_internal
        G = self.ctx.G
        ks = G.resolve_decl(d)
        if len(ks) != 1:
            return None
        u2, f2 = G.defs[ks[0]]
        if not is_internal(f2) or f2 is self.fn or body_of(f2) is None:
            return None
        from .frontend import params_of
        ps = params_of(f2)
        if len(ps) != len(args) or any(single(s) is None for s in svs):
            return None
        if len([x for x in walk(f2)]) > 400:
            return None
        key = ('helper', id(f2))
        sub = getattr(self, '_subs', {}).get(key)
        if sub is None:
            sub = SymVal(self.ctx, f2, seed_calls=self.seed_calls, helpers=False)
            self._subs = getattr(self, '_subs', {})
            self._subs[key] = sub
        # rename: the helper's parameters stand for the argument terms
        g2 = sub.cfg
        alts = []
        for rn in g2.returns:
            if not kids(rn.ast):
                return None
            st2 = sub.at.get(rn.id)
            if st2 is None:
                continue
            st2 = dict(vals=dict(st2['vals']), conds=st2['conds'])
            sv = sub.expand(sub.ev(kids(rn.ast)[0], st2))
            if sv is None:
                return None
            for (gd, t) in sv:
                t2 = self._subst_params(t, ps, svs, sub)
                if t2 is None:
                    return None
                guard = frozenset(('H', id(sub), nid, lab) for (nid, lab) in (gd | st2['conds']))
                alts.append((guard, t2))
                self._helper_ctx = getattr(self, '_helper_ctx', {})
                self._helper_ctx[id(sub)] = (sub, ps, svs)
        if not alts:
            return None
        return self._phi(alts, 'h%s' % d.get('id'))

    def _subst_params(self, t, ps, svs, sub):
        """Rewrite a helper's term over its parameters into the caller's terms."""
        pk = {}
        for p, sv in zip(ps, svs):
            pk['%s#%s' % (p.get('name'), p.get('id'))] = single(sv)
        if t[0] in ('int', 'ptr', 'elem'):
            lin = {}
            base = t[1]
            if base is not None and base.startswith('param:'):
                a = pk.get(base[6:])
                if a is None or a[0] != 'ptr':
                    return None
                base = a[1]
                lin = dict(a[2])
            for s_, c in t[2].items():
                if s_ in pk:
                    a = pk[s_]
                    ia = self._as_int(a) if a[0] != 'ptr' else None
                    if ia is None:
                        return None
                    lin = ladd(lin, {k_: v * c for k_, v in ia[2].items()})
                else:
                    lin = ladd(lin, {s_: c})
            return (t[0], base, lin)
        if t[0] == 'key':
            if t[2] in pk:
                return pk[t[2]]
            txt = t[2]
            for k_, a in pk.items():
                if a is None:
                    continue
                if a[0] == 'ptr':
                    # elements of the parameter:  param:K[lin]  ->  base[arg.lin + lin]
                    def rep(m, a=a):
                        inner = m.group(1)
                        if not a[2]:
                            return '%s[%s]' % (a[1], inner)
                        return '%s[%s+%s]' % (a[1], lin_str(a[2]), inner)
                    txt = re.sub(r'param:%s\[([^\]]*)\]' % re.escape(k_), rep, txt)
                    txt = txt.replace('ptr:param:%s+' % k_, 'ptr:%s+%s+' % (a[1], lin_str(a[2])) if a[2] else 'ptr:%s+' % a[1])
                txt = txt.replace(k_, render(a))
            return ('key', None, txt)
        return t

    def expand(self, sv):
        """Alternatives with merged-offset symbols (P..) of this analysis written out again."""
        if sv is None:
            return None
        out = []
        for (gd, t) in sv:
            syms = [k_ for k_ in (t[2] if t[0] in ('ptr', 'int', 'elem') else {}) if k_ in self.phis]
            if len(syms) == 1 and t[2][syms[0]] == 1:
                rest = {k_: v for k_, v in t[2].items() if k_ != syms[0]}
                for (g2, t2) in self.expand(self.phis[syms[0]]) or ():
                    if t2[0] not in ('ptr', 'int') or (t[0] == 'ptr' and t2[1] != t[1]):
                        return None
                    out.append((frozenset(gd | g2), (t[0], t[1], ladd(t2[2], rest))))
            elif syms:
                return None
            else:
                out.append((gd, t))
        return tuple(out) if len(out) <= MAXALT else None

    # ------------------------------------------------------------------ queries
    def value(self, node, e):
        st = self.at.get(node.id)
        if st is None:
            return None
        return self.ev(e, dict(vals=dict(st['vals']), conds=st['conds']))

    def value_ast(self, e):
        ns = self.cfg.nodes_for(e)
        if not ns:
            return None
        return self.value(ns[0], e)

    def conds_at(self, node):
        st = self.at.get(node.id)
        return st['conds'] if st else frozenset()

    def edge_fact(self, edge):
        """The test an edge stands for, in terms: (op, rendered lhs, rendered rhs) or
        ('lin', op, lin) meaning  lin op 0  when both sides are linear over one base."""
        if edge and edge[0] == 'H':
            sub, ps, svs = self._helper_ctx[edge[1]]
            f = sub.edge_fact((edge[2], edge[3]))
            if f is None:
                return None
            if f[0] == 'lin':
                t = self._subst_params(('int', None, f[2]), ps, svs, sub)
                return ('lin', f[1], t[2]) if t else None
            a = self._subst_params(('key', None, f[1]), ps, svs, sub)
            b = self._subst_params(('key', None, f[2]), ps, svs, sub)
            return canon(f[0], render(a), render(b))
        nid, lab = edge
        n = [m for m in self.cfg.live if m.id == nid]
        if not n:
            return None
        n = n[0]
        st = self.at.get(nid)
        if st is None or n.ast is None:
            return None
        truth = (lab == 'T')
        x = peel(n.ast)
        st = dict(vals=dict(st['vals']), conds=st['conds'])
        op = None
        if x.get('kind') == 'BinaryOperator' and x.get('opcode') in ('<', '<=', '>', '>=', '==', '!='):
            op = x['opcode']
            a, b = kids(x)
        elif x.get('kind') == 'CXXOperatorCallExpr' and callee(x) and callee(x)[0] == 'fn' and \
                callee(x)[1].get('name') in ('operator<', 'operator<=', 'operator>', 'operator>=', 'operator==', 'operator!='):
            op = callee(x)[1]['name'][8:]
            a, b = call_args(x)
        if op is None:
            if x.get('kind') == 'VarDecl':
                return None
            t = single(self.ev(x, st))
            if t is None:
                return None
            isptr = (dtype(x) or '').rstrip().endswith('*')
            return canon('!=' if truth else '==', render(t), 'null' if isptr else 'n:0')
        if not truth:
            op = NEG[op]
        ta, tb = single(self.ev(a, st)), single(self.ev(b, st))
        if ta is None or tb is None:
            return None
        if ta[0] == tb[0] and ta[0] in ('ptr', 'int') and ta[1] == tb[1]:
            lin = ladd(ta[2], tb[2], -1)
            return ('lin', op, lin)
        ia, ib = (self._as_int(ta) if ta[0] != 'ptr' else None), (self._as_int(tb) if tb[0] != 'ptr' else None)
        if ia and ib and ta[0] == 'int' and tb[0] == 'int':
            return ('lin', op, ladd(ia[2], ib[2], -1))
        if ia and ib and ((ta[0] == 'int' and [k_ for k_ in ta[2] if k_] and tb[0] == 'key') or
                          (tb[0] == 'int' and [k_ for k_ in tb[2] if k_] and ta[0] == 'key')):
            # an index carried as a linear form compared with a named quantity (i < size)
            return ('lin', op, ladd(ia[2], ib[2], -1))
        ra = 'n:%d' % ta[2].get('', 0) if ta[0] == 'int' and not [k for k in ta[2] if k] else render(ta)
        rb = 'n:%d' % tb[2].get('', 0) if tb[0] == 'int' and not [k for k in tb[2] if k] else render(tb)
        return canon(op, ra, rb)

    def facts(self, guard):
        out = []
        for e in guard:
            f = self.edge_fact(e)
            if f is not None:
                out.append(f)
        return out


def lin_cmp(fact, op, lin):
    """Does the ('lin', op', lin') fact state  lin op 0 ?  (sign-normalised comparison)"""
    if not fact or fact[0] != 'lin':
        return False
    _, o2, l2 = fact
    if l2 == lin and o2 == op:
        return True
    neg = ladd({}, lin, -1)
    flip = {'<': '>', '>': '<', '<=': '>=', '>=': '<=', '==': '==', '!=': '!='}
    return l2 == neg and o2 == flip[op]


def seeded_search(ctx, f, names=('upper_bound', 'lower_bound')):
    """(SymVal of f with the result of its table search as symbol U, base container key, the search call, the
    function that contains the call) -- the search may sit in a file-local helper f was split into.
    None when there is not exactly one such call in scope."""
    found = []
    from .frontend import owner_fn
    for (uu, ff) in ctx.scope(f):
        for x in walk(ff):
            if x.get('kind') == 'CallExpr' and callee(x) and callee(x)[0] == 'fn' and callee(x)[1].get('name') in names \
                    and owner_fn(x) is ff:           # (a lambda's body belongs to the lambda)
                found.append((ff, x))
    if len(found) != 1:
        return None
    hf, call = found[0]
    sv0 = SymVal(ctx, hf, helpers=(hf is f))
    a0 = single(sv0.value_ast(call_args(call)[0]) or ())
    if a0 is None or a0[0] != 'ptr':
        return None
    hbase = a0[1]
    sv = SymVal(ctx, f, seed_calls=[(call, ('ptr', hbase, {'U': 1}))])
    base = hbase
    if hf is not f:
        # the base as the caller sees it: what it passes for the helper's parameter
        base = None
        for n in sv.cfg.live:
            if n.ast is None:
                continue
            for x in walk(n.ast):
                if x.get('kind') == 'CallExpr' and callee(x) and callee(x)[0] == 'fn' and callee(x)[1].get('_qn') and \
                        any(ctx.G.defs.get(t, (None, None))[1] is hf for t in ctx.G.resolve_decl(callee(x)[1])):
                    v = sv.expand(sv.value(n, x))
                    for (_, t) in (v or ()):
                        if t[0] == 'ptr':
                            base = t[1]
        if base is None:
            return None
    return sv, base, call, hf
