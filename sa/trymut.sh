#!/bin/bash
# usage: trymut.sh <PROP> <file> <python-regex-from> <to>   (applies to /repo, runs the check, restores)
set -u
PROP=$1; FILE=$2; FROM=$3; TO=$4
cd /repo || exit 9
python3 - "$FILE" "$FROM" "$TO" <<'PY'
import re,sys
p,f,t=sys.argv[1:4]
s=open(p).read()
n=len(re.findall(f,s))
if n!=1: print('PATTERN MATCHES',n); sys.exit(3)
open(p,'w').write(re.sub(f,lambda m:t,s,count=1))
PY
rc=$?
if [ $rc -ne 0 ]; then git checkout -- .; exit $rc; fi
clang++ -std=gnu++17 -fsyntax-only -Iinclude -Isrc "$FILE" 2>&1 | head -5
(cd /verif && python3 sa/check.py $PROP 2>&1 | grep -v "^    via" | cut -c1-260 | tail -${TAILN:-4})
git checkout -- .
