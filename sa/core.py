"""Rule context, obligations, findings, evidence."""
import json
import os
import time

from .frontend import Program, AnalysisBroken, pos, qn, VERIF, REPO
from .callgraph import CallGraph
from .cfg import CFG
from .facts import FactEngine

EVID = os.path.join(VERIF, 'evidence')
KNOWN = os.path.join(VERIF, 'known_findings.json')


class Ctx(object):
    def __init__(self, prop, tier, program, graph=None, config='gnu++17'):
        self.prop = prop
        self.tier = tier
        self.P = program
        self.G = graph or CallGraph(program)
        self.config = config
        self._cfg = {}
        self._facts = {}
        self._hsum = {}
        self._pbind = {}
        self.obligations = []     # dicts
        self.minimums = {}        # rule -> frozen minimum instance count
        self.notes = []
        self.assumptions = []
        self.stats = {}

    # -- caches
    def cfg(self, fn):
        k = id(fn)
        if k not in self._cfg:
            self._cfg[k] = CFG(fn)
        return self._cfg[k]

    def facts(self, fn):
        k = id(fn)
        if k not in self._facts:
            self._facts[k] = FactEngine(self.cfg(fn), fn['_u'], helper_summaries=self._helper_summary,
                                        param_bindings=self._param_bindings(fn))
        return self._facts[k]

    def scope(self, fn, depth=3):
        """fn and the internal-linkage helpers it calls (transitively): the code a maintainer may have
        split the function into.  [(unit, decl)] with fn first."""
        from .lock import is_internal
        from .callgraph import fkey
        out = [(fn['_u'], fn)]
        seen = {id(fn)}
        frontier = [fn]
        for _ in range(depth):
            nxt = []
            for f in frontier:
                for (kind, t, site) in self.G.edges.get(fkey(f), ()):
                    if kind in ('direct', 'lambda') and t in self.G.defs:
                        u2, f2 = self.G.defs[t]
                        if id(f2) not in seen and (is_internal(f2) or kind == 'lambda'):
                            seen.add(id(f2))
                            out.append((u2, f2))
                            nxt.append(f2)
            frontier = nxt
        return out

    def _param_bindings(self, fn):
        """{parameter id: key} for an internal-linkage helper all of whose call sites pass the same value
        (by identification key in the caller) for that parameter."""
        from .lock import is_internal
        from .callgraph import fkey
        from .frontend import params_of
        from .expr import call_args
        k = id(fn)
        if k in self._pbind:
            return self._pbind[k]
        self._pbind[k] = {}
        # a lambda's body names the enclosing function's locals: a captured const local denotes what the enclosing
        # function knows it to denote
        lam = None
        p_ = fn.get('_p')
        while p_ is not None and p_.get('kind') not in ('FunctionDecl', 'CXXMethodDecl', 'CXXConstructorDecl', 'LambdaExpr'):
            p_ = p_.get('_p')
        if p_ is not None and p_.get('kind') == 'LambdaExpr' and fn.get('name') == 'operator()':
            lam = p_
        if lam is not None:
            from .frontend import owner_fn, walk as _walk, qtype as _qt
            from .expr import top_level_const
            enc = owner_fn(lam)
            out = {}
            if enc is not None:
                FE = self.facts(enc)
                for y in _walk(fn):
                    if y.get('kind') == 'DeclRefExpr' and (y.get('referencedDecl') or {}).get('kind') == 'VarDecl':
                        i = (y.get('referencedDecl') or {}).get('id')
                        d = fn['_u'].by_id.get(i)
                        if d is None or i in out or owner_fn(d) is not enc:
                            continue
                        if top_level_const(_qt(d)) and i in getattr(FE, '_ident', {}):
                            out[i] = FE._ident[i]
            self._pbind[k] = out
            return out
        if not is_internal(fn):
            return {}
        me = fkey(fn)
        sites = []
        for ck, es in self.G.edges.items():
            for (kind, t, site) in es:
                if kind == 'direct' and t == me and ck in self.G.defs and ck != me:
                    sites.append((self.G.defs[ck][1], site))
        ps = params_of(fn)
        out = {}
        if sites:
            for i, p in enumerate(ps):
                keys = set()
                for (cf, site) in sites:
                    args = call_args(site)
                    if i >= len(args):
                        keys.add(None)
                        continue
                    keys.add(self.facts(cf).ident_key(args[i]))
                if len(keys) == 1 and None not in keys:
                    kk = list(keys)[0]
                    if '?' not in kk:
                        out[p['id']] = kk
        self._pbind[k] = out
        return out

    def _helper_summary(self, decl):
        """(parameter keys, return cases) of a small internal-linkage predicate, for FactEngine."""
        from .lock import is_internal
        from .frontend import params_of, walk, dtype, qtype
        ks = self.G.resolve_decl(decl)
        if len(ks) != 1:
            return None
        if ks[0] in self._hsum:
            return self._hsum[ks[0]]
        u, f = self.G.defs[ks[0]]
        r = None
        self._hsum[ks[0]] = None          # (recursion guard)
        rt = qtype(f).split('(')[0].strip()
        if is_internal(f) and (rt == 'bool' or rt.endswith('*')) and len(list(walk(f))) < 300:
            F = self.facts(f)
            g = self.cfg(f)
            cases = []
            for rn in g.returns:
                cases += F.return_cases(rn)
            ps = ['%s#%s' % (p.get('name'), p.get('id')) for p in params_of(f)]
            r = (ps, cases)
        self._hsum[ks[0]] = r
        return r

    def fn(self, qualified, param_substr=None):
        """(unit, decl) of the single definition of a function (anchor)."""
        k = self.G.one(qualified, param_substr)
        return self.G.defs[k]

    # -- obligations
    def ok(self, rule, instance, where=None, detail=''):
        self.obligations.append(dict(rule=rule, instance=instance, where=_w(where), status='ok',
                                     detail=detail))

    def bad(self, rule, instance, where, why, construct=None, path=None):
        self.obligations.append(dict(rule=rule, instance=instance, where=_w(where), status='violated',
                                     detail=why, construct=construct or instance, path=path or []))

    def unknown(self, rule, instance, where, why, construct=None):
        """The rule could not recognise the construct it has to judge (its engine returned no value): neither
        holds nor violated.  The run ends as analysis-broken (exit 2) unless a real violation is found."""
        self.obligations.append(dict(rule=rule, instance=instance, where=_w(where), status='unrecognised',
                                     detail=why, construct=construct or instance))

    def check3(self, cond, rule, instance, where, why, construct=None, detail='', path=None, unknown_why=None):
        """Three-valued check: cond None = not decidable by the engine on this form of the code."""
        if cond is None:
            self.unknown(rule, instance, where, unknown_why or ('not decidable on this form of the code: ' + why), construct)
            return None
        return self.check(cond, rule, instance, where, why, construct, detail, path)

    def check(self, cond, rule, instance, where, why, construct=None, detail='', path=None):
        if cond:
            self.ok(rule, instance, where, detail)
        else:
            self.bad(rule, instance, where, why, construct, path)
        return bool(cond)

    def minimum(self, rule, n):
        self.minimums[rule] = n

    def count(self, rule):
        return sum(1 for o in self.obligations if o['rule'] == rule)

    def note(self, s):
        self.notes.append(s)

    def assume(self, s):
        if s not in self.assumptions:
            self.assumptions.append(s)

    def verify_minimums(self):
        for rule, n in self.minimums.items():
            c = self.count(rule)
            if c < n:
                raise AnalysisBroken(
                    'rule %s matched %d instance(s); %d were confirmed by hand on the pinned tree: '
                    'the rule has lost its anchors (vacuous pass refused)' % (rule, c, n))


def _w(where):
    if where is None:
        return ''
    if isinstance(where, str):
        return where
    return pos(where)


# ----------------------------------------------------------------------------
# known findings


def load_known():
    if not os.path.exists(KNOWN):
        return []
    return json.load(open(KNOWN)).get('findings', [])


def match_known(ob, prop, known):
    for k in known:
        if k.get('status') != 'known':
            continue          # 'fixed' entries suppress nothing
        if k.get('property') == prop and k.get('rule') == ob['rule'] and \
                k.get('construct') == ob.get('construct'):
            return k
    return None


# ----------------------------------------------------------------------------
# evidence


def write_evidence(prop, tier, seed, ctxs, wall, violations, known_hits, explanation, technique,
                   extra=None):
    os.makedirs(EVID, exist_ok=True)
    obs = []
    for c in ctxs:
        for o in c.obligations:
            o2 = dict(o)
            o2['config'] = c.config
            obs.append(o2)
    n = len(obs)
    d = sum(1 for o in obs if o['status'] == 'ok')
    per_rule = {}
    for o in obs:
        r = per_rule.setdefault(o['rule'], dict(instances=0, hold=0))
        r['instances'] += 1
        r['hold'] += o['status'] == 'ok'
    distinct = len(set((o['rule'], o['instance']) for o in obs))
    samples = []
    seen_rules = set()
    for o in obs:
        if o['rule'] not in seen_rules or o['status'] != 'ok':
            seen_rules.add(o['rule'])
            samples.append({k: o[k] for k in ('rule', 'instance', 'where', 'status', 'detail', 'config')})
    c0 = ctxs[0] if ctxs else None
    cov = dict(
        explanation=explanation,
        technique=technique,
        obligations=n,
        discharged=d,
        known_findings=known_hits,
        evaluations=n,
        distinct_nontrivial=distinct,
        rule='one obligation per rule instance found in the resolved AST (call site, table entry, '
             'loop, writer, path); distinct = distinct (rule, instance) pairs',
        per_rule=per_rule,
        units_parsed=[u.name for u in c0.P.units] if c0 else [],
        configurations=[c.config for c in ctxs],
        functions_in_call_graph=len(c0.G.defs) if c0 else 0,
        samples=samples[:60],
        exhaustive=True,
        checker_cmd='python3 sa/check.py %s --tier %s' % (prop, tier),
        trusted_base=['clang 14 front end (JSON AST dump)', 'sa/*.py analysis library'],
    )
    if extra:
        cov.update(extra)
    ev = dict(property_id=prop, tier=tier, seed=seed, level='other', coverage=cov,
              assumptions=sorted(set(a for c in ctxs for a in c.assumptions)),
              wall_s=round(wall, 3), violations=violations,
              notes=[x for c in ctxs for x in c.notes][:40])
    p = os.path.join(EVID, '%s.json' % prop)
    with open(p, 'w') as f:
        json.dump(ev, f, indent=1, default=str)
    return p
