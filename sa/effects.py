"""EFFECT / STATE engines: what a function touches.

static_vars(program)   every variable with static storage duration declared in /repo
refs(fn)               references to them inside one function, classified read/write
extern_calls / types   library and OS entry points a function names"""
import re
from .frontend import kids, walk, qtype, dtype, qn, in_repo, pos, ancestors, FUNC_KINDS
from .expr import callee, call_args, peel, written_lvalues, Folder
from .callgraph import _walk_no_lambda


def is_static_storage(d):
    if d.get('kind') != 'VarDecl':
        return False
    pk = (d.get('_p') or {}).get('kind')
    if pk in ('NamespaceDecl', 'TranslationUnitDecl', 'LinkageSpecDecl'):
        return True
    if d.get('storageClass') == 'static':
        return True
    if pk in ('CXXRecordDecl', 'ClassTemplateSpecializationDecl'):
        return True       # static data member
    if d.get('tls'):
        return True
    return False


def static_vars(program):
    """{(qualified name, position): decl} over all units (de-duplicated)."""
    out = {}
    for u in program.units:
        for d in u.walk():
            if d.get('kind') == 'VarDecl' and program.inside(d) and is_static_storage(d):
                if _in_pattern(d):
                    continue
                out.setdefault((qn(d), d.get('_pos')), d)
    return out


def _in_pattern(d):
    for a in ancestors(d):
        if a.get('kind') == 'FunctionTemplateDecl':
            return False
    return False


def classify_static(d, folder=None):
    """immutable | init-once | atomic | mutex | mutable  (by type and initialiser)."""
    t = dtype(d) or qtype(d)
    tq = qtype(d)
    if re.search(r'\batomic<', t):
        return 'atomic'
    if re.search(r'\b(mutex|once_flag)\b', t) and not t.rstrip().endswith('*'):
        return 'mutex'
    const_obj = _is_const_object(tq) or _is_const_object(t) or d.get('constexpr')
    if const_obj:
        return 'immutable'
    return 'mutable'


def _is_const_object(t):
    """True for 'const T', 'T const', 'const T[N]', 'T *const' (the object itself is const)."""
    t = t.strip()
    m = re.match(r'^(.*?)(\s*\[\d*\])+$', t)
    if m:
        t = m.group(1).strip()
    if t.endswith('*const') or t.endswith('* const'):
        return True
    if '*' in t or '&' in t:
        return False
    return t.startswith('const ') or t.endswith(' const') or ' const ' in t


def var_refs(fn):
    """[(decl_id, name, node, write)] for every DeclRefExpr to a VarDecl in fn (nested
    lambdas excluded).  write: None (read), 'direct' (the variable itself is the
    target) or 'through' (something reached through it is written)."""
    writes = {}
    for x in _walk_no_lambda(fn):
        if x.get('kind') in ('BinaryOperator', 'CompoundAssignOperator', 'UnaryOperator', 'CallExpr',
                             'CXXMemberCallExpr', 'CXXOperatorCallExpr', 'CXXConstructExpr'):
            for lv in _direct_writes(x):
                r = _root_ref(lv)
                if r is not None:
                    direct = peel(lv) is r and not (x.get('kind') == 'UnaryOperator' and x.get('opcode') == '&')
                    if writes.get(id(r)) != 'direct':
                        writes[id(r)] = 'direct' if direct else 'through'
    out = []
    for x in _walk_no_lambda(fn):
        if x.get('kind') == 'DeclRefExpr':
            rd = x.get('referencedDecl') or {}
            if rd.get('kind') == 'VarDecl':
                out.append((rd.get('id'), rd.get('name'), x, writes.get(id(x))))
    return out


def _direct_writes(x):
    """written_lvalues restricted to node x itself (not its descendants)."""
    k = x.get('kind')
    out = []
    if k == 'BinaryOperator':
        op = x.get('opcode')
        if op == '=' or (op.endswith('=') and op not in ('==', '!=', '<=', '>=')):
            out.append(kids(x)[0])
    elif k == 'CompoundAssignOperator':
        out.append(kids(x)[0])
    elif k == 'UnaryOperator' and x.get('opcode') in ('++', '--', '&'):
        out.append(kids(x)[0])
    else:
        # reuse the full routine on a shallow copy without nested calls
        for lv in written_lvalues(x):
            p = lv
            owner = None
            while p is not None and p is not x:
                if p.get('kind') in ('CallExpr', 'CXXMemberCallExpr', 'CXXOperatorCallExpr',
                                     'CXXConstructExpr', 'BinaryOperator', 'UnaryOperator',
                                     'CompoundAssignOperator') and p is not lv:
                    owner = p
                    break
                p = p.get('_p')
            if owner is None:
                out.append(lv)
    return out


def _root_ref(e):
    x = peel(e)
    while x is not None:
        k = x.get('kind')
        if k == 'DeclRefExpr':
            return x
        if k in ('MemberExpr', 'ArraySubscriptExpr'):
            ks = kids(x)
            if not ks:
                return None
            x = peel(ks[0])
            continue
        if k == 'UnaryOperator' and x.get('opcode') in ('*', '&', '++', '--'):
            x = peel(kids(x)[0])
            continue
        if k == 'CXXOperatorCallExpr':
            a = call_args(x)
            if a:
                x = peel(a[0])
                continue
        return None
    return None


def extern_calls(G, fkey):
    return [(t, site) for (kind, t, site) in G.edges.get(fkey, ()) if kind == 'extern']


def named_types(fn):
    """Type strings named by declarations / constructions / news in fn."""
    out = []
    for x in _walk_no_lambda(fn):
        if x.get('kind') in ('VarDecl', 'CXXConstructExpr', 'CXXTemporaryObjectExpr', 'CXXNewExpr',
                             'CXXFunctionalCastExpr', 'FieldDecl'):
            out.append((dtype(x) or qtype(x), x))
    return out


THREAD_TYPES = re.compile(r'\bstd::(thread|jthread|packaged_task|future|promise|async)\b|\bpthread_t\b')
THREAD_CALLS = {'async', 'std::async', 'pthread_create', 'thrd_create', 'std::thread', 'CreateThread',
                '_beginthreadex', 'dispatch_async'}


def thread_effects(G, fkey, fn):
    out = []
    for (t, x) in named_types(fn):
        if THREAD_TYPES.search(t):
            out.append(('type ' + t, x))
    for (name, site) in extern_calls(G, fkey):
        base = name.split('::')[-1]
        if name in THREAD_CALLS or base in ('pthread_create', 'thrd_create', 'async') or \
                name.startswith('ctor:std::thread') or name.startswith('ctor:std::jthread'):
            out.append(('call ' + name, site))
    return out
