"""Symbolic normal form for element/pointer expressions into one container:
('elem'|'ptr', base_key, linear) and ('int', None, linear), linear = {symbol: coeff, '': const}."""
import re
from .frontend import kids
from .expr import peel, callee, call_args


def ladd(a, b, sign=1):
    r = dict(a)
    for k, v in b.items():
        r[k] = r.get(k, 0) + sign * v
        if r[k] == 0 and k != '':
            del r[k]
    if r.get('') == 0:
        r.pop('', None)
    return r


def lconst(c):
    return {'': c} if c else {}


def is_iter_type(t):
    """Random-access iterator of a standard contiguous container (vector / string / array)."""
    return bool(t) and ('__normal_iterator' in t or t.rstrip().endswith('iterator') or 'const_iterator' in t)


class PtrNorm(object):
    def __init__(self, keys, env=None):
        self.keys = keys          # Keys instance (for folding and base keys)
        self.env = env or {}      # decl id -> normal form

    def norm(self, e):
        x = peel(e)
        if x is None:
            return None
        for (c_, nf_) in getattr(self, 'seed_calls', ()):
            if x is c_ or x is peel(c_):
                return nf_
        v = self.keys.folder.fold(x)
        if v is not None and not (x.get('type', {}).get('qualType', '').endswith('*')):
            return ('int', None, lconst(v))
        k = x.get('kind')
        if k in ('CXXConstructExpr', 'MaterializeTemporaryExpr', 'CXXBindTemporaryExpr', 'ExprWithCleanups', 'CXXFunctionalCastExpr'):
            ks_ = [a for a in kids(x) if a.get('kind') != 'CXXDefaultArgExpr']
            if len(ks_) == 1:
                return self.norm(ks_[0])         # copy / conversion of an iterator or pointer value
        if k == 'DeclRefExpr':
            i = (x.get('referencedDecl') or {}).get('id')
            if i in self.env:
                return self.env[i]
            t = (x.get('type') or {}).get('qualType', '')
            if t.endswith('*') or t.endswith('* const') or is_iter_type(t):
                return None
            return ('int', None, {self.keys.key(x): 1})
        if k == 'UnaryOperator':
            op = x.get('opcode')
            r = self.norm(kids(x)[0])
            if r is None:
                return None
            if op == '&' and r[0] == 'elem':
                return ('ptr', r[1], r[2])
            if op == '*' and r[0] == 'ptr':
                return ('elem', r[1], r[2])
            if op in ('--', '++') and r[0] in ('ptr', 'int'):
                if x.get('isPostfix'):
                    return r
                return (r[0], r[1], ladd(r[2], lconst(1), -1 if op == '--' else 1))
            if op == '-' and r[0] == 'int':
                return ('int', None, ladd({}, r[2], -1))
            return None
        if k == 'BinaryOperator' and x.get('opcode') in ('+', '-'):
            a = self.norm(kids(x)[0])
            b = self.norm(kids(x)[1])
            if a is None or b is None:
                return None
            sg = 1 if x.get('opcode') == '+' else -1
            if a[0] == 'ptr' and b[0] == 'int':
                return ('ptr', a[1], ladd(a[2], b[2], sg))
            if a[0] == 'int' and b[0] == 'ptr' and sg == 1:
                return ('ptr', b[1], ladd(b[2], a[2]))
            if a[0] == 'ptr' and b[0] == 'ptr' and sg == -1 and a[1] == b[1]:
                return ('int', None, ladd(a[2], b[2], -1))
            if a[0] == 'int' and b[0] == 'int':
                return ('int', None, ladd(a[2], b[2], sg))
            return None
        if k == 'ArraySubscriptExpr':
            a, b = kids(x)
            ra = self.norm(a)
            rb = self.norm(b)
            if rb is None or rb[0] != 'int':
                return None
            if ra is not None and ra[0] == 'ptr':
                return ('elem', ra[1], ladd(ra[2], rb[2]))
            return ('elem', self.keys.key(a), rb[2])
        if k == 'CXXMemberCallExpr':
            # iterators of a contiguous container:  c.begin() = &c[0],  c.end() = &c[0] + c.size()
            c = callee(x)
            if c and c[0] == 'method' and c[2] is not None and not call_args(x) and is_iter_type(x.get('type', {}).get('qualType', '')):
                base = self.keys.key(c[2])
                if c[1] in ('begin', 'cbegin'):
                    return ('ptr', base, {})
                if c[1] in ('end', 'cend'):
                    return ('ptr', base, {'%s.size()' % base: 1})
            if c and c[0] == 'method' and c[1] == 'data' and c[2] is not None and not call_args(x):
                return ('ptr', self.keys.key(c[2]), {})
            return None
        if k == 'CallExpr':
            # std::prev / std::next / std::distance over pointers or iterators of one container
            c = callee(x)
            args = call_args(x)
            nm = c[1].get('name') if c and c[0] == 'fn' else None
            if nm in ('prev', 'next') and 1 <= len(args) <= 2:
                ra = self.norm(args[0])
                rn = self.norm(args[1]) if len(args) == 2 else ('int', None, lconst(1))
                if ra is not None and ra[0] == 'ptr' and rn is not None and rn[0] == 'int':
                    return ('ptr', ra[1], ladd(ra[2], rn[2], 1 if nm == 'next' else -1))
                return None
            if nm == 'distance' and len(args) == 2:
                ra, rb = self.norm(args[0]), self.norm(args[1])
                if ra is not None and rb is not None and ra[0] == rb[0] == 'ptr' and ra[1] == rb[1]:
                    return ('int', None, ladd(rb[2], ra[2], -1))
                return None
            return None
        if k == 'CXXOperatorCallExpr':
            c = callee(x)
            args = call_args(x)
            nm = c[1].get('name') if c and c[0] == 'fn' else None
            if nm == 'operator[]' and len(args) == 2:
                rb = self.norm(args[1])
                if rb is None or rb[0] != 'int':
                    return None
                ra = self.norm(args[0]) if is_iter_type((peel(args[0]).get('type') or {}).get('qualType', '')) else None
                if ra is not None and ra[0] == 'ptr':
                    return ('elem', ra[1], ladd(ra[2], rb[2]))
                return ('elem', self.keys.key(args[0]), rb[2])
            if args and is_iter_type((peel(args[0]).get('type') or {}).get('qualType', '')) or \
                    (len(args) == 2 and is_iter_type((peel(args[1]).get('type') or {}).get('qualType', ''))):
                ra = self.norm(args[0])
                rb = self.norm(args[1]) if len(args) == 2 else None
                if nm == 'operator*' and len(args) == 1 and ra is not None and ra[0] == 'ptr':
                    return ('elem', ra[1], ra[2])
                if nm in ('operator+', 'operator-') and len(args) == 2 and ra is not None and rb is not None:
                    sg = 1 if nm == 'operator+' else -1
                    if ra[0] == 'ptr' and rb[0] == 'int':
                        return ('ptr', ra[1], ladd(ra[2], rb[2], sg))
                    if ra[0] == 'int' and rb[0] == 'ptr' and sg == 1:
                        return ('ptr', rb[1], ladd(rb[2], ra[2]))
                    if ra[0] == 'ptr' and rb[0] == 'ptr' and sg == -1 and ra[1] == rb[1]:
                        return ('int', None, ladd(ra[2], rb[2], -1))
                if nm in ('operator++', 'operator--') and ra is not None and ra[0] == 'ptr':
                    if len(args) == 2:          # postfix form has a dummy int argument
                        return ra
                    return ('ptr', ra[1], ladd(ra[2], lconst(1), 1 if nm == 'operator++' else -1))
            return None
        if k == 'MemberExpr':
            t = (x.get('type') or {}).get('qualType', '')
            if not t.endswith('*'):
                return ('int', None, {self.keys.key(x): 1})
            return None
        return None


def build_env(fn, keys, never_written):
    """Normal forms of pointer locals that are initialised once and of reference
    locals (a reference always denotes its initialiser's referent)."""
    from .frontend import walk, qtype
    import re as _re
    env = {}
    # a pointer parameter of a file-local helper that every caller binds to the first element of one container
    for p in fn.get('inner', ()):
        if isinstance(p, dict) and p.get('kind') == 'ParmVarDecl':
            bound = (getattr(keys, 'subst', None) or {}).get(p.get('id'))
            m = _re.match(r'^&\((.+)\[n:0\]\)$', bound or '')
            if m and (qtype(p) or '').rstrip().endswith('*'):
                env[p['id']] = ('ptr', m.group(1), {})
            # ... or to  &C[0] + <one named quantity>  (the end of the table: first + size)
            m2 = _re.match(r'^\(&\((.+)\[n:0\]\) \+ ([\w.#:]+(?:\(\))?)\)$', bound or '')
            if m2 and (qtype(p) or '').rstrip().endswith('*') and m2.group(2).count('(') <= 1:
                q_ = m2.group(2)
                env[p['id']] = ('ptr', m2.group(1), {'': int(q_[2:])} if _re.match(r'^n:-?\d+$', q_) else {q_: 1})
    for x in walk(fn):
        if x.get('kind') != 'VarDecl' or 'init' not in x:
            continue
        t = qtype(x).rstrip()
        isref = t.endswith('&') and not t.endswith('&&')
        isptr = t.endswith('*') or t.endswith('*const') or t.endswith('* const') or is_iter_type(t)
        if not (isref or (isptr and x['id'] in never_written)):
            continue
        ini = kids(x)
        if not ini:
            continue
        r = PtrNorm(keys, env).norm(ini[-1])
        if r is None:
            continue
        if isref and r[0] == 'elem':
            env[x['id']] = r
        elif isptr and r[0] == 'ptr':
            env[x['id']] = r
    return env


class PtrFlow(object):
    """Flow-sensitive normal forms of pointer locals: a forward dataflow over the CFG that follows
    declarations, assignments, ++/--, += / -= of pointer-typed locals.  `seeds` gives the normal form
    a declaration is to be taken as (e.g. the result of a search: ('ptr', base, {'U': 1}))."""

    def __init__(self, cfg, keys, never_written, seeds=None, seed_calls=None):
        from .frontend import walk, qtype
        self.cfg, self.keys = cfg, keys
        self.never_written = never_written
        self.seeds = seeds or {}
        self.seed_calls = seed_calls or []      # [(call ast, normal form of its result)]
        self.base = build_env(cfg.fn, keys, never_written)
        for i, v in self.seeds.items():
            if i in never_written:
                self.base[i] = v
        self._walk, self._qtype = walk, qtype

        def meet(ins):
            r = dict(ins[0])
            for s in ins[1:]:
                for k in list(r):
                    if s.get(k) != r[k]:
                        del r[k]
            return r
        self.at, self.after = cfg.forward({}, self._transfer, meet)

    def _is_index_local(self, x):
        from .frontend import dtype
        return x['id'] in self.never_written and bool(kids(x)) and bool(re.match(
            r'^(const )?(unsigned |signed )?(char|short|int|long|long long)( const)?$', (dtype(x) or '').strip()))

    def _env(self, st):
        e = dict(self.base)
        e.update(st)
        return e

    def _isptr(self, x):
        t = (self._qtype(x) or '').rstrip()
        return t.endswith('*') or t.endswith('* const') or t.endswith('*const') or is_iter_type(t)

    def _transfer(self, n, st):
        if n.ast is None or n.kind not in ('stmt', 'cond', 'switch'):
            return st
        st = dict(st)
        # evaluation order approximated by post-order (operands before operators)
        for x in self._post(n.ast):
            k = x.get('kind')
            if k == 'VarDecl' and 'init' in x and not self._isptr(x) and self._is_index_local(x):
                # an index local written once: the distance it was initialised from (say, search result - first entry)
                r = self._norm_rhs(kids(x)[-1], st)
                if r is not None and r[0] == 'int' and any(k_ for k_ in r[2]):
                    st[x['id']] = r
            elif k == 'VarDecl' and 'init' in x and self._isptr(x):
                if x['id'] in self.seeds:
                    st[x['id']] = self.seeds[x['id']]
                else:
                    r = self._norm_rhs(kids(x)[-1], st)
                    if r is not None and r[0] == 'ptr':
                        st[x['id']] = r
                    else:
                        st.pop(x['id'], None)
            elif k == 'UnaryOperator' and x.get('opcode') in ('++', '--'):
                t = peel(kids(x)[0])
                i = (t.get('referencedDecl') or {}).get('id') if t.get('kind') == 'DeclRefExpr' else None
                if i is not None and self._isptr(t):
                    cur = self._env(st).get(i)
                    if cur is not None and cur[0] == 'ptr':
                        st[i] = ('ptr', cur[1], ladd(cur[2], lconst(1), 1 if x['opcode'] == '++' else -1))
                    else:
                        st.pop(i, None)
                        self.base.pop(i, None)
            elif k == 'CXXOperatorCallExpr' and callee(x) and callee(x)[0] == 'fn' and \
                    callee(x)[1].get('name') in ('operator++', 'operator--', 'operator=', 'operator+=', 'operator-=') and call_args(x):
                # the same on iterator locals
                nm = callee(x)[1].get('name')
                args = call_args(x)
                t = peel(args[0])
                i = (t.get('referencedDecl') or {}).get('id') if t.get('kind') == 'DeclRefExpr' else None
                if i is not None and self._isptr(t):
                    env = self._env(st)
                    cur = env.get(i)
                    new = None
                    if nm in ('operator++', 'operator--') and cur is not None and cur[0] == 'ptr':
                        new = ('ptr', cur[1], ladd(cur[2], lconst(1), 1 if nm == 'operator++' else -1))
                    elif nm == 'operator=' and len(args) == 2:
                        r = self._norm_rhs(args[1], st)
                        new = r if r is not None and r[0] == 'ptr' else None
                    elif nm in ('operator+=', 'operator-=') and len(args) == 2 and cur is not None and cur[0] == 'ptr':
                        r = self._norm_rhs(args[1], st)
                        if r is not None and r[0] == 'int':
                            new = ('ptr', cur[1], ladd(cur[2], r[2], 1 if nm == 'operator+=' else -1))
                    if new is not None:
                        st[i] = new
                    else:
                        st.pop(i, None)
                        self.base.pop(i, None)
            elif k in ('BinaryOperator', 'CompoundAssignOperator') and x.get('opcode') in ('=', '+=', '-='):
                t = peel(kids(x)[0])
                i = (t.get('referencedDecl') or {}).get('id') if t.get('kind') == 'DeclRefExpr' else None
                if i is not None and self._isptr(t):
                    env = self._env(st)
                    r = self._norm_rhs(kids(x)[1], st)
                    cur = env.get(i)
                    if x['opcode'] == '=' and r is not None and r[0] == 'ptr':
                        st[i] = r
                    elif x['opcode'] != '=' and r is not None and r[0] == 'int' and cur is not None and cur[0] == 'ptr':
                        st[i] = ('ptr', cur[1], ladd(cur[2], r[2], 1 if x['opcode'] == '+=' else -1))
                    else:
                        st.pop(i, None)
                        self.base.pop(i, None)
        return st

    def _norm_rhs(self, e, st):
        p = peel(e)
        for (c, nf) in self.seed_calls:
            if p is c:
                return nf
        pn_ = PtrNorm(self.keys, self._env(st))
        pn_.seed_calls = self.seed_calls
        return pn_.norm(e)

    def _post(self, e):
        for c in kids(e):
            if c.get('kind') == 'LambdaExpr':
                continue
            for y in self._post(c):
                yield y
        yield e

    def norm_at(self, node, e):
        """Normal form of e as evaluated at CFG node `node` (state on entry to the node; side effects
        inside e itself are applied by the normaliser)."""
        pn_ = PtrNorm(self.keys, self._env(self.at.get(node.id, {})))
        pn_.seed_calls = self.seed_calls
        return pn_.norm(e)

    def norm_at_ast(self, e):
        ns = self.cfg.nodes_for(e)
        if not ns:
            return None
        rs = [self.norm_at(n, e) for n in ns]
        return rs[0] if all(r == rs[0] for r in rs) else None
