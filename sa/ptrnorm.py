"""Symbolic normal form for element/pointer expressions into one container:
('elem'|'ptr', base_key, linear) and ('int', None, linear), linear = {symbol: coeff, '': const}."""
from .frontend import kids
from .expr import peel, callee, call_args


def ladd(a, b, sign=1):
    r = dict(a)
    for k, v in b.items():
        r[k] = r.get(k, 0) + sign * v
        if r[k] == 0 and k != '':
            del r[k]
    if r.get('') == 0:
        r.pop('', None)
    return r


def lconst(c):
    return {'': c} if c else {}


class PtrNorm(object):
    def __init__(self, keys, env=None):
        self.keys = keys          # Keys instance (for folding and base keys)
        self.env = env or {}      # decl id -> normal form

    def norm(self, e):
        x = peel(e)
        if x is None:
            return None
        v = self.keys.folder.fold(x)
        if v is not None and not (x.get('type', {}).get('qualType', '').endswith('*')):
            return ('int', None, lconst(v))
        k = x.get('kind')
        if k == 'DeclRefExpr':
            i = (x.get('referencedDecl') or {}).get('id')
            if i in self.env:
                return self.env[i]
            t = (x.get('type') or {}).get('qualType', '')
            if t.endswith('*') or t.endswith('* const'):
                return None
            return ('int', None, {self.keys.key(x): 1})
        if k == 'UnaryOperator':
            op = x.get('opcode')
            r = self.norm(kids(x)[0])
            if r is None:
                return None
            if op == '&' and r[0] == 'elem':
                return ('ptr', r[1], r[2])
            if op == '*' and r[0] == 'ptr':
                return ('elem', r[1], r[2])
            if op in ('--', '++') and r[0] in ('ptr', 'int'):
                if x.get('isPostfix'):
                    return r
                return (r[0], r[1], ladd(r[2], lconst(1), -1 if op == '--' else 1))
            if op == '-' and r[0] == 'int':
                return ('int', None, ladd({}, r[2], -1))
            return None
        if k == 'BinaryOperator' and x.get('opcode') in ('+', '-'):
            a = self.norm(kids(x)[0])
            b = self.norm(kids(x)[1])
            if a is None or b is None:
                return None
            sg = 1 if x.get('opcode') == '+' else -1
            if a[0] == 'ptr' and b[0] == 'int':
                return ('ptr', a[1], ladd(a[2], b[2], sg))
            if a[0] == 'int' and b[0] == 'ptr' and sg == 1:
                return ('ptr', b[1], ladd(b[2], a[2]))
            if a[0] == 'ptr' and b[0] == 'ptr' and sg == -1 and a[1] == b[1]:
                return ('int', None, ladd(a[2], b[2], -1))
            if a[0] == 'int' and b[0] == 'int':
                return ('int', None, ladd(a[2], b[2], sg))
            return None
        if k == 'ArraySubscriptExpr':
            a, b = kids(x)
            ra = self.norm(a)
            rb = self.norm(b)
            if rb is None or rb[0] != 'int':
                return None
            if ra is not None and ra[0] == 'ptr':
                return ('elem', ra[1], ladd(ra[2], rb[2]))
            return ('elem', self.keys.key(a), rb[2])
        if k == 'CXXOperatorCallExpr':
            c = callee(x)
            args = call_args(x)
            nm = c[1].get('name') if c and c[0] == 'fn' else None
            if nm == 'operator[]' and len(args) == 2:
                rb = self.norm(args[1])
                if rb is None or rb[0] != 'int':
                    return None
                return ('elem', self.keys.key(args[0]), rb[2])
            return None
        if k == 'MemberExpr':
            t = (x.get('type') or {}).get('qualType', '')
            if not t.endswith('*'):
                return ('int', None, {self.keys.key(x): 1})
            return None
        return None


def build_env(fn, keys, never_written):
    """Normal forms of pointer locals that are initialised once and of reference
    locals (a reference always denotes its initialiser's referent)."""
    from .frontend import walk, qtype
    env = {}
    for x in walk(fn):
        if x.get('kind') != 'VarDecl' or 'init' not in x:
            continue
        t = qtype(x).rstrip()
        isref = t.endswith('&') and not t.endswith('&&')
        isptr = t.endswith('*') or t.endswith('*const') or t.endswith('* const')
        if not (isref or (isptr and x['id'] in never_written)):
            continue
        ini = kids(x)
        if not ini:
            continue
        r = PtrNorm(keys, env).norm(ini[-1])
        if r is None:
            continue
        if isref and r[0] == 'elem':
            env[x['id']] = r
        elif isptr and r[0] == 'ptr':
            env[x['id']] = r
    return env
